package mocrelay_test

import (
	"context"
	"fmt"
	"math"
	"math/big"
	"math/rand/v2"
	"reflect"
	"runtime"
	"sort"
	"strings"
	"sync"
	"sync/atomic"
	"testing"
	"time"
	"unicode/utf8"

	"github.com/high-moctane/mocrelay"
	vk "github.com/high-moctane/mocrelay/internal/verifkit"
)

// C17 — limit middlewares reject exactly the offending message and pass the rest as
// is; the chain built from a NIP-11 limitation block behaves like the individual
// middlewares.
//
// Observation: mw(recordingHandler).ServeNostr — the real concurrent wrapper. The
// client side feeds seeded client messages, the recording downstream handler logs
// what arrives and emits seeded server messages. After every batch a sentinel AUTH
// message is fed; when it reaches the recording handler every earlier client message
// has been decided (the client->handler direction is a FIFO pipeline), and the
// handler answers it with a sentinel NOTICE; when that reaches the client every
// earlier reply/server message has come out (handler->client is FIFO per stage).
// Between two sentinels the oracle therefore sees everything a batch forwarded and
// every scripted server message. The statement fixes no order between a rejection
// and unrelated server messages, so a rejection that has not arrived when its
// window closes stays pending and may arrive in any later window of the session; it
// is missing only if it is still absent after a final bounded wait and the end of
// the session (inbound channel closed, ServeNostr returned).
//
// Oracle: the predicates of the statement, written here from the statement (never by
// calling the middleware bases).

const (
	c17Margin     = 90               // seconds between any generated created_at and any moving boundary (>= 60 demanded)
	c17MaxSession = 25 * time.Second // a session slower than this cannot trust its timestamps: discarded as inconclusive
	c17Wait       = 15 * time.Second // bound for every wait on an observable event
	c17SyncPrefix = "c17c17c17c17"
	c17Year       = int64(365 * 86400)
)

var (
	c17Authors = []string{vk.FakePub(170), vk.FakePub(171), vk.FakePub(172)}
	c17Kinds   = []int64{0, 1, 5, 7, 30000}
	c17TVals   = []string{"x", "y", ""}
	c17Sig     = strings.Repeat("ab", 64)
	c17Abort   atomic.Int32 // number of expired waits; sessions stop starting once it is >= 2
	c17Lost    atomic.Int32 // sessions that ended with a rejection still missing; sessions stop starting once it is >= 6
)

// ---------------------------------------------------------------------------
// configuration + oracle predicates

type c17MW struct {
	Kind   string              `json:"kind"` // filters limit subid tags content lower upper window allow deny quota
	N      int64               `json:"n,omitempty"`
	From   int64               `json:"from_s,omitempty"`
	To     int64               `json:"to_s,omitempty"`
	Filter *mocrelay.ReqFilter `json:"filter,omitempty"`
}

type c17Matcher struct{ f *mocrelay.ReqFilter }

func (m c17Matcher) Match(e *mocrelay.Event) bool { return vk.RefMatch(m.f, e) }

func (m c17MW) build() mocrelay.Middleware {
	switch m.Kind {
	case "filters":
		return mocrelay.Middleware(mocrelay.NewMaxReqFiltersMiddleware(int(m.N)))
	case "limit":
		return mocrelay.Middleware(mocrelay.NewMaxLimitMiddleware(int(m.N)))
	case "subid":
		return mocrelay.Middleware(mocrelay.NewMaxSubIDLengthMiddleware(int(m.N)))
	case "tags":
		return mocrelay.Middleware(mocrelay.NewMaxEventTagsMiddleware(int(m.N)))
	case "content":
		return mocrelay.Middleware(mocrelay.NewMaxContentLengthMiddleware(int(m.N)))
	case "lower":
		return mocrelay.Middleware(mocrelay.NewCreatedAtLowerLimitMiddleware(m.N))
	case "upper":
		return mocrelay.Middleware(mocrelay.NewCreatedAtUpperLimitMiddleware(m.N))
	case "window":
		return mocrelay.Middleware(mocrelay.NewEventCreatedAtMiddleware(c17Dur(m.From), c17Dur(m.To)))
	case "allow":
		return mocrelay.Middleware(mocrelay.NewRecvEventAllowFilterMiddleware(c17Matcher{m.Filter}))
	case "deny":
		return mocrelay.Middleware(mocrelay.NewRecvEventDenyFilterMiddleware(c17Matcher{m.Filter}))
	}
	panic("c17: unknown middleware kind " + m.Kind)
}

func c17ReqCount(msg mocrelay.ClientMsg) (subID string, fs []*mocrelay.ReqFilter, ok bool) {
	switch m := msg.(type) {
	case *mocrelay.ClientReqMsg:
		return m.SubscriptionID, m.ReqFilters, true
	case *mocrelay.ClientCountMsg:
		return m.SubscriptionID, m.ReqFilters, true
	}
	return "", nil, false
}

func c17EventOf(msg mocrelay.ClientMsg) *mocrelay.Event {
	if m, ok := msg.(*mocrelay.ClientEventMsg); ok {
		return m.Event
	}
	return nil
}

// c17Sub is a - b without wrap-around (created_at and the limits range over all of int64).
func c17Sub(a, b int64) *big.Int { return new(big.Int).Sub(big.NewInt(a), big.NewInt(b)) }

// respectsEvent: the per-event predicates of the statement (now = reference time of
// the session; generated timestamps keep c17Margin seconds from every boundary).
func (m c17MW) respectsEvent(ev *mocrelay.Event, now int64) bool {
	switch m.Kind {
	case "tags":
		return int64(len(ev.Tags)) <= m.N
	case "content":
		return int64(len(ev.Content)) <= m.N // byte/rune ambiguity excluded by the generator
	case "lower":
		return c17Sub(now, ev.CreatedAt).Cmp(big.NewInt(m.N)) <= 0
	case "upper":
		return c17Sub(ev.CreatedAt, now).Cmp(big.NewInt(m.N)) <= 0
	case "window":
		d := c17Sub(ev.CreatedAt, now)
		// the ends of the int64 range stand for "no bound on this side" (see c17Dur)
		return (m.From == math.MinInt64 || big.NewInt(m.From).Cmp(d) <= 0) && (m.To == math.MaxInt64 || d.Cmp(big.NewInt(m.To)) <= 0)
	case "allow":
		return vk.RefMatch(m.Filter, ev)
	case "deny":
		return !vk.RefMatch(m.Filter, ev)
	}
	return true
}

// respects: does the client message respect the limit this (stateless) middleware is
// configured with? Messages of a type the limit does not speak about respect it.
func (m c17MW) respects(msg mocrelay.ClientMsg, now int64) bool {
	switch m.Kind {
	case "filters":
		if _, fs, ok := c17ReqCount(msg); ok {
			return int64(len(fs)) <= m.N
		}
	case "limit":
		if _, fs, ok := c17ReqCount(msg); ok {
			for _, f := range fs {
				if f.Limit != nil && *f.Limit > m.N {
					return false
				}
			}
		}
	case "subid":
		if id, _, ok := c17ReqCount(msg); ok {
			return int64(len(id)) <= m.N // byte/rune ambiguity excluded by the generator
		}
	case "quota":
		return true // stateful, handled by the session model
	default:
		if ev := c17EventOf(msg); ev != nil {
			return m.respectsEvent(ev, now)
		}
	}
	return true
}

// c17Dur turns seconds into a Duration; the two ends of the int64 range stand for "no bound"
// (the smallest / largest Duration there is).
func c17Dur(sec int64) time.Duration {
	switch sec {
	case math.MinInt64:
		return time.Duration(math.MinInt64)
	case math.MaxInt64:
		return time.Duration(math.MaxInt64)
	}
	return time.Duration(sec) * time.Second
}

// boundaries returns the moving created_at boundaries of the middleware (those that are
// timestamps at all: a boundary outside the int64 range is nothing a created_at can come near).
func (m c17MW) boundaries(now int64) []int64 {
	var out []int64
	add := func(b *big.Int) {
		if b.IsInt64() {
			out = append(out, b.Int64())
		}
	}
	switch m.Kind {
	case "lower":
		add(c17Sub(now, m.N))
	case "upper":
		add(c17Sub(now, 0).Add(big.NewInt(now), big.NewInt(m.N)))
	case "window":
		add(new(big.Int).Add(big.NewInt(now), big.NewInt(m.From)))
		add(new(big.Int).Add(big.NewInt(now), big.NewInt(m.To)))
	}
	return out
}

type c17Cfg struct {
	Phase string          `json:"phase"`
	MWs   []c17MW         `json:"middlewares"` // hand-built: outermost first; nip11: the limits read off the document
	Doc   *mocrelay.NIP11 `json:"nip11,omitempty"`
	Mask  int             `json:"nip11_mask,omitempty"`
	Now   int64           `json:"now"`

	FromNIP11 bool `json:"built_by_BuildMiddlewareFromNIP11,omitempty"`
}

func (c *c17Cfg) handler(down mocrelay.Handler) mocrelay.Handler {
	if c.Phase == "nip11" || c.FromNIP11 {
		// a middleware is a value that may wrap any number of handlers: in two cases out of
		// three the chain has already been applied to one or two other handlers before
		mw := mocrelay.BuildMiddlewareFromNIP11(c.Doc)
		for k := c.Mask % 3; k > 0; k-- {
			mw(mocrelay.NewDefaultHandler())
		}
		return mw(down)
	}
	h := down
	for i := len(c.MWs) - 1; i >= 0; i-- {
		h = c.MWs[i].build()(h)
	}
	return h
}

func (c *c17Cfg) limits(kind string) []int64 {
	var out []int64
	for _, m := range c.MWs {
		if m.Kind == kind {
			out = append(out, m.N)
		}
	}
	return out
}

func (c *c17Cfg) quota() int {
	for _, m := range c.MWs {
		if m.Kind == "quota" {
			return int(m.N)
		}
	}
	return 0
}

func (c *c17Cfg) has(kinds ...string) bool {
	for _, m := range c.MWs {
		for _, k := range kinds {
			if m.Kind == k {
				return true
			}
		}
	}
	return false
}

func (c *c17Cfg) eventRespectsAll(ev *mocrelay.Event) bool {
	for _, m := range c.MWs {
		if !m.respectsEvent(ev, c.Now) {
			return false
		}
	}
	return true
}

// statelessCulprits lists the kinds of the stateless middlewares the message violates.
func (c *c17Cfg) statelessCulprits(msg mocrelay.ClientMsg) []string {
	var out []string
	seen := map[string]bool{}
	for _, m := range c.MWs {
		if !m.respects(msg, c.Now) && !seen[m.Kind] {
			seen[m.Kind] = true
			out = append(out, m.Kind)
		}
	}
	sort.Strings(out)
	return out
}

func (c *c17Cfg) timeOK(at int64) bool {
	for _, m := range c.MWs {
		for _, b := range m.boundaries(c.Now) {
			if d := c17Sub(at, b); d.Abs(d).Cmp(big.NewInt(c17Margin)) < 0 {
				return false
			}
		}
	}
	return true
}

func c17SameSide(s string, limits []int64) bool {
	for _, n := range limits {
		if (int64(len(s)) <= n) != (int64(utf8.RuneCountInString(s)) <= n) {
			return false
		}
	}
	return true
}

// ---------------------------------------------------------------------------
// generators

type c17Gen struct {
	r       *rand.Rand
	cfg     *c17Cfg
	tag     string // unique per session
	seq     int
	subPool []string // sub ids used by earlier REQs (CLOSE picks from here)
	tmpl    *mocrelay.Event
}

func (g *c17Gen) uid() string { g.seq++; return fmt.Sprintf("%s/%d", g.tag, g.seq) }

// around picks a size below / at / above / far above the limit n (n >= 1).
func c17Around(r *rand.Rand, n int64) (int64, string) {
	switch r.IntN(9) {
	case 0:
		return 0, "zero"
	case 1, 2:
		return n - 1, "below"
	case 3, 4:
		return n, "at"
	case 5, 6:
		return n + 1, "above"
	default:
		return 2*n + 5 + int64(r.IntN(20)), "far"
	}
}

var c17Wide = []string{"é", "あ", "😀", "ß", "中"}

// c17Str builds a string of exactly n bytes; wide mixes in multi-byte runes.
func c17Str(r *rand.Rand, n int64, wide bool) string {
	var b strings.Builder
	for int64(b.Len()) < n {
		left := n - int64(b.Len())
		if wide && r.IntN(2) == 0 {
			w := vk.Pick(r, c17Wide)
			if int64(len(w)) <= left {
				b.WriteString(w)
				continue
			}
		}
		b.WriteByte(byte('a' + r.IntN(26)))
	}
	return b.String()
}

func (g *c17Gen) sizedString(kind string, free int) (string, string) {
	r := g.r
	ls := g.cfg.limits(kind)
	if len(ls) == 0 {
		n := int64(r.IntN(free + 1))
		return c17Str(r, n, r.IntN(3) == 0), "free"
	}
	n, rel := c17Around(r, vk.Pick(r, ls))
	if r.IntN(3) == 0 {
		s := c17Str(r, n, true)
		if c17SameSide(s, ls) {
			if len(s) != utf8.RuneCountInString(s) {
				rel += "+wide"
			}
			return s, rel
		}
		// byte and rune length on different sides of a limit: unit not specified, excluded
	}
	return c17Str(r, n, false), rel
}

func (g *c17Gen) createdAt() (int64, string) {
	r, now := g.r, g.cfg.Now
	var bs []int64
	for _, m := range g.cfg.MWs {
		bs = append(bs, m.boundaries(now)...)
	}
	for try := 0; try < 40; try++ {
		var at int64
		var rel string
		switch k := r.IntN(10); {
		case k == 9: // before the epoch, down to the start of the int64 range (created_at is an unconstrained int64 here)
			at, rel = vk.Pick(r, []int64{math.MinInt64, math.MinInt64 + 1, math.MinInt64 + 1000000000, math.MinInt64 + 4000000000, -1 << 62,
				-9223372037, -62135596801, -62135596800, -now, -1, -1 - int64(r.IntN(86400))}), "absurd-"
		case k == 8: // absurdly far in the future: where seconds * 1e9 or conversions to time.Time overflow
			at, rel = vk.Pick(r, []int64{math.MaxInt64, math.MaxInt64 - 1, 9223371974719179008, 9223371974719179007, 1 << 62,
				now * 1000, now*1000 + int64(r.IntN(86400000)), now + 10000000000, now + 18446744073, now + 9223372037}), "absurd+"
		case k == 0:
			at, rel = now+int64(r.IntN(61))-30, "now"
		case k <= 4 && len(bs) > 0:
			b := vk.Pick(r, bs)
			d := int64(c17Margin + r.IntN(120))
			if r.IntN(2) == 0 {
				at, rel = b-d, "near-"
			} else {
				at, rel = b+d, "near+"
			}
		case k == 5:
			at, rel = now-20*c17Year-int64(r.IntN(100000)), "far-"
		case k == 6:
			at, rel = now+20*c17Year+int64(r.IntN(100000)), "far+"
		default:
			at, rel = now+int64(r.IntN(200001))-100000, "day"
		}
		if at < 0 && rel != "absurd-" {
			at, rel = 0, "epoch"
		}
		if g.cfg.timeOK(at) {
			return at, rel
		}
	}
	return now + 20*c17Year + int64(r.IntN(100000)), "far+"
}

func (g *c17Gen) event() (*mocrelay.Event, string) {
	r := g.r
	e := &mocrelay.Event{Pubkey: vk.Pick(r, c17Authors), Kind: vk.Pick(r, c17Kinds), Sig: c17Sig}
	nt, trel := int64(r.IntN(5)), "free"
	if ls := g.cfg.limits("tags"); len(ls) > 0 {
		nt, trel = c17Around(r, vk.Pick(r, ls))
	}
	if nt > 0 || r.IntN(2) == 0 {
		e.Tags = []mocrelay.Tag{}
	}
	for i := int64(0); i < nt; i++ {
		switch r.IntN(6) {
		case 0:
			e.Tags = append(e.Tags, mocrelay.Tag{"e", vk.HexOf(g.uid())})
		case 1:
			e.Tags = append(e.Tags, mocrelay.Tag{"p", vk.Pick(r, c17Authors), "wss://r.example"})
		case 2:
			e.Tags = append(e.Tags, mocrelay.Tag{"d"})
		default:
			e.Tags = append(e.Tags, mocrelay.Tag{"t", vk.Pick(r, c17TVals)})
		}
	}
	var crel, arel string
	e.Content, crel = g.sizedString("content", 24)
	e.CreatedAt, arel = g.createdAt()
	e.ID = vk.HexOf("c17 event " + g.uid())
	return e, "tags=" + trel + " content=" + crel + " at=" + arel
}

// compliantEvent returns an event that respects every event limit of the
// configuration (for AUTH messages and the sentinel), or ok=false.
func (g *c17Gen) compliantEvent() (*mocrelay.Event, bool) {
	if g.tmpl == nil {
		for try := 0; try < 80; try++ {
			e, _ := g.event()
			e.Kind = 22242
			if try%2 == 1 {
				e.Kind = vk.Pick(g.r, c17Kinds)
			}
			if g.cfg.eventRespectsAll(e) {
				g.tmpl = e
				break
			}
		}
		if g.tmpl == nil {
			g.tmpl = &mocrelay.Event{Kind: 22242, Pubkey: c17Authors[0], CreatedAt: g.cfg.Now, Sig: c17Sig}
		}
	}
	e := vk.CloneEvent(g.tmpl)
	e.ID = vk.HexOf("c17 auth " + g.uid())
	return e, g.cfg.eventRespectsAll(e)
}

func c17SubList[T any](r *rand.Rand, xs []T) []T {
	switch r.IntN(4) {
	case 0:
		return []T{}
	case 1:
		return []T{vk.Pick(r, xs)}
	default:
		return []T{vk.Pick(r, xs), vk.Pick(r, xs)}
	}
}

func (g *c17Gen) filterBody() *mocrelay.ReqFilter {
	r := g.r
	f := &mocrelay.ReqFilter{}
	if r.IntN(4) == 0 {
		f.IDs = c17SubList(r, []string{vk.HexOf("c17 fid 0"), vk.HexOf("c17 fid 1")})
	}
	if r.IntN(3) == 0 {
		f.Authors = c17SubList(r, c17Authors)
	}
	if r.IntN(3) == 0 {
		f.Kinds = c17SubList(r, c17Kinds)
	}
	if r.IntN(3) == 0 {
		f.Tags = map[string][]string{"t": c17SubList(r, c17TVals)}
		if r.IntN(3) == 0 {
			f.Tags["p"] = c17SubList(r, c17Authors)
		}
	}
	if r.IntN(4) == 0 {
		f.Since = vk.Ptr(g.cfg.Now - int64(r.IntN(100000)))
	}
	if r.IntN(4) == 0 {
		f.Until = vk.Ptr(g.cfg.Now + int64(r.IntN(100000)))
	}
	return f
}

// matcherFilter is the condition handed to allow/deny middlewares (no moving parts).
func c17MatcherFilter(r *rand.Rand) *mocrelay.ReqFilter {
	f := &mocrelay.ReqFilter{}
	switch r.IntN(5) {
	case 0:
		f.Kinds = []int64{1, 7}
	case 1:
		f.Authors = []string{c17Authors[0], c17Authors[2]}
	case 2:
		f.Tags = map[string][]string{"t": {"x"}}
	case 3:
		f.Kinds = []int64{0, 1, 5}
		f.Authors = []string{c17Authors[1], c17Authors[2]}
	default:
		f.Kinds = []int64{30000}
		f.Tags = map[string][]string{"t": {"y", ""}}
	}
	return f
}

func (g *c17Gen) subID() (string, string) {
	r := g.r
	if g.cfg.quota() > 0 {
		return vk.Pick(r, []string{"a", "b", "c", "d", "e", "f"}), "pool"
	}
	if len(g.cfg.limits("subid")) > 0 {
		return g.sizedString("subid", 0)
	}
	if r.IntN(3) == 0 && len(g.subPool) > 0 {
		return vk.Pick(r, g.subPool), "reuse"
	}
	s, _ := g.sizedString("subid", 12)
	return s, "free"
}

func (g *c17Gen) reqParts() (string, []*mocrelay.ReqFilter, string) {
	r := g.r
	nf, frel := int64(r.IntN(4)), "free"
	if ls := g.cfg.limits("filters"); len(ls) > 0 {
		nf, frel = c17Around(r, vk.Pick(r, ls))
	}
	fs := make([]*mocrelay.ReqFilter, 0, nf)
	lls := g.cfg.limits("limit")
	pattern := r.IntN(6)
	lrel := "free"
	if len(lls) > 0 {
		lrel = []string{"all-ok", "first-bad", "last-bad", "mixed", "all-absent", "all-at"}[pattern]
	}
	for i := int64(0); i < nf; i++ {
		f := g.filterBody()
		if len(lls) == 0 {
			if r.IntN(2) == 0 {
				f.Limit = vk.Ptr(int64(r.IntN(1000)))
			}
		} else {
			l := vk.Pick(r, lls)
			bad := pattern == 1 && i == 0 || pattern == 2 && i == nf-1 || pattern == 3 && r.IntN(3) == 0
			switch {
			case pattern == 4:
			case pattern == 5:
				f.Limit = vk.Ptr(l)
			case bad:
				f.Limit = vk.Ptr(vk.Pick(r, []int64{l + 1, l + 1, 2*l + 7, 1 << 40}))
				if *f.Limit == l+1 && !strings.HasSuffix(lrel, "=above") {
					lrel += " worst=above"
				}
			default:
				switch r.IntN(5) {
				case 0:
				case 1:
					f.Limit = vk.Ptr(int64(0))
				case 2:
					f.Limit = vk.Ptr(l - 1)
				default:
					f.Limit = vk.Ptr(l)
				}
			}
		}
		fs = append(fs, f)
	}
	var fsl []*mocrelay.ReqFilter
	if nf > 0 || r.IntN(2) == 0 {
		fsl = fs
	}
	id, srel := g.subID()
	return id, fsl, fmt.Sprintf("nf=%s(%d) lim=%s sub=%s", frel, min(nf, 3), lrel, srel)
}

type c17Item struct {
	orig  mocrelay.ClientMsg
	snap  mocrelay.ClientMsg
	class string
}

func (it c17Item) js() string { return vk.JSON(it.snap) }

func c17Label(msg mocrelay.ClientMsg) string {
	if msg == nil {
		return "nil"
	}
	return msg.ClientMsgLabel()
}

func (g *c17Gen) clientMsg() c17Item {
	r := g.r
	ev := g.cfg.has("tags", "content", "lower", "upper", "window", "allow", "deny")
	rq := g.cfg.has("filters", "limit", "subid", "quota")
	wE, wR, wC, wX, wA := 30, 28, 14, 18, 10
	if ev && !rq {
		wE, wR, wC, wX, wA = 60, 12, 8, 10, 10
	} else if rq && !ev {
		wE, wR, wC, wX, wA = 10, 42, 22, 18, 8
	}
	if g.cfg.quota() > 0 {
		wR, wX = wR+15, wX+15
	}
	var msg mocrelay.ClientMsg
	var class string
	k := r.IntN(wE + wR + wC + wX + wA)
	switch {
	case k < wE:
		e, c := g.event()
		msg, class = &mocrelay.ClientEventMsg{Event: e}, c
	case k < wE+wR:
		id, fs, c := g.reqParts()
		msg, class = &mocrelay.ClientReqMsg{SubscriptionID: id, ReqFilters: fs}, c
		if len(g.subPool) < 8 {
			g.subPool = append(g.subPool, id)
		}
	case k < wE+wR+wC:
		id, fs, c := g.reqParts()
		msg, class = &mocrelay.ClientCountMsg{SubscriptionID: id, ReqFilters: fs}, c
	case k < wE+wR+wC+wX:
		// CLOSE: only sub ids within every sub-id length limit (a CLOSE naming an
		// over-long id is not claimed by the statement either way)
		id, _ := g.subID()
		if len(g.subPool) > 0 && r.IntN(3) > 0 {
			id = vk.Pick(r, g.subPool)
		}
		for _, n := range g.cfg.limits("subid") {
			if int64(len(id)) > n {
				id = c17Str(r, int64(r.IntN(2)), false)
				break
			}
		}
		msg, class = &mocrelay.ClientCloseMsg{SubscriptionID: id}, "close"
	default:
		e, ok := g.compliantEvent()
		if ok {
			msg, class = &mocrelay.ClientAuthMsg{Event: e}, "auth"
		} else {
			msg, class = &mocrelay.ClientCloseMsg{SubscriptionID: ""}, "close"
		}
	}
	return c17Item{orig: msg, snap: c17CloneClient(msg), class: c17Label(msg) + " " + class}
}

type c17SItem struct {
	orig mocrelay.ServerMsg
	snap mocrelay.ServerMsg
}

func (g *c17Gen) serverMsg() c17SItem {
	r := g.r
	u := g.uid()
	var m mocrelay.ServerMsg
	switch r.IntN(8) {
	case 0:
		m = mocrelay.NewServerEOSEMsg("S:" + u)
	case 1, 2:
		e, _ := g.event() // may well violate the client-side limits: server messages pass regardless
		m = mocrelay.NewServerEventMsg("S:"+u, e)
	case 3:
		m = mocrelay.NewServerNoticeMsg("notice " + u + " " + vk.HostileString(r, 6))
	case 4:
		m = mocrelay.NewServerOKMsg(vk.HexOf("c17 srv ok "+u), r.IntN(2) == 0, vk.Pick(r, []string{"", mocrelay.MachineReadablePrefixBlocked, mocrelay.MachineReadablePrefixDuplicate}), "m"+u)
	case 5:
		m = &mocrelay.ServerAuthMsg{Challenge: "challenge " + u}
	case 6:
		var ap *bool
		if r.IntN(2) == 0 {
			ap = vk.Ptr(r.IntN(2) == 0)
		}
		m = mocrelay.NewServerCountMsg("S:"+u, r.Uint64N(1000), ap)
	default:
		m = mocrelay.NewServerClosedMsg("S:"+u, vk.Pick(r, []string{"", mocrelay.MachineReadablePrefixError}), "closed "+u)
	}
	return c17SItem{orig: m, snap: c17CloneServer(m)}
}

// ---------------------------------------------------------------------------
// deep copies (snapshots taken before a message is handed to the system)

func c17CloneFilter(f *mocrelay.ReqFilter) *mocrelay.ReqFilter {
	if f == nil {
		return nil
	}
	c := &mocrelay.ReqFilter{}
	if f.IDs != nil {
		c.IDs = append([]string{}, f.IDs...)
	}
	if f.Authors != nil {
		c.Authors = append([]string{}, f.Authors...)
	}
	if f.Kinds != nil {
		c.Kinds = append([]int64{}, f.Kinds...)
	}
	if f.Tags != nil {
		c.Tags = map[string][]string{}
		for k, v := range f.Tags {
			if v != nil {
				c.Tags[k] = append([]string{}, v...)
			} else {
				c.Tags[k] = nil
			}
		}
	}
	if f.Since != nil {
		c.Since = vk.Ptr(*f.Since)
	}
	if f.Until != nil {
		c.Until = vk.Ptr(*f.Until)
	}
	if f.Limit != nil {
		c.Limit = vk.Ptr(*f.Limit)
	}
	return c
}

func c17CloneFilters(fs []*mocrelay.ReqFilter) []*mocrelay.ReqFilter {
	if fs == nil {
		return nil
	}
	out := make([]*mocrelay.ReqFilter, len(fs))
	for i, f := range fs {
		out[i] = c17CloneFilter(f)
	}
	return out
}

func c17CloneClient(msg mocrelay.ClientMsg) mocrelay.ClientMsg {
	switch m := msg.(type) {
	case *mocrelay.ClientEventMsg:
		return &mocrelay.ClientEventMsg{Event: vk.CloneEvent(m.Event)}
	case *mocrelay.ClientReqMsg:
		return &mocrelay.ClientReqMsg{SubscriptionID: m.SubscriptionID, ReqFilters: c17CloneFilters(m.ReqFilters)}
	case *mocrelay.ClientCountMsg:
		return &mocrelay.ClientCountMsg{SubscriptionID: m.SubscriptionID, ReqFilters: c17CloneFilters(m.ReqFilters)}
	case *mocrelay.ClientCloseMsg:
		return &mocrelay.ClientCloseMsg{SubscriptionID: m.SubscriptionID}
	case *mocrelay.ClientAuthMsg:
		return &mocrelay.ClientAuthMsg{Event: vk.CloneEvent(m.Event)}
	}
	panic(fmt.Sprintf("c17: unknown client message %T", msg))
}

func c17CloneServer(msg mocrelay.ServerMsg) mocrelay.ServerMsg {
	switch m := msg.(type) {
	case *mocrelay.ServerEOSEMsg:
		c := *m
		return &c
	case *mocrelay.ServerEventMsg:
		return &mocrelay.ServerEventMsg{SubscriptionID: m.SubscriptionID, Event: vk.CloneEvent(m.Event)}
	case *mocrelay.ServerNoticeMsg:
		c := *m
		return &c
	case *mocrelay.ServerOKMsg:
		c := *m
		return &c
	case *mocrelay.ServerAuthMsg:
		c := *m
		return &c
	case *mocrelay.ServerCountMsg:
		c := *m
		if m.Approximate != nil {
			c.Approximate = vk.Ptr(*m.Approximate)
		}
		return &c
	case *mocrelay.ServerClosedMsg:
		c := *m
		return &c
	}
	panic(fmt.Sprintf("c17: unknown server message %T", msg))
}

// ---------------------------------------------------------------------------
// session harness

type c17Sess struct {
	cfg    *c17Cfg
	recv   chan mocrelay.ClientMsg
	send   chan mocrelay.ServerMsg
	seen   chan mocrelay.ClientMsg // what the recording handler received, in order
	script chan mocrelay.ServerMsg // what the recording handler is told to emit, in order
	done   chan error
	cancel context.CancelFunc
	nsync  int
	depth  int

	buildPanic string // applying the middleware (chain) to the handler panicked
	h          mocrelay.Handler
	built      time.Time
}

func c17IsSync(msg mocrelay.ClientMsg) (string, bool) {
	switch m := msg.(type) {
	case *mocrelay.ClientAuthMsg:
		if m.Event != nil && strings.HasPrefix(m.Event.ID, c17SyncPrefix) {
			return m.Event.ID, true
		}
	case *mocrelay.ClientCloseMsg:
		if strings.HasPrefix(m.SubscriptionID, c17SyncPrefix) {
			return m.SubscriptionID, true
		}
	}
	return "", false
}

// c17Build creates the recording handler and applies the middleware(s) to it.
func c17Build(cfg *c17Cfg) *c17Sess {
	s := &c17Sess{
		cfg:    cfg,
		recv:   make(chan mocrelay.ClientMsg, 1024),
		send:   make(chan mocrelay.ServerMsg, 1024),
		seen:   make(chan mocrelay.ClientMsg, 1024),
		script: make(chan mocrelay.ServerMsg, 1024),
		done:   make(chan error, 1),
		depth:  len(cfg.MWs),
	}
	down := mocrelay.HandlerFunc(func(octx context.Context, send chan<- mocrelay.ServerMsg, recv <-chan mocrelay.ClientMsg) error {
		// the emitter is joined before the handler returns, so that a handler value
		// can serve a second session without an old emitter taking its script
		ctx, icancel := context.WithCancel(octx)
		emDone := make(chan struct{})
		defer func() { icancel(); <-emDone }()
		go func() {
			defer close(emDone)
			for {
				select {
				case <-ctx.Done():
					return
				case sm := <-s.script:
					select {
					case send <- sm:
					case <-ctx.Done():
						return
					}
				}
			}
		}()
		for {
			select {
			case <-ctx.Done():
				return ctx.Err()
			case m, ok := <-recv:
				if !ok {
					return mocrelay.ErrRecvClosed
				}
				s.seen <- m
				if id, ok := c17IsSync(m); ok {
					s.script <- mocrelay.NewServerNoticeMsg("c17-sync:" + id)
				}
			}
		}
	})
	h, perr := func() (h mocrelay.Handler, perr any) {
		defer func() { perr = recover() }()
		return cfg.handler(down), nil
	}()
	if perr != nil {
		s.buildPanic = fmt.Sprint(perr)
		return s
	}
	s.h = h
	s.built = time.Now()
	return s
}

// serve starts one session on the handler built by c17Build.
func (s *c17Sess) serve() *c17Sess {
	ctx, cancel := context.WithCancel(context.Background())
	s.cancel = cancel
	h, send, recv, done := s.h, s.send, s.recv, s.done
	go func() { done <- h.ServeNostr(ctx, send, recv) }()
	return s
}

func c17Start(cfg *c17Cfg) *c17Sess {
	s := c17Build(cfg)
	if s.buildPanic != "" {
		return s
	}
	return s.serve()
}

// reserve starts a second session on the same (by now older) handler value; the
// previous session must have been finished and have returned.
func (s *c17Sess) reserve() *c17Sess {
	s.recv = make(chan mocrelay.ClientMsg, 1024)
	s.send = make(chan mocrelay.ServerMsg, 1024)
	s.done = make(chan error, 1)
	for len(s.script) > 0 {
		<-s.script
	}
	for len(s.seen) > 0 {
		<-s.seen
	}
	return s.serve()
}

type c17SyncResult struct {
	D      []mocrelay.ClientMsg
	O      []mocrelay.ServerMsg
	status string // "" = complete; otherwise what went wrong
	sig    string // violation signature when status is a clear witness, "" = inconclusive
}

func c17Stacks() string {
	buf := make([]byte, 1<<20)
	n := runtime.Stack(buf, true)
	var keep []string
	for _, g := range strings.Split(string(buf[:n]), "\n\n") {
		if strings.Contains(g, "mocrelay.simpleMiddlewareHandle") || strings.Contains(g, "mocrelay.sendCtx") {
			keep = append(keep, g)
		}
		if len(keep) >= 12 {
			break
		}
	}
	return strings.Join(keep, "\n\n")
}

// sync feeds the sentinel and collects everything up to it on both sides.
func (s *c17Sess) sync(g *c17Gen) (res c17SyncResult) {
	s.nsync++
	ev, _ := g.compliantEvent()
	id := fmt.Sprintf("%s%052x", c17SyncPrefix, s.nsync)
	ev.ID = id
	s.recv <- &mocrelay.ClientAuthMsg{Event: ev}

	waitSeen := func(want string) string {
		t := time.NewTimer(c17Wait)
		defer t.Stop()
		for {
			select {
			case m := <-s.seen:
				if got, ok := c17IsSync(m); ok && got == want {
					return ""
				}
				res.D = append(res.D, m)
			case err := <-s.done:
				s.done <- err
				return fmt.Sprintf("ended: ServeNostr returned %v before the session was cancelled", err)
			case <-t.C:
				return "timeout"
			}
		}
	}
	waitEcho := func(want string) string {
		t := time.NewTimer(c17Wait)
		defer t.Stop()
		for {
			select {
			case m := <-s.send:
				if n, ok := m.(*mocrelay.ServerNoticeMsg); ok && n != nil && n.Message == want {
					return ""
				}
				res.O = append(res.O, m)
			case err := <-s.done:
				s.done <- err
				return fmt.Sprintf("ended: ServeNostr returned %v before the session was cancelled", err)
			case <-t.C:
				return "timeout"
			}
		}
	}

	switch st := waitSeen(id); {
	case st == "timeout":
		c17Abort.Add(1)
		// fallback sentinel of another type plus probes that saturate every stage
		fb := c17SyncPrefix + "-fallback"
		s.recv <- &mocrelay.ClientCloseMsg{SubscriptionID: fb}
		for i := 0; i < s.depth+4; i++ {
			s.recv <- &mocrelay.ClientCloseMsg{SubscriptionID: ""}
		}
		st2 := waitSeen(fb)
		switch {
		case st2 == "":
			res.status = "the sentinel AUTH message never reached the downstream handler although a CLOSE fed after it did"
			res.sig = "dropped/should-forward/AUTH"
		case strings.HasPrefix(st2, "ended"):
			res.status, res.sig = st2, "session/ended-early"
		case len(s.recv) > 0:
			res.status = fmt.Sprintf("stalled: %d client messages were left unconsumed in the middleware's input channel for %v while the session was alive; goroutines:\n%s", len(s.recv), 2*c17Wait, c17Stacks())
			res.sig = "stalled/input-not-consumed"
		default:
			res.status = "inconclusive: sentinel did not arrive downstream within the bound, input was consumed"
		}
		return
	case st != "":
		res.status, res.sig = st, "session/ended-early"
		return
	}
	switch st := waitEcho("c17-sync:" + id); {
	case st == "timeout":
		c17Abort.Add(1)
		fb := mocrelay.NewServerEOSEMsg("S:fallback")
		s.script <- fb
		for i := 0; i < s.depth+4; i++ {
			s.script <- mocrelay.NewServerEOSEMsg("S:probe")
		}
		t := time.NewTimer(c17Wait)
		defer t.Stop()
		for {
			select {
			case m := <-s.send:
				if m == mocrelay.ServerMsg(fb) {
					res.status = "the sentinel NOTICE emitted by the downstream handler never reached the client although an EOSE emitted after it did"
					res.sig = "dropped/server/NOTICE"
					return
				}
				res.O = append(res.O, m)
				continue
			case <-t.C:
			}
			break
		}
		if len(s.script) > 0 {
			res.status = fmt.Sprintf("stalled: %d server messages could not be handed to the middleware for %v while the session was alive; goroutines:\n%s", len(s.script), 2*c17Wait, c17Stacks())
			res.sig = "stalled/output-not-consumed"
		} else {
			res.status = "inconclusive: sentinel NOTICE did not arrive at the client within the bound"
		}
	case st != "":
		res.status, res.sig = st, "session/ended-early"
	}
	return
}

// finish cancels the session and returns what was still in flight.
func (s *c17Sess) finish() (extraD []mocrelay.ClientMsg, extraO []mocrelay.ServerMsg, returned bool) {
	s.cancel()
	t := time.NewTimer(c17Wait)
	defer t.Stop()
	select {
	case <-s.done:
		returned = true
	case <-t.C:
	}
	for {
		select {
		case m := <-s.seen:
			extraD = append(extraD, m)
			continue
		default:
		}
		break
	}
	for {
		select {
		case m := <-s.send:
			extraO = append(extraO, m)
			continue
		default:
		}
		break
	}
	return
}

// ---------------------------------------------------------------------------
// judging one batch

type c17Exp struct {
	forward bool
	culprit string
}

type c17Viol struct{ sig, what string }

// c17Pend is a rejection that is owed to the client but has not been seen yet.
type c17Pend struct{ culprit, label, json string }

func c17CopyPend(p map[string][]c17Pend) map[string][]c17Pend {
	out := make(map[string][]c17Pend, len(p))
	for k, l := range p {
		if len(l) > 0 {
			out[k] = append([]c17Pend(nil), l...)
		}
	}
	return out
}

// c17ServerReplyKey classifies a message received by the client as a rejection reply
// (OK / CLOSED outside the namespace of the scripted server messages).
func c17ServerReplyKey(o mocrelay.ServerMsg, scripted []c17SItem) (key string, acceptedTrue bool) {
	switch m := o.(type) {
	case *mocrelay.ServerOKMsg:
		if m != nil && !c17IsScriptedOK(scripted, m) {
			return "OK:" + m.EventID, m.Accepted
		}
	case *mocrelay.ServerClosedMsg:
		if m != nil && !strings.HasPrefix(m.SubscriptionID, "S:") {
			return "CLOSED:" + m.SubscriptionID, false
		}
	}
	return "", false
}

func c17ServerLabel(m mocrelay.ServerMsg) string {
	if m == nil || reflect.ValueOf(m).IsNil() {
		return "nil"
	}
	return m.ServerMsgLabel()
}

func c17ReplyKey(msg mocrelay.ClientMsg) string {
	switch m := msg.(type) {
	case *mocrelay.ClientEventMsg:
		return "OK:" + m.Event.ID
	case *mocrelay.ClientReqMsg:
		return "CLOSED:" + m.SubscriptionID
	case *mocrelay.ClientCountMsg:
		return "CLOSED:" + m.SubscriptionID
	}
	return ""
}

// c17Judge judges one window. pendIn are the rejections owed from earlier windows of
// the session; pendOut additionally holds the rejections this batch calls for that
// have not arrived yet (late counts the ones from earlier windows that arrived now).
func c17Judge(items []c17Item, exp []c17Exp, scripted []c17SItem, D []mocrelay.ClientMsg, O []mocrelay.ServerMsg, pendIn map[string][]c17Pend) (vs []c17Viol, pendOut map[string][]c17Pend, late int) {
	add := func(sig, what string) { vs = append(vs, c17Viol{sig, what}) }
	pendOut = c17CopyPend(pendIn)

	// client -> handler direction
	used := make([]bool, len(items))
	last := -1
	for _, d := range D {
		j, dup := -1, false
		for k := range items {
			if items[k].orig == d {
				j, dup = k, used[k]
				break
			}
		}
		if j < 0 {
			for k := range items {
				if !used[k] && reflect.DeepEqual(items[k].snap, d) {
					j = k
					break
				}
			}
		}
		if j < 0 {
			for k := range items {
				if used[k] && reflect.DeepEqual(items[k].snap, d) {
					j, dup = k, true
					break
				}
			}
		}
		switch {
		case j < 0:
			add("altered-or-invented/client/"+c17Label(d), "the downstream handler received a client message that was never sent in this form: "+vk.JSON(d))
			continue
		case dup:
			add("duplicated/client/"+c17Label(d), "the downstream handler received the same client message twice: "+items[j].js())
			continue
		}
		used[j] = true
		if !reflect.DeepEqual(items[j].snap, d) {
			add("altered/client/"+c17Label(items[j].snap), "client message was changed on its way: sent "+items[j].js()+", handler received "+vk.JSON(d))
		}
		if !exp[j].forward {
			add("forwarded/should-reject/"+exp[j].culprit+"/"+c17Label(d), "message violating the limit ("+exp[j].culprit+") reached the downstream handler: "+items[j].js())
		}
		if j < last {
			add("reordered/client", "client messages reached the downstream handler out of order: "+items[j].js()+" after "+items[last].js())
		} else {
			last = j
		}
	}
	for k := range items {
		if exp[k].forward && !used[k] {
			add("dropped/should-forward/"+c17Label(items[k].snap), "message respecting every limit did not reach the downstream handler: "+items[k].js()+" ["+items[k].class+"]")
		}
	}

	// handler -> client direction: scripted server messages and rejection replies
	wantReply := map[string][]int{}
	fwdKey := map[string]int{}
	for k := range items {
		key := c17ReplyKey(items[k].snap)
		if key == "" {
			continue
		}
		if !exp[k].forward {
			wantReply[key] = append(wantReply[key], k)
		} else {
			fwdKey[key] = k
		}
	}
	usedS := make([]bool, len(scripted))
	lastS := -1
	for _, o := range O {
		replyKey, acceptedTrue := c17ServerReplyKey(o, scripted)
		if acceptedTrue {
			add("reply/ok-accepted-true", "a rejection reply claims the event was accepted: "+vk.JSON(o))
		}
		if replyKey != "" {
			if l := pendOut[replyKey]; len(l) > 0 {
				// owed since an earlier window of this session
				pendOut[replyKey] = l[1:]
				late++
			} else if l := wantReply[replyKey]; len(l) > 0 {
				wantReply[replyKey] = l[1:]
			} else if k, ok := fwdKey[replyKey]; ok {
				add("replied/should-forward/"+c17Label(items[k].snap), "a message respecting every limit was answered with a rejection "+vk.JSON(o)+": "+items[k].js())
			} else {
				add("extra-reply/"+c17ServerLabel(o), "the client received a rejection reply no message of this session still calls for: "+vk.JSON(o))
			}
			continue
		}
		j, dup := -1, false
		for k := range scripted {
			if scripted[k].orig == o {
				j, dup = k, usedS[k]
				break
			}
		}
		if j < 0 {
			for k := range scripted {
				if !usedS[k] && reflect.DeepEqual(scripted[k].snap, o) {
					j = k
					break
				}
			}
		}
		switch {
		case j < 0:
			add("altered-or-invented/server/"+c17ServerLabel(o), "the client received a server message the handler never emitted in this form: "+vk.JSON(o))
			continue
		case dup:
			add("duplicated/server/"+c17ServerLabel(o), "the client received the same server message twice: "+vk.JSON(o))
			continue
		}
		usedS[j] = true
		if !reflect.DeepEqual(scripted[j].snap, o) {
			add("altered/server/"+c17ServerLabel(scripted[j].snap), "server message was changed on its way: emitted "+vk.JSON(scripted[j].snap)+", client received "+vk.JSON(o))
		}
		if j < lastS {
			add("reordered/server", "server messages reached the client out of order: "+vk.JSON(o))
		} else {
			lastS = j
		}
	}
	for k := range scripted {
		if !usedS[k] {
			add("dropped/server/"+c17ServerLabel(scripted[k].snap), "a server message emitted by the handler never reached the client: "+vk.JSON(scripted[k].snap))
		}
	}
	// rejections that have not arrived yet stay owed: the statement fixes no order
	// between a rejection and unrelated server messages
	for key, l := range wantReply {
		for _, k := range l {
			pendOut[key] = append(pendOut[key], c17Pend{exp[k].culprit, c17Label(items[k].snap), items[k].js()})
		}
	}
	return
}

// c17JudgeTail judges what arrived after the last window (final wait and session
// end): only owed rejections may still arrive; what is still owed afterwards is missing.
func c17JudgeTail(tail []mocrelay.ServerMsg, pendIn map[string][]c17Pend) (vs []c17Viol, resolved int) {
	pend := c17CopyPend(pendIn)
	for _, o := range tail {
		key, acceptedTrue := c17ServerReplyKey(o, nil)
		if acceptedTrue {
			vs = append(vs, c17Viol{"reply/ok-accepted-true", "a rejection reply claims the event was accepted: " + vk.JSON(o)})
		}
		switch l := pend[key]; {
		case key != "" && len(l) > 0:
			pend[key] = l[1:]
			resolved++
		case key != "":
			vs = append(vs, c17Viol{"extra-reply/" + c17ServerLabel(o), "the client received a rejection reply no message of this session still calls for: " + vk.JSON(o)})
		default:
			vs = append(vs, c17Viol{"altered-or-invented/server/after-last-sync", "the client received a server message nobody emitted: " + vk.JSON(o)})
		}
	}
	for _, l := range pend {
		for _, x := range l {
			vs = append(vs, c17Viol{"missing-reply/" + x.culprit + "/" + x.label, "message violating the limit (" + x.culprit + ") was never answered with the rejection for its type, not even after a final wait and the end of the session: " + x.json})
		}
	}
	return
}

func c17PendCount(p map[string][]c17Pend) (n int) {
	for _, l := range p {
		n += len(l)
	}
	return
}

func c17IsScriptedOK(scripted []c17SItem, m *mocrelay.ServerOKMsg) bool {
	for _, s := range scripted {
		if o, ok := s.snap.(*mocrelay.ServerOKMsg); ok && o.EventID == m.EventID {
			return true
		}
	}
	return false
}

// ---------------------------------------------------------------------------
// quota model of the NIP-11 chain (max_subscriptions). The statement does not fix
// where in the chain the quota sits, so two models are tracked: the quota sees only
// REQs that passed the other limits ("inner") or every REQ ("outer"). A session must
// be consistent with at least one of them from start to end.

type c17Quota struct {
	n     int
	outer bool
	open  map[string]bool
	dead  bool
	pend  map[string][]c17Pend // rejections owed under this model and not seen yet
}

func (q *c17Quota) expect(cfg *c17Cfg, msg mocrelay.ClientMsg) c17Exp {
	culprits := cfg.statelessCulprits(msg)
	switch m := msg.(type) {
	case *mocrelay.ClientReqMsg:
		if q.n > 0 {
			admit := q.open[m.SubscriptionID] || len(q.open) < q.n
			if admit && (q.outer || len(culprits) == 0) {
				q.open[m.SubscriptionID] = true
			}
			if !admit {
				culprits = append(culprits, "quota")
			}
		}
	case *mocrelay.ClientCloseMsg:
		if q.n > 0 {
			delete(q.open, m.SubscriptionID)
		}
	}
	return c17Exp{forward: len(culprits) == 0, culprit: strings.Join(culprits, "+")}
}

// ---------------------------------------------------------------------------
// one session

func c17RunSession(rep *vk.Report, cfg *c17Cfg, r *rand.Rand, tag string, nBatches int) {
	if c17Abort.Load() >= 2 {
		rep.Count("sessions_skipped_after_timeouts", 1)
		return
	}
	if c17Lost.Load() >= 6 {
		rep.Count("sessions_skipped_after_lost_rejections", 1)
		return
	}
	start := time.Now()
	cfg.Now = start.Unix()
	g := &c17Gen{r: r, cfg: cfg, tag: tag}
	s := c17Start(cfg)
	if s.buildPanic != "" {
		rep.Violation(cfg.Phase+"/panic/applying-middleware", "applying the middleware to a handler panicked: "+s.buildPanic, map[string]any{"config": cfg})
		return
	}
	models := []*c17Quota{{n: cfg.quota(), open: map[string]bool{}}}
	if cfg.quota() > 0 {
		models = append(models, &c17Quota{n: cfg.quota(), outer: true, open: map[string]bool{}})
	}
	var history []mocrelay.ClientMsg
	phase := cfg.Phase
	finished := false
	defer func() {
		if !finished {
			s.cancel()
		}
	}()

	witness := func(items []c17Item, exp []c17Exp, scripted []c17SItem, res c17SyncResult) map[string]any {
		w := map[string]any{"config": cfg, "elapsed_ms": time.Since(start).Milliseconds()}
		var b, e, sv, d, o []string
		for i, it := range items {
			b = append(b, it.js())
			if i < len(exp) {
				e = append(e, fmt.Sprintf("forward=%v culprit=%s [%s]", exp[i].forward, exp[i].culprit, it.class))
			}
		}
		for _, x := range scripted {
			sv = append(sv, vk.JSON(x.snap))
		}
		for _, x := range res.D {
			d = append(d, vk.JSON(x))
		}
		for _, x := range res.O {
			o = append(o, vk.JSON(x))
		}
		w["batch_client_messages"], w["expected"], w["batch_server_messages"] = b, e, sv
		w["handler_received"], w["client_received"] = d, o
		if cfg.quota() > 0 {
			var h []string
			for _, m := range history {
				h = append(h, vk.JSON(m))
			}
			w["client_messages_before_batch"] = h
		}
		return w
	}

	for bi := 0; bi < nBatches; bi++ {
		// compose the batch: 1..4 client messages, 0..3 scripted server messages, interleaved
		nc := 1
		if r.IntN(3) == 0 {
			nc = 2 + r.IntN(3)
		}
		ns := r.IntN(4)
		if r.IntN(3) == 0 {
			ns = 0
		}
		items := make([]c17Item, 0, nc)
		scripted := make([]c17SItem, 0, ns)
		for len(items) < nc || len(scripted) < ns {
			if len(items) < nc && (len(scripted) >= ns || r.IntN(2) == 0) {
				it := g.clientMsg()
				items = append(items, it)
				s.recv <- it.orig
			} else {
				sm := g.serverMsg()
				scripted = append(scripted, sm)
				s.script <- sm.orig
			}
		}
		res := s.sync(g)
		if res.status != "" {
			if res.sig != "" {
				rep.Violation(phase+"/"+res.sig, res.status, witness(items, nil, scripted, res))
			} else {
				rep.Inconclusive(phase + " session " + tag + ": " + res.status)
			}
			return
		}

		if time.Since(start) > c17MaxSession {
			rep.Inconclusive(fmt.Sprintf("%s session %s took %v: timestamps no longer trustworthy, session discarded", phase, tag, time.Since(start)))
			return
		}
		// expectations under every live model
		var okExp []c17Exp
		var firstViol []c17Viol
		var firstExp []c17Exp
		alive := 0
		for _, q := range models {
			if q.dead {
				continue
			}
			exp := make([]c17Exp, len(items))
			for i, it := range items {
				exp[i] = q.expect(cfg, it.snap)
			}
			vs, pend, late := c17Judge(items, exp, scripted, res.D, res.O, q.pend)
			if len(vs) == 0 {
				q.pend = pend
				if okExp == nil && late > 0 {
					rep.Count("rejections_arrived_in_a_later_window", int64(late))
				}
			}
			if len(vs) > 0 {
				q.dead = true
				if firstViol == nil {
					firstViol, firstExp = vs, exp
				}
				continue
			}
			alive++
			if okExp == nil {
				okExp = exp
			}
		}
		if alive == 0 {
			seen := map[string]bool{}
			for _, v := range firstViol {
				if seen[v.sig] {
					continue
				}
				seen[v.sig] = true
				rep.Violation(phase+"/"+v.sig, v.what, witness(items, firstExp, scripted, res))
			}
			rep.Eval(len(items))
			return
		}

		// evidence
		rep.Eval(len(items))
		rep.Count(phase+"_client_msgs", int64(len(items)))
		rep.Count(phase+"_server_msgs_passed", int64(len(scripted)))
		if len(items) > 1 {
			rep.Count("batches_multi", 1)
		} else {
			rep.Count("batches_single", 1)
		}
		for _, x := range scripted {
			rep.Seen("server_types_passed", c17ServerLabel(x.snap))
		}
		for i, it := range items {
			verdict := "pass"
			if !okExp[i].forward {
				verdict = "reject:" + okExp[i].culprit
				rep.Count("rejected", 1)
				for _, c := range strings.Split(okExp[i].culprit, "+") {
					rep.Count("rejected_by_"+c, 1)
				}
				if strings.Contains(okExp[i].culprit, "+") {
					rep.Count("rejected_by_several", 1)
				}
			} else {
				rep.Count("forwarded", 1)
			}
			for _, d := range res.D {
				if d == it.orig {
					rep.Count("forwarded_same_pointer", 1)
				}
			}
			kinds := ""
			if phase == "single" {
				kinds = cfg.MWs[0].Kind
				if (strings.Contains(it.class, "=at") || strings.Contains(it.class, "lim=all-at")) && verdict == "pass" {
					rep.Seen("kinds_with_pass_at_boundary", kinds)
				}
				if strings.Contains(it.class, "=above") && verdict != "pass" {
					rep.Seen("kinds_with_reject_just_above", kinds)
				}
				if verdict != "pass" {
					rep.Seen("kinds_rejecting", kinds)
				}
			}
			if strings.Contains(it.class, "lim=first-bad") {
				if _, fs, ok := c17ReqCount(it.snap); ok && len(fs) >= 2 && strings.Contains(okExp[i].culprit, "limit") {
					rep.Count("multi_filter_first_violating", 1)
				}
			}
			if strings.Contains(it.class, "lim=last-bad") {
				if _, fs, ok := c17ReqCount(it.snap); ok && len(fs) >= 2 && strings.Contains(okExp[i].culprit, "limit") {
					rep.Count("multi_filter_last_violating", 1)
				}
			}
			rep.Nontrivial(phase + "|" + kinds + "|" + it.class + "|" + verdict)
			if rep.WantSample() && r.IntN(40) == 0 {
				rep.Sample(map[string]any{"phase": phase, "middlewares": cfg.MWs, "message": it.js(), "class": it.class, "verdict": verdict})
			}
			if cfg.quota() > 0 {
				history = append(history, it.snap)
			}
		}
	}

	finished = true
	if !c17EndSession(rep, s, cfg, tag, models, start) {
		return
	}
	rep.Count(phase+"_sessions", 1)
	if models[0].dead && len(models) > 1 {
		rep.Count("quota_sessions_consistent_only_with_outer_model", 1)
	}
	if len(models) > 1 && models[1].dead {
		rep.Count("quota_sessions_consistent_only_with_inner_model", 1)
	}
}

// c17EndSession resolves the rejections still owed and ends the session; false = a
// violation was reported.
func c17EndSession(rep *vk.Report, s *c17Sess, cfg *c17Cfg, tag string, models []*c17Quota, start time.Time) bool {
	phase := cfg.Phase
	// rejections still owed: bounded passive wait (nothing is fed any more), then the
	// session is ended by closing the inbound channel; only what is still absent after
	// ServeNostr returned is missing
	var tail []mocrelay.ServerMsg
	owed := func() bool {
		for _, q := range models {
			if q.dead {
				continue
			}
			if vs, _ := c17JudgeTail(tail, q.pend); len(vs) == 0 {
				return false
			}
		}
		return true
	}
	waited := false
	if owed() {
		waited = true
		t := time.NewTimer(c17Wait)
	wait:
		for owed() {
			select {
			case m := <-s.send:
				tail = append(tail, m)
			case <-t.C:
				break wait
			}
		}
		t.Stop()
	}
	var extraD []mocrelay.ClientMsg
	var extraO []mocrelay.ServerMsg
	var returned bool
	if owed() {
		close(s.recv)
		t := time.NewTimer(c17Wait)
		select {
		case err := <-s.done:
			s.done <- err // finish() reads it again
			returned = true
		case <-t.C:
		}
		t.Stop()
	}
	{
		d, o, r := s.finish()
		extraD, extraO, returned = d, o, returned || r
	}
	tail = append(tail, extraO...)
	if !returned {
		rep.Inconclusive(phase + " session " + tag + ": ServeNostr did not return within the bound after the end of the session")
	}
	if len(extraD) > 0 {
		rep.Violation(phase+"/altered-or-invented/client/after-last-sync", "the downstream handler received a client message nobody sent: "+vk.JSON(extraD[0]), map[string]any{"config": cfg, "extra": vk.JSON(extraD)})
	}
	var tailViol []c17Viol
	tailOK := false
	for _, q := range models {
		if q.dead {
			continue
		}
		vs, resolved := c17JudgeTail(tail, q.pend)
		if len(vs) == 0 {
			tailOK = true
			if resolved > 0 {
				rep.Count("rejections_arrived_in_the_final_wait", int64(resolved))
			}
			break
		}
		q.dead = true
		if tailViol == nil {
			tailViol = vs
		}
	}
	if !tailOK {
		lost := false
		seen := map[string]bool{}
		var tl []string
		for _, x := range tail {
			tl = append(tl, vk.JSON(x))
		}
		for _, v := range tailViol {
			if strings.HasPrefix(v.sig, "missing-reply/") {
				lost = true
			}
			if seen[v.sig] {
				continue
			}
			seen[v.sig] = true
			rep.Violation(phase+"/"+v.sig, v.what, map[string]any{"config": cfg, "waited_passively": waited, "serve_returned": returned, "client_received_after_last_window": tl, "elapsed_ms": time.Since(start).Milliseconds()})
		}
		if lost {
			c17Lost.Add(1)
		}
		return false
	}
	return true
}

// ---------------------------------------------------------------------------
// aged middlewares: the created_at boundaries move with the clock for as long as a
// middleware value, a NIP-11 chain or a session lives, not only right after it was
// built. Every configuration is built (and a first session started) once, left alone
// for c17Age while the rest of the run proceeds, and then probed with events whose
// created_at is taken from the clock at send time. Only verdicts that a delay between
// taking the timestamp and the middleware's check cannot flip are asserted:
//   - lower side: created_at = now-lower-2 is two seconds too old and only gets older:
//     it must be rejected;
//   - upper side: created_at = now+upper-2 is inside the limit and only moves further
//     inside: it must be forwarded; created_at = now+upper+30 must be rejected, judged
//     only when the whole round trip took less than 20 s;
//   - created_at = now must be forwarded when every boundary is >= 600 s away.

const c17Age = 3500 * time.Millisecond

type c17AgedCase struct {
	name string
	cfg  *c17Cfg
	side string // "lower" or "upper"
	lim  int64  // the limit whose boundary is probed
	far  bool   // every boundary is >= 600 s from now
	s    *c17Sess
}

func c17AgedCases() []*c17AgedCase {
	var out []*c17AgedCase
	nip := func(l *mocrelay.NIP11Limitation) *c17Cfg {
		c := &c17Cfg{Phase: "aged", Doc: &mocrelay.NIP11{Name: "aged", Limitation: l}, FromNIP11: true}
		if l.MaxSubscriptions != 0 {
			c.MWs = append(c.MWs, c17MW{Kind: "quota", N: int64(l.MaxSubscriptions)})
		}
		if l.MaxFilters != 0 {
			c.MWs = append(c.MWs, c17MW{Kind: "filters", N: int64(l.MaxFilters)})
		}
		if l.MaxLimit != 0 {
			c.MWs = append(c.MWs, c17MW{Kind: "limit", N: int64(l.MaxLimit)})
		}
		if l.MaxEventTags != 0 {
			c.MWs = append(c.MWs, c17MW{Kind: "tags", N: int64(l.MaxEventTags)})
		}
		if l.MaxContentLength != 0 {
			c.MWs = append(c.MWs, c17MW{Kind: "content", N: int64(l.MaxContentLength)})
		}
		if l.CreatedAtLowerLimit != 0 {
			c.MWs = append(c.MWs, c17MW{Kind: "lower", N: l.CreatedAtLowerLimit})
		}
		if l.CreatedAtUpperLimit != 0 {
			c.MWs = append(c.MWs, c17MW{Kind: "upper", N: l.CreatedAtUpperLimit})
		}
		return c
	}
	hand := func(mws ...c17MW) *c17Cfg { return &c17Cfg{Phase: "aged", MWs: mws} }
	for _, n := range []int64{5, 600, 86400} {
		far := n >= 600
		add := func(side, name string, cfg *c17Cfg) {
			out = append(out, &c17AgedCase{name: fmt.Sprintf("%s/%s/%d", side, name, n), cfg: cfg, side: side, lim: n, far: far})
		}
		add("lower", "middleware", hand(c17MW{Kind: "lower", N: n}))
		add("lower", "window", hand(c17MW{Kind: "window", From: -n, To: 1000}))
		add("lower", "stack", hand(c17MW{Kind: "tags", N: 5}, c17MW{Kind: "lower", N: n}, c17MW{Kind: "content", N: 100}))
		add("lower", "nip11-lower-only", nip(&mocrelay.NIP11Limitation{CreatedAtLowerLimit: n}))
		add("lower", "nip11-both", nip(&mocrelay.NIP11Limitation{CreatedAtLowerLimit: n, CreatedAtUpperLimit: 900}))
		add("lower", "nip11-all-seven", nip(&mocrelay.NIP11Limitation{MaxSubscriptions: 3, MaxFilters: 4, MaxLimit: 100, MaxEventTags: 5, MaxContentLength: 100, CreatedAtLowerLimit: n, CreatedAtUpperLimit: 900}))
		add("upper", "middleware", hand(c17MW{Kind: "upper", N: n}))
		add("upper", "window", hand(c17MW{Kind: "window", From: -1000, To: n}))
		add("upper", "stack", hand(c17MW{Kind: "content", N: 100}, c17MW{Kind: "upper", N: n}, c17MW{Kind: "tags", N: 5}))
		add("upper", "nip11-upper-only", nip(&mocrelay.NIP11Limitation{CreatedAtUpperLimit: n}))
		add("upper", "nip11-both", nip(&mocrelay.NIP11Limitation{CreatedAtLowerLimit: 900, CreatedAtUpperLimit: n}))
		add("upper", "nip11-all-seven", nip(&mocrelay.NIP11Limitation{MaxSubscriptions: 3, MaxFilters: 4, MaxLimit: 100, MaxEventTags: 5, MaxContentLength: 100, CreatedAtLowerLimit: 900, CreatedAtUpperLimit: n}))
	}
	return out
}

// c17AgedSession probes one running session of an aged configuration.
func c17AgedSession(rep *vk.Report, c *c17AgedCase, mode string, idx int) {
	s, cfg := c.s, c.cfg
	start := time.Now()
	age := start.Sub(s.built)
	tag := fmt.Sprintf("aged%d/%s/%s", idx, c.name, mode)
	cfg.Now = start.Unix()
	g := &c17Gen{r: vk.RNG("C17/aged/"+mode, idx), cfg: cfg, tag: tag}
	model := &c17Quota{n: 0, open: map[string]bool{}}
	finished := false
	defer func() {
		if !finished {
			s.finish() // cancel and wait for ServeNostr, so that the handler can be served again
		}
	}()
	type probe struct {
		what     string
		offset   func() int64 // created_at - now
		maxDelay time.Duration
	}
	var probes []probe
	if c.far {
		probes = append(probes, probe{"now", func() int64 { return 0 }, 5 * time.Minute})
	}
	if c.side == "lower" {
		probes = append(probes, probe{"too-old-by-2s", func() int64 { return -c.lim - 2 }, 0})
	} else {
		probes = append(probes, probe{"inside-by-2s", func() int64 { return c.lim - 2 }, 0})
		probes = append(probes, probe{"beyond-by-30s", func() int64 { return c.lim + 30 }, 20 * time.Second})
	}
	for round := 0; round < 2; round++ {
		for _, p := range probes {
			ev := &mocrelay.Event{Pubkey: c17Authors[0], Kind: 1, Sig: c17Sig, ID: vk.HexOf("c17 aged " + g.uid())}
			t := time.Now()
			cfg.Now = t.Unix()
			ev.CreatedAt = cfg.Now + p.offset()
			msg := &mocrelay.ClientEventMsg{Event: ev}
			it := c17Item{orig: msg, snap: c17CloneClient(msg), class: "EVENT aged " + p.what}
			s.recv <- msg
			res := s.sync(g)
			w := func(exp []c17Exp) map[string]any {
				return map[string]any{"case": c.name, "mode": mode, "config": cfg, "age_of_the_middleware_ms": time.Since(s.built).Milliseconds(), "probe": p.what, "event": it.js(), "expected": fmt.Sprint(exp),
					"handler_received": vk.JSON(res.D), "client_received": vk.JSON(res.O), "round_trip_ms": time.Since(t).Milliseconds()}
			}
			if res.status != "" {
				if res.sig != "" {
					rep.Violation("aged/"+res.sig, res.status, w(nil))
				} else {
					rep.Inconclusive(tag + ": " + res.status)
				}
				return
			}
			if p.maxDelay > 0 && time.Since(t) > p.maxDelay {
				rep.Inconclusive(fmt.Sprintf("%s: probe %s took %v, verdict not trustworthy, session dropped", tag, p.what, time.Since(t)))
				return
			}
			exp := []c17Exp{model.expect(cfg, it.snap)}
			vs, pend, _ := c17Judge([]c17Item{it}, exp, nil, res.D, res.O, model.pend)
			if len(vs) > 0 {
				for _, v := range vs {
					rep.Violation("aged/"+v.sig, fmt.Sprintf("[middleware built %v ago, %s] %s", time.Since(s.built).Round(time.Millisecond), mode, v.what), w(exp))
				}
				return
			}
			model.pend = pend
			rep.Eval(1)
			rep.Count("aged_probes_"+p.what, 1)
			rep.Nontrivial("aged|" + c.name + "|" + mode + "|" + p.what)
		}
	}
	finished = true
	if !c17EndSession(rep, s, cfg, tag, []*c17Quota{model}, start) {
		return
	}
	rep.Count("aged_sessions", 1)
	rep.Seen("aged_cases", c.name+"/"+mode)
	c17AgedMin.CompareAndSwap(0, int64(age))
	for {
		cur := c17AgedMin.Load()
		if int64(age) >= cur || c17AgedMin.CompareAndSwap(cur, int64(age)) {
			break
		}
	}
}

var c17AgedMin atomic.Int64

func c17AgedScenario(rep *vk.Report) {
	cases := c17AgedCases()
	var live []*c17AgedCase
	for _, c := range cases {
		c.s = c17Build(c.cfg)
		if c.s.buildPanic != "" {
			rep.Violation("aged/panic/applying-middleware", "applying the middleware to a handler panicked: "+c.s.buildPanic, map[string]any{"config": c.cfg})
			continue
		}
		c.s.serve() // first session: starts now and stays idle while it ages
		live = append(live, c)
	}
	time.Sleep(c17Age) // the scenario is the passage of time itself, nothing is synchronised by this
	vk.Parallel(len(live), func(i int) {
		c := live[i]
		c17AgedSession(rep, c, "session-started-before-aging", i)
		c.s.reserve() // same handler value, fresh session
		c17AgedSession(rep, c, "session-started-after-aging", i)
	})
}

// ---------------------------------------------------------------------------
// configurations

func c17RandomMW(r *rand.Rand, kind string) c17MW {
	m := c17MW{Kind: kind}
	switch kind {
	case "filters":
		m.N = vk.Pick(r, []int64{1, 2, 3, 5})
	case "limit":
		m.N = vk.Pick(r, []int64{1, 2, 10, 500, 5000})
	case "subid":
		m.N = vk.Pick(r, []int64{1, 2, 4, 8, 32, 64, 65, 100, 1000}) // NIP-01 caps ids at 64, the middleware enforces what it is given
	case "tags":
		m.N = vk.Pick(r, []int64{1, 2, 5, 20})
	case "content":
		m.N = vk.Pick(r, []int64{1, 2, 10, 100, 1000})
	case "lower", "upper":
		// negative: "at least that far on the other side of now"
		m.N = vk.Pick(r, []int64{0, 1, 59, 600, 86400, 10 * c17Year, 400 * c17Year, math.MaxInt64, -3600, -86400})
	case "window":
		m.From = vk.Pick(r, []int64{-10 * c17Year, -86400, -600, -1, 0, 300})
		m.To = m.From + vk.Pick(r, []int64{1, 600, 86400, 86400, 5 * c17Year})
		if r.IntN(12) == 0 {
			m.To = m.From - 1 - int64(r.IntN(500)) // empty window: nothing respects it
		}
		switch r.IntN(10) {
		case 0: // no lower bound
			m.From, m.To = math.MinInt64, vk.Pick(r, []int64{600, 86400, math.MaxInt64})
		case 1: // no upper bound
			m.To = math.MaxInt64
		}
	case "allow", "deny":
		m.Filter = c17MatcherFilter(r)
	}
	return m
}

var c17StatelessKinds = []string{"filters", "limit", "subid", "tags", "content", "lower", "upper", "window", "allow", "deny"}

func c17NIP11Doc(r *rand.Rand, variant int) (*mocrelay.NIP11, []c17MW) {
	doc := &mocrelay.NIP11{}
	if r.IntN(2) == 0 {
		doc.Name, doc.Description, doc.SupportedNIPs = "c17 relay", "generated", []int{1, 9, 11, 45}
	}
	if r.IntN(3) == 0 {
		doc.Software, doc.Version, doc.PostingPolicy = "mocrelay", "v0", "https://example.com/policy"
	}
	if variant >= 128 {
		// no limitation block at all
		if r.IntN(2) == 0 {
			doc.Retention = &mocrelay.NIP11Retention{Time: vk.Ptr(3600)}
		}
		if r.IntN(2) == 0 {
			doc.Fees = &mocrelay.NIP11Fees{Admission: []*mocrelay.Nip11Fee{{Amount: 1000, Unit: "msats"}}}
		}
		return doc, nil
	}
	l := &mocrelay.NIP11Limitation{}
	doc.Limitation = l
	if r.IntN(2) == 0 {
		// not a limit the chain enforces (the relay's read limit is a separate option): whatever it
		// is set to - also at or below the content limit - says nothing about the other members
		l.MaxMessageLength = vk.Pick(r, []int{1 << 20, 1 << 20, 9, 10, 64, 300, 4096})
	}
	if r.IntN(4) == 0 {
		// members that describe the relay and configure nothing here
		l.MinPoWDifficulty, l.AuthRequired, l.PaymentRequired = r.IntN(30), r.IntN(2) == 0, r.IntN(2) == 0
	}
	if r.IntN(2) == 0 {
		l.MaxSubIDLength = 64 // every generated sub id is far shorter
	}
	var mws []c17MW
	if variant&1 != 0 {
		l.MaxSubscriptions = 1 + r.IntN(4)
		mws = append(mws, c17MW{Kind: "quota", N: int64(l.MaxSubscriptions)})
	}
	if variant&2 != 0 {
		l.MaxFilters = vk.Pick(r, []int{1, 2, 3, 6})
		mws = append(mws, c17MW{Kind: "filters", N: int64(l.MaxFilters)})
	}
	if variant&4 != 0 {
		l.MaxLimit = vk.Pick(r, []int{4, 7, 100, 512})
		mws = append(mws, c17MW{Kind: "limit", N: int64(l.MaxLimit)})
	}
	if variant&8 != 0 {
		l.MaxEventTags = vk.Pick(r, []int{1, 5, 8, 25})
		mws = append(mws, c17MW{Kind: "tags", N: int64(l.MaxEventTags)})
	}
	if variant&16 != 0 {
		l.MaxContentLength = vk.Pick(r, []int{9, 10, 64, 300})
		mws = append(mws, c17MW{Kind: "content", N: int64(l.MaxContentLength)})
	}
	if variant&32 != 0 {
		l.CreatedAtLowerLimit = vk.Pick(r, []int64{11, 1800, 94608000, 3 * c17Year, -7200})
		mws = append(mws, c17MW{Kind: "lower", N: l.CreatedAtLowerLimit})
	}
	if variant&64 != 0 {
		l.CreatedAtUpperLimit = vk.Pick(r, []int64{12, 900, 86400, 2 * c17Year, -7200})
		mws = append(mws, c17MW{Kind: "upper", N: l.CreatedAtUpperLimit})
	}
	return doc, mws
}

// ---------------------------------------------------------------------------

func TestVerif_C17(t *testing.T) {
	rep := vk.NewReport(t, "C17", "exploration")
	rep.Rule = "sessions through the real wrapper mw(recordingHandler).ServeNostr: (single) each of the 10 stateless limit middlewares alone, (stack) 2-6 of them in a seeded order, (nip11) BuildMiddlewareFromNIP11 for every subset of the seven limits (max_subscriptions, max_filters, max_limit, max_event_tags, max_content_length, created_at lower/upper) and for documents without a limitation block; a session is 8-30 batches of 1-4 client messages (EVENT/REQ/COUNT/CLOSE/AUTH with sizes 0, limit-1, limit, limit+1 and far above each configured limit, multi-filter REQ/COUNT with the violating limit first/last/mixed, timestamps >= 90 s from every moving boundary, sub ids/content never with byte and rune length on different sides of a limit) interleaved with 0-3 scripted server messages of all seven types; every batch is closed by a sentinel round trip and judged: handler-side log == sent messages that respect every limit (deep-equal to the pre-send copy, in order), client-side log == scripted server messages (deep-equal, in order) plus exactly one OK(false,id)/CLOSED(sub id) per violating message (a rejection may also arrive in a later window of the same session; it is missing only if still absent after a final bounded wait and the end of the session); (concurrent) 2-4 sessions at once on one handler wrapped in 1-3 limit middlewares or a NIP-11 chain, each sending 10-29 admissible EVENTs that its downstream session answers with a marked OK and two marked NOTICEs: every session gets exactly its own server messages in order and its downstream session exactly its own events; (aged) 36 configurations with a created_at lower/upper limit (single middleware, window middleware, stack, three NIP-11 chains; limits 5/600/86400 s) are built once, left alone for 3.5 s and then probed, on the session started before the wait and on a fresh session of the same handler, with events stamped from the clock at send time: now-lower-2 must be rejected, now+upper-2 forwarded, now+upper+30 rejected (round trip < 20 s), now forwarded when every boundary is >= 600 s away; evaluation = one judged client message; added later: created_at before the epoch down to the start of the int64 range; NIP-11 members the chain does not enforce at any value; a built chain is applied to one or two other handlers before the judged one; (unit) contents with more bytes than max_content_length but not more characters are sent through NewMaxContentLengthMiddleware and through the chain built from a NIP-11 document with the same limit: both must agree on whether the event reaches the handler; non-trivial = every judged message; distinct = distinct (phase, middleware kind, message type, size classes, verdict)"
	rep.Assume("created_at verdicts use the wall clock read at session start; generated timestamps keep 90 s from every boundary and sessions slower than 25 s are discarded")
	rep.Assume("aged scenario: a delay between stamping an event and the middleware's check can only make now-lower-2 older and now+upper-2 less far in the future, so these two verdicts do not depend on scheduling; the wall clock is assumed not to step backwards during the run")
	rep.Assume("CLOSE messages naming an over-long sub id, AUTH messages whose event violates an event limit, and strings whose byte and rune lengths fall on different sides of a limit are not generated (the statement does not decide them)")
	rep.Assume("the statement fixes no order between a rejection and unrelated server messages: a rejection not yet seen when the sentinel of its batch returns stays owed until the session has ended (final wait of 15 s, inbound channel closed, ServeNostr returned); duplicates and rejections nobody is owed are violations in whatever window they arrive")
	rep.Assume("the statement does not fix the position of max_subscriptions in the NIP-11 chain: a session must be consistent with the quota counting either every REQ or only the REQs that pass the other limits")
	defer rep.Finish()

	// (0) aged middlewares, in parallel with the rest of the run
	agedDone := make(chan struct{})
	go func() { defer close(agedDone); c17AgedScenario(rep) }()

	// (1) single middlewares
	perKind := vk.N(100, 1500)
	nSingle := perKind * len(c17StatelessKinds)
	vk.ParallelW(c17Workers(), nSingle, func(i int) {
		r := vk.RNG("C17/single", i)
		kind := c17StatelessKinds[i%len(c17StatelessKinds)]
		cfg := &c17Cfg{Phase: "single", MWs: []c17MW{c17RandomMW(r, kind)}}
		rep.Seen("single_configs", fmt.Sprintf("%s/%d/%d/%d/%s", kind, cfg.MWs[0].N, cfg.MWs[0].From, cfg.MWs[0].To, vk.JSON(cfg.MWs[0].Filter)))
		c17RunSession(rep, cfg, r, fmt.Sprintf("s%d", i), 20+r.IntN(11))
	})

	// (2) stacks
	nStack := vk.N(1200, 18000)
	vk.ParallelW(c17Workers(), nStack, func(i int) {
		r := vk.RNG("C17/stack", i)
		depth := 2 + i%5
		cfg := &c17Cfg{Phase: "stack"}
		var names []string
		for d := 0; d < depth; d++ {
			kind := vk.Pick(r, c17StatelessKinds)
			cfg.MWs = append(cfg.MWs, c17RandomMW(r, kind))
			names = append(names, kind)
		}
		rep.Seen("stack_depths", fmt.Sprint(depth))
		rep.Seen("stack_orders", strings.Join(names, ">"))
		c17RunSession(rep, cfg, r, fmt.Sprintf("k%d", i), 14+r.IntN(12))
	})

	// (3) NIP-11 chains: variants 0..127 = subset mask, 128..143 = no limitation block
	rounds := vk.N(8, 120)
	nDocs := 144 * rounds
	vk.ParallelW(c17Workers(), nDocs, func(i int) {
		r := vk.RNG("C17/nip11", i)
		variant := i % 144
		doc, mws := c17NIP11Doc(r, variant)
		cfg := &c17Cfg{Phase: "nip11", Doc: doc, MWs: mws, Mask: variant}
		if variant >= 128 {
			rep.Count("nip11_docs_without_limitation", 1)
		} else {
			rep.Seen("nip11_masks", fmt.Sprint(variant))
		}
		n := 14 + r.IntN(12)
		if variant&1 != 0 && variant < 128 {
			n += 10
		}
		c17RunSession(rep, cfg, r, fmt.Sprintf("n%d", i), n)
	})

	// several sessions of one wrapped handler at the same time: each must get exactly the server
	// messages its own downstream session emitted (an OK per EVENT, carrying the session's mark,
	// and two marked NOTICEs), in order, and its downstream session exactly its own events
	nConc := vk.N(60, 1200)
	vk.ParallelW(8, nConc, func(i int) {
		r := vk.RNG("C17/concurrent", i)
		mws := []mocrelay.Middleware{}
		desc := ""
		for k, n := 0, 1+r.IntN(3); k < n; k++ {
			switch r.IntN(6) {
			case 0:
				mws, desc = append(mws, mocrelay.Middleware(mocrelay.NewMaxEventTagsMiddleware(5))), desc+"/tags(5)"
			case 1:
				mws, desc = append(mws, mocrelay.Middleware(mocrelay.NewMaxContentLengthMiddleware(200))), desc+"/content(200)"
			case 2:
				mws, desc = append(mws, mocrelay.Middleware(mocrelay.NewMaxSubIDLengthMiddleware(20))), desc+"/subid(20)"
			case 3:
				mws, desc = append(mws, mocrelay.Middleware(mocrelay.NewMaxReqFiltersMiddleware(3))), desc+"/filters(3)"
			case 4:
				mws, desc = append(mws, mocrelay.Middleware(mocrelay.NewCreatedAtUpperLimitMiddleware(86400))), desc+"/upper(1d)"
			default:
				mws, desc = append(mws, mocrelay.BuildMiddlewareFromNIP11(&mocrelay.NIP11{Limitation: &mocrelay.NIP11Limitation{MaxEventTags: 5, MaxContentLength: 200, CreatedAtLowerLimit: 86400}})), desc+"/nip11(tags,content,lower)"
			}
		}
		var downMu sync.Mutex
		downGot := map[string][]string{} // session mark -> contents of the events its downstream session received
		var down mocrelay.Handler = mocrelay.HandlerFunc(func(ctx context.Context, send chan<- mocrelay.ServerMsg, recv <-chan mocrelay.ClientMsg) error {
			for {
				select {
				case <-ctx.Done():
					return ctx.Err()
				case m, ok := <-recv:
					if !ok {
						return mocrelay.ErrRecvClosed
					}
					em, is := m.(*mocrelay.ClientEventMsg)
					if !is {
						continue
					}
					mark := em.Event.Pubkey
					downMu.Lock()
					downGot[mark] = append(downGot[mark], em.Event.Content)
					downMu.Unlock()
					for _, sm := range []mocrelay.ServerMsg{
						mocrelay.NewServerOKMsg(em.Event.ID, true, "", "ok "+em.Event.Content),
						mocrelay.NewServerNoticeMsg("first notice after " + em.Event.Content),
						mocrelay.NewServerNoticeMsg("second notice after " + em.Event.Content),
					} {
						select {
						case send <- sm:
						case <-ctx.Done():
							return ctx.Err()
						}
					}
				}
			}
		})
		h := down
		for k := len(mws) - 1; k >= 0; k-- {
			h = mws[k](h)
		}
		nSess, nEv := 2+r.IntN(3), 10+r.IntN(20)
		now := time.Now().Unix()
		var wg sync.WaitGroup
		for sidx := 0; sidx < nSess; sidx++ {
			wg.Add(1)
			go func(sidx int) {
				defer wg.Done()
				mark := vk.FakePub(170000 + i*8 + sidx)
				s := vk.StartSession(context.Background(), h, 0)
				defer s.Stop()
				for k := 0; k < nEv; k++ {
					content := fmt.Sprintf("c%d-s%d-e%d", i, sidx, k)
					ev := vk.Seal(&mocrelay.Event{Kind: 1, Pubkey: mark, CreatedAt: now, Tags: []mocrelay.Tag{}, Content: content})
					if !s.Put(&mocrelay.ClientEventMsg{Event: ev}) {
						rep.Inconclusive("C17: concurrent phase: an EVENT was not taken (" + desc + ")")
						return
					}
					want := []string{`["OK","` + ev.ID + `",true,"ok ` + content + `"]`, `["NOTICE","first notice after ` + content + `"]`, `["NOTICE","second notice after ` + content + `"]`}
					for j := range want {
						m, ok := s.Get()
						rep.Eval(1)
						if got := vk.JSON(m); !ok || got != want[j] {
							rep.Violation("concurrent/server-message-not-its-own", fmt.Sprintf("%d sessions on one wrapped handler: session %d expected %s as its next server message and got %s", nSess, sidx, want[j], got),
								map[string]any{"middlewares": desc, "sessions": nSess, "session": sidx, "event_number": k})
							return
						}
					}
				}
				downMu.Lock()
				got := append([]string{}, downGot[mark]...)
				downMu.Unlock()
				for k, c := range got {
					if c != fmt.Sprintf("c%d-s%d-e%d", i, sidx, k) {
						rep.Violation("concurrent/client-message-in-another-session", fmt.Sprintf("the downstream session of session %d received %q at position %d", sidx, c, k), map[string]any{"middlewares": desc})
						return
					}
				}
				if len(got) != nEv {
					rep.Violation("concurrent/client-messages-lost", fmt.Sprintf("the downstream session of session %d received %d of %d events", sidx, len(got), nEv), map[string]any{"middlewares": desc})
					return
				}
				rep.Count("concurrent_sessions", 1)
				rep.Nontrivial(fmt.Sprintf("concurrent/%s/%d/%d", desc, nSess, sidx))
			}(sidx)
		}
		wg.Wait()
	})
	rep.Require(rep.Counter("concurrent_sessions") >= int64(nConc*2), "too few concurrent sessions completed")

	// events that share an id (nothing in front of these middlewares checks ids): the allow/deny
	// verdict belongs to the message, not to its id - within a session and across sessions
	nSame := vk.N(150, 3000)
	vk.ParallelW(8, nSame, func(i int) {
		r := vk.RNG("C17/same-id", i)
		filter := c17MatcherFilter(r)
		deny := r.IntN(2) == 0
		matcher := mocrelay.NewReqFilterMatcher(filter)
		var mw mocrelay.Middleware
		if deny {
			mw = mocrelay.Middleware(mocrelay.NewRecvEventDenyFilterMiddleware(matcher))
		} else {
			mw = mocrelay.Middleware(mocrelay.NewRecvEventAllowFilterMiddleware(matcher))
		}
		var down mocrelay.Handler = mocrelay.HandlerFunc(func(ctx context.Context, send chan<- mocrelay.ServerMsg, recv <-chan mocrelay.ClientMsg) error {
			for {
				select {
				case <-ctx.Done():
					return ctx.Err()
				case m, ok := <-recv:
					if !ok {
						return mocrelay.ErrRecvClosed
					}
					if em, is := m.(*mocrelay.ClientEventMsg); is {
						select {
						case send <- mocrelay.NewServerOKMsg(em.Event.ID, true, "", "reached the handler: "+em.Event.Content):
						case <-ctx.Done():
							return ctx.Err()
						}
					}
				}
			}
		})
		h := mw(down)
		ids := []string{vk.HexOf(fmt.Sprintf("c17 shared id %d a", i)), vk.HexOf(fmt.Sprintf("c17 shared id %d b", i))}
		n := 0
		for sess := 0; sess < 2; sess++ {
			s := vk.StartSession(context.Background(), h, 0)
			for k := 0; k < 8; k++ {
				n++
				g := &c17Gen{r: r, cfg: &c17Cfg{Now: time.Now().Unix()}, tag: fmt.Sprintf("same%d", i)}
				ev, _ := g.event()
				ev.ID = vk.Pick(r, ids)
				ev.Content = fmt.Sprintf("same-id %d/%d", i, n)
				want := vk.RefMatch(filter, ev) != deny
				if !s.Put(&mocrelay.ClientEventMsg{Event: ev}) {
					rep.Inconclusive("C17: same-id phase: an EVENT was not taken")
					s.Stop()
					return
				}
				m, ok := s.Get()
				okm, is := m.(*mocrelay.ServerOKMsg)
				rep.Eval(1)
				if !ok || !is || okm.EventID != ev.ID {
					rep.Violation("same-id/no-answer", "an EVENT got neither the handler's OK nor a rejection: "+vk.JSON(m), map[string]any{"filter": filter, "deny": deny, "event": ev})
					s.Stop()
					return
				}
				reached := okm.Accepted && strings.HasPrefix(okm.Message(), "reached the handler: "+ev.Content)
				if reached != want {
					rep.Violation(map[bool]string{true: "same-id/forwarded/should-reject", false: "same-id/rejected/should-forward"}[reached],
						fmt.Sprintf("message %d of a history that uses two event ids over and over: the %s filter's verdict on this message is %v, but forwarded=%v (answer %s)", n, map[bool]string{true: "deny", false: "allow"}[deny], want, reached, vk.JSON(m)),
						map[string]any{"filter": filter, "deny": deny, "event": ev, "session": sess})
					s.Stop()
					return
				}
				rep.Nontrivial(fmt.Sprintf("same-id/%v/%v/%d", deny, want, k))
			}
			s.Stop()
		}
		rep.Count("same_id_histories", 1)
	})
	rep.Require(rep.Counter("same_id_histories") >= int64(nSame*9/10), "too few same-id histories completed")

	// the chain and the individual content-length middleware agree whatever the unit
	c17UnitAgreement(rep)

	<-agedDone
	rep.Set("aged_min_age_of_a_probed_middleware_ms", time.Duration(c17AgedMin.Load()).Milliseconds())
	rep.Require(rep.Counter("aged_sessions") >= 72, "not all 36 aged configurations were probed in both modes")
	rep.Require(rep.Counter("aged_probes_too-old-by-2s") >= 72 && rep.Counter("aged_probes_inside-by-2s") >= 72 && rep.Counter("aged_probes_beyond-by-30s") >= 72, "too few aged probes")
	rep.Require(c17AgedMin.Load() >= int64(3*time.Second), "a probed middleware was younger than 3 s")
	if n := rep.Counter("sessions_skipped_after_lost_rejections"); n > 0 {
		rep.Set("sessions_not_run_after_six_sessions_lost_a_rejection", n)
	}
	if n := rep.Counter("sessions_skipped_after_timeouts"); n > 0 {
		rep.Inconclusive(fmt.Sprintf("%d sessions were not run after two waits had expired", n))
	}
	rep.Require(rep.Counter("single_sessions") >= int64(nSingle*9/10), "too few single-middleware sessions completed")
	rep.Require(rep.Counter("stack_sessions") >= int64(nStack*9/10), "too few stack sessions completed")
	rep.Require(rep.Counter("nip11_sessions") >= int64(nDocs*9/10), "too few NIP-11 sessions completed")
	rep.Require(rep.SetSize("kinds_with_pass_at_boundary") >= 5, "sizes exactly at the limit were not observed passing for all five size limits")
	rep.Require(rep.SetSize("kinds_with_reject_just_above") >= 5, "sizes just above the limit were not observed being rejected for all five size limits")
	rep.Require(rep.SetSize("kinds_rejecting") == len(c17StatelessKinds), "not every middleware kind was observed rejecting")
	rep.Require(rep.SetSize("nip11_masks") == 128, "not every subset of the seven NIP-11 limits was run")
	rep.Require(rep.Counter("nip11_docs_without_limitation") >= 16, "documents without a limitation block were not run")
	rep.Require(rep.SetSize("stack_depths") == 5, "stack depths 2..6 not all run")
	rep.Require(rep.SetSize("server_types_passed") == 7, "not all seven server message types were passed through")
	rep.Require(rep.Counter("multi_filter_first_violating") > 0 && rep.Counter("multi_filter_last_violating") > 0, "multi-filter messages with the violating limit first / last were not both observed")
	rep.Require(rep.Counter("rejected_by_quota") > 0, "max_subscriptions was never reached")
	rep.Require(rep.Counter("rejected_by_several") > 0, "no message violated several stacked limits at once")
	rep.Require(rep.Counter("forwarded") > 1000 && rep.Counter("rejected") > 1000, "too few forwarded / rejected messages")
}

// sessions are latency-bound (channel hand-offs between a dozen goroutines), so more
// sessions than cores are kept in flight
func c17Workers() int { return 4 * runtime.GOMAXPROCS(0) }
