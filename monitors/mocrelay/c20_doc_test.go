package mocrelay_test

import (
	"bytes"
	"encoding/json"
	"fmt"
	"math"
	"math/rand/v2"
	"reflect"
	"sort"
	"strconv"
	"strings"
	"unicode/utf8"

	"github.com/high-moctane/mocrelay"
	vk "github.com/high-moctane/mocrelay/internal/verifkit"
)

// C20, part 1 — NIP-11 documents: generator, equality (nil ≡ empty), a reference
// reader from generic JSON and an independent text writer. Nothing here calls the
// (Un)MarshalJSON methods under test.

// ---------------------------------------------------------------------------
// generator

// c20Huge: bounds that do not survive a detour through float64 or a narrower integer.
var c20Huge = []int{
	1 << 53, 1<<53 + 1, 1<<53 - 1, 1<<53 + 2, 1 << 62, 1<<62 + 1, 1<<62 - 1, math.MaxInt64, math.MaxInt64 - 1,
	1<<31 - 1, 1 << 31, 1<<32 + 1, 1<<63 - 1025,
	-1, -(1 << 53), -(1<<53 + 1), -(1 << 62), -(1<<62 + 1), math.MinInt64, math.MinInt64 + 1,
}

func c20Kind(r *rand.Rand) *mocrelay.Nip11Kind {
	k := func() int {
		switch r.IntN(10) {
		case 0:
			return 0
		case 1:
			return 65535
		case 2:
			return r.IntN(10)
		case 3:
			return 1 << (16 + r.IntN(15))
		case 4, 5:
			return vk.Pick(r, c20Huge)
		default:
			return r.IntN(65536)
		}
	}
	switch r.IntN(8) {
	case 0, 1, 2: // single number
		a := k()
		return &mocrelay.Nip11Kind{From: a, To: a}
	case 3: // descending pair
		a, b := k(), k()
		if a < b {
			a, b = b, a
		}
		if a == b {
			if a == math.MaxInt64 {
				b--
			} else {
				a++
			}
		}
		return &mocrelay.Nip11Kind{From: a, To: b}
	case 4: // pair with a zero end
		a := k()
		if a == 0 {
			a = 1
		}
		if r.IntN(2) == 0 {
			return &mocrelay.Nip11Kind{From: 0, To: a}
		}
		return &mocrelay.Nip11Kind{From: a, To: 0}
	case 5: // adjacent: the two ends differ by 1
		a := k()
		if a == math.MaxInt64 {
			a--
		}
		if r.IntN(4) == 0 {
			return &mocrelay.Nip11Kind{From: a + 1, To: a}
		}
		return &mocrelay.Nip11Kind{From: a, To: a + 1}
	default: // ascending pair
		a, b := k(), k()
		if a > b {
			a, b = b, a
		}
		if a == b {
			if b == math.MaxInt64 {
				a--
			} else {
				b++
			}
		}
		return &mocrelay.Nip11Kind{From: a, To: b}
	}
}

func c20Kinds(r *rand.Rand) []*mocrelay.Nip11Kind {
	switch r.IntN(6) {
	case 0:
		return nil
	case 1:
		return []*mocrelay.Nip11Kind{}
	}
	n := 1 + r.IntN(5)
	out := make([]*mocrelay.Nip11Kind, n)
	for i := range out {
		out[i] = c20Kind(r)
	}
	return out
}

func c20Str(r *rand.Rand) string {
	switch r.IntN(5) {
	case 0:
		return ""
	case 1:
		return vk.Pick(r, []string{"mocrelay", "wss://relay.example/", "a <b>&amp;</b> relay", "line1\nline2", "  ", "日本語のリレー", "\"quoted\"", "back\\slash", "\U0001F600"})
	default:
		return vk.HostileString(r, 16)
	}
}

func c20Strs(r *rand.Rand) []string {
	switch r.IntN(5) {
	case 0:
		return nil
	case 1:
		return []string{}
	}
	n := 1 + r.IntN(4)
	out := make([]string, n)
	for i := range out {
		out[i] = c20Str(r)
	}
	return out
}

func c20Int(r *rand.Rand) int {
	switch r.IntN(5) {
	case 0:
		return 0
	case 1:
		return 1
	case 2:
		return r.IntN(1000)
	case 3:
		return r.IntN(1 << 31)
	default:
		return r.IntN(1 << 20)
	}
}

func c20IntPtr(r *rand.Rand) *int {
	switch r.IntN(4) {
	case 0:
		return nil
	case 1:
		return vk.Ptr(0)
	default:
		return vk.Ptr(c20Int(r))
	}
}

func c20FeeList(r *rand.Rand) []*mocrelay.Nip11Fee {
	switch r.IntN(5) {
	case 0:
		return nil
	case 1:
		return []*mocrelay.Nip11Fee{}
	}
	n := 1 + r.IntN(3)
	out := make([]*mocrelay.Nip11Fee, n)
	for i := range out {
		out[i] = &mocrelay.Nip11Fee{Kinds: c20Kinds(r), Amount: c20Int(r), Unit: vk.Pick(r, []string{"", "msats", "sats", c20Str(r)}), Period: c20IntPtr(r)}
	}
	return out
}

// c20Doc draws a document; every field is independently zero or set.
func c20Doc(r *rand.Rand) *mocrelay.NIP11 {
	d := &mocrelay.NIP11{}
	dense := r.IntN(4) == 0 // some documents have (almost) everything set
	on := func() bool { return dense || r.IntN(2) == 0 }
	if on() {
		d.Name = c20Str(r)
	}
	if on() {
		d.Description = c20Str(r)
	}
	if on() {
		d.Pubkey = vk.FakePub(r.IntN(50))
	}
	if on() {
		d.Contact = c20Str(r)
	}
	if on() {
		switch r.IntN(4) {
		case 0:
			d.SupportedNIPs = []int{}
		default:
			n := 1 + r.IntN(8)
			for i := 0; i < n; i++ {
				d.SupportedNIPs = append(d.SupportedNIPs, r.IntN(100))
			}
		}
	}
	if on() {
		d.Software = c20Str(r)
	}
	if on() {
		d.Version = c20Str(r)
	}
	if on() {
		l := &mocrelay.NIP11Limitation{}
		if r.IntN(5) != 0 { // else: present but all zero
			f := func() int {
				if r.IntN(3) == 0 {
					return 0
				}
				return c20Int(r)
			}
			l.MaxMessageLength, l.MaxSubscriptions, l.MaxFilters, l.MaxLimit = f(), f(), f(), f()
			l.MaxSubIDLength, l.MaxEventTags, l.MaxContentLength, l.MinPoWDifficulty = f(), f(), f(), f()
			l.AuthRequired, l.PaymentRequired = r.IntN(2) == 0, r.IntN(2) == 0
			l.CreatedAtLowerLimit, l.CreatedAtUpperLimit = int64(f()), int64(f())
		}
		d.Limitation = l
	}
	if on() {
		d.Retention = &mocrelay.NIP11Retention{Kinds: c20Kinds(r), Time: c20IntPtr(r), Count: c20IntPtr(r)}
	}
	if on() {
		d.RelayContries = c20Strs(r)
	}
	if on() {
		d.LanguageTags = c20Strs(r)
	}
	if on() {
		d.Tags = c20Strs(r)
	}
	if on() {
		d.PostingPolicy = c20Str(r)
	}
	if on() {
		d.PaymentsURL = c20Str(r)
	}
	if on() {
		d.Fees = &mocrelay.NIP11Fees{Admission: c20FeeList(r), Subscription: c20FeeList(r), Publication: c20FeeList(r)}
	}
	if on() {
		d.Icon = c20Str(r)
	}
	return d
}

// c20DocShape is the coverage key of a document: which parts are present and which
// forms of kind entries occur.
func c20DocShape(d *mocrelay.NIP11) string {
	var b strings.Builder
	v := reflect.ValueOf(d).Elem()
	for i := 0; i < v.NumField(); i++ {
		if !v.Type().Field(i).IsExported() {
			continue
		}
		if v.Field(i).IsZero() {
			b.WriteByte('-')
		} else {
			b.WriteByte('x')
		}
	}
	forms := map[string]bool{}
	walk := func(ks []*mocrelay.Nip11Kind) {
		for _, k := range ks {
			forms[c20KindForm(k)] = true
		}
	}
	if d.Retention != nil {
		walk(d.Retention.Kinds)
	}
	if d.Fees != nil {
		for _, l := range [][]*mocrelay.Nip11Fee{d.Fees.Admission, d.Fees.Subscription, d.Fees.Publication} {
			for _, f := range l {
				walk(f.Kinds)
			}
		}
	}
	var fs []string
	for f := range forms {
		fs = append(fs, f)
	}
	sort.Strings(fs)
	return b.String() + "/" + strings.Join(fs, ",")
}

func c20IsHuge(v int) bool { return v >= 1<<53 || v <= -(1<<53) }

func c20KindForm(k *mocrelay.Nip11Kind) string {
	switch {
	case c20IsHuge(k.From) || c20IsHuge(k.To):
		switch d := k.To - k.From; {
		case d == 0:
			return "huge-single"
		case d == 1 || d == -1:
			return "huge-pair-adjacent"
		default:
			return "huge-pair"
		}
	case k.From < 0 || k.To < 0:
		return "negative"
	case k.From == k.To && k.From == 0:
		return "single0"
	case k.From == k.To:
		return "single"
	case k.From == 0 || k.To == 0:
		if k.From > k.To {
			return "pair-desc-zero"
		}
		return "pair-asc-zero"
	case k.From > k.To:
		return "pair-desc"
	default:
		return "pair-asc"
	}
}

// ---------------------------------------------------------------------------
// equality: deep, nil slice ≡ empty slice, pointers compared by pointee

func c20Diff(a, b reflect.Value, path string) string {
	if a.Type() != b.Type() {
		return path + ": types differ"
	}
	switch a.Kind() {
	case reflect.Ptr:
		if a.IsNil() || b.IsNil() {
			if a.IsNil() != b.IsNil() {
				return fmt.Sprintf("%s: nil=%v vs nil=%v", path, a.IsNil(), b.IsNil())
			}
			return ""
		}
		return c20Diff(a.Elem(), b.Elem(), path)
	case reflect.Struct:
		for i := 0; i < a.NumField(); i++ {
			if !a.Type().Field(i).IsExported() {
				continue // not part of the configuration a user can set
			}
			if d := c20Diff(a.Field(i), b.Field(i), path+"."+a.Type().Field(i).Name); d != "" {
				return d
			}
		}
		return ""
	case reflect.Slice:
		if a.Len() != b.Len() {
			return fmt.Sprintf("%s: len %d vs %d", path, a.Len(), b.Len())
		}
		for i := 0; i < a.Len(); i++ {
			if d := c20Diff(a.Index(i), b.Index(i), fmt.Sprintf("%s[%d]", path, i)); d != "" {
				return d
			}
		}
		return ""
	case reflect.String:
		if a.String() != b.String() {
			return fmt.Sprintf("%s: %q vs %q", path, a.String(), b.String())
		}
		return ""
	case reflect.Int, reflect.Int8, reflect.Int16, reflect.Int32, reflect.Int64:
		if a.Int() != b.Int() {
			return fmt.Sprintf("%s: %d vs %d", path, a.Int(), b.Int())
		}
		return ""
	case reflect.Bool:
		if a.Bool() != b.Bool() {
			return fmt.Sprintf("%s: %v vs %v", path, a.Bool(), b.Bool())
		}
		return ""
	default:
		if !a.CanInterface() || !b.CanInterface() {
			return ""
		}
		if !reflect.DeepEqual(a.Interface(), b.Interface()) {
			return fmt.Sprintf("%s: %#v vs %#v", path, a.Interface(), b.Interface())
		}
		return ""
	}
}

// c20DocDiff returns "" when the two documents are equal, else the first difference.
func c20DocDiff(want, got *mocrelay.NIP11) string {
	if want == nil {
		want = &mocrelay.NIP11{}
	}
	if got == nil {
		got = &mocrelay.NIP11{}
	}
	return c20Diff(reflect.ValueOf(want), reflect.ValueOf(got), "doc")
}

// ---------------------------------------------------------------------------
// reference reader: generic JSON (any, json.Number) -> NIP11, by the wire names

func c20ParseGeneric(data []byte) (any, error) {
	if !utf8.Valid(data) {
		return nil, fmt.Errorf("not UTF-8")
	}
	dec := json.NewDecoder(bytes.NewReader(data))
	dec.UseNumber()
	var v any
	if err := dec.Decode(&v); err != nil {
		return nil, err
	}
	if dec.More() {
		return nil, fmt.Errorf("trailing data after the JSON value")
	}
	return v, nil
}

type c20Reader struct{ err string }

func (rd *c20Reader) fail(format string, a ...any) {
	if rd.err == "" {
		rd.err = fmt.Sprintf(format, a...)
	}
}

func c20Zeroish(v any) bool {
	switch x := v.(type) {
	case nil:
		return true
	case bool:
		return !x
	case string:
		return x == ""
	case json.Number:
		return x.String() == "0"
	case []any:
		return len(x) == 0
	case map[string]any:
		return len(x) == 0
	}
	return false
}

func (rd *c20Reader) str(m map[string]any, k string) string {
	v, ok := m[k]
	if !ok || v == nil {
		return ""
	}
	s, ok := v.(string)
	if !ok {
		rd.fail("%s: not a string", k)
	}
	return s
}

func (rd *c20Reader) num(v any, where string) int64 {
	n, ok := v.(json.Number)
	if !ok {
		rd.fail("%s: not a number (%T)", where, v)
		return 0
	}
	i, err := strconv.ParseInt(n.String(), 10, 64)
	if err != nil {
		rd.fail("%s: not an integer: %s", where, n)
	}
	return i
}

func (rd *c20Reader) int(m map[string]any, k string) int {
	v, ok := m[k]
	if !ok || v == nil {
		return 0
	}
	return int(rd.num(v, k))
}

func (rd *c20Reader) intPtr(m map[string]any, k string) *int {
	v, ok := m[k]
	if !ok || v == nil {
		return nil
	}
	return vk.Ptr(int(rd.num(v, k)))
}

func (rd *c20Reader) boolean(m map[string]any, k string) bool {
	v, ok := m[k]
	if !ok || v == nil {
		return false
	}
	b, ok := v.(bool)
	if !ok {
		rd.fail("%s: not a boolean", k)
	}
	return b
}

func (rd *c20Reader) list(m map[string]any, k string) []any {
	v, ok := m[k]
	if !ok || v == nil {
		return nil
	}
	l, ok := v.([]any)
	if !ok {
		rd.fail("%s: not an array", k)
	}
	return l
}

func (rd *c20Reader) obj(m map[string]any, k string) (map[string]any, bool) {
	v, ok := m[k]
	if !ok || v == nil {
		return nil, false
	}
	o, ok := v.(map[string]any)
	if !ok {
		rd.fail("%s: not an object", k)
		return nil, false
	}
	return o, true
}

func (rd *c20Reader) strs(m map[string]any, k string) []string {
	var out []string
	for i, v := range rd.list(m, k) {
		s, ok := v.(string)
		if !ok {
			rd.fail("%s[%d]: not a string", k, i)
		}
		out = append(out, s)
	}
	return out
}

// kinds: an entry is a number k (the range k..k) or an array [a, b].
func (rd *c20Reader) kinds(m map[string]any, k string) []*mocrelay.Nip11Kind {
	var out []*mocrelay.Nip11Kind
	for i, v := range rd.list(m, k) {
		where := fmt.Sprintf("%s[%d]", k, i)
		switch x := v.(type) {
		case json.Number:
			n := int(rd.num(x, where))
			out = append(out, &mocrelay.Nip11Kind{From: n, To: n})
		case []any:
			if len(x) != 2 {
				rd.fail("%s: pair of %d elements", where, len(x))
				continue
			}
			out = append(out, &mocrelay.Nip11Kind{From: int(rd.num(x[0], where)), To: int(rd.num(x[1], where))})
		default:
			rd.fail("%s: neither number nor pair (%T)", where, v)
		}
	}
	return out
}

func (rd *c20Reader) unknown(m map[string]any, where string, known ...string) {
	for k, v := range m {
		found := false
		for _, n := range known {
			if n == k {
				found = true
			}
		}
		if !found && !c20Zeroish(v) {
			rd.fail("%s: key %q is not part of the configuration", where, k)
		}
	}
}

func (rd *c20Reader) fees(m map[string]any, k string) []*mocrelay.Nip11Fee {
	var out []*mocrelay.Nip11Fee
	for i, v := range rd.list(m, k) {
		o, ok := v.(map[string]any)
		if !ok {
			rd.fail("%s[%d]: not an object", k, i)
			continue
		}
		rd.unknown(o, k, "kinds", "amount", "unit", "period")
		out = append(out, &mocrelay.Nip11Fee{Kinds: rd.kinds(o, "kinds"), Amount: rd.int(o, "amount"), Unit: rd.str(o, "unit"), Period: rd.intPtr(o, "period")})
	}
	return out
}

// c20RefRead reads a parsed JSON value as a relay information document.
func c20RefRead(v any) (*mocrelay.NIP11, string) {
	m, ok := v.(map[string]any)
	if !ok {
		return nil, fmt.Sprintf("document is not a JSON object (%T)", v)
	}
	rd := &c20Reader{}
	d := &mocrelay.NIP11{
		Name: rd.str(m, "name"), Description: rd.str(m, "description"), Pubkey: rd.str(m, "pubkey"),
		Contact: rd.str(m, "contact"), Software: rd.str(m, "software"), Version: rd.str(m, "version"),
		RelayContries: rd.strs(m, "relay_countries"), LanguageTags: rd.strs(m, "language_tags"), Tags: rd.strs(m, "tags"),
		PostingPolicy: rd.str(m, "posting_policy"), PaymentsURL: rd.str(m, "payments_url"), Icon: rd.str(m, "icon"),
	}
	for i, v := range rd.list(m, "supported_nips") {
		d.SupportedNIPs = append(d.SupportedNIPs, int(rd.num(v, fmt.Sprintf("supported_nips[%d]", i))))
	}
	if o, ok := rd.obj(m, "limitation"); ok {
		rd.unknown(o, "limitation", "max_message_length", "max_subscriptions", "max_filters", "max_limit", "max_subid_length",
			"max_event_tags", "max_content_length", "min_pow_difficulty", "auth_required", "payment_required",
			"created_at_lower_limit", "created_at_upper_limit")
		d.Limitation = &mocrelay.NIP11Limitation{
			MaxMessageLength: rd.int(o, "max_message_length"), MaxSubscriptions: rd.int(o, "max_subscriptions"),
			MaxFilters: rd.int(o, "max_filters"), MaxLimit: rd.int(o, "max_limit"), MaxSubIDLength: rd.int(o, "max_subid_length"),
			MaxEventTags: rd.int(o, "max_event_tags"), MaxContentLength: rd.int(o, "max_content_length"),
			MinPoWDifficulty: rd.int(o, "min_pow_difficulty"), AuthRequired: rd.boolean(o, "auth_required"),
			PaymentRequired:     rd.boolean(o, "payment_required"),
			CreatedAtLowerLimit: int64(rd.int(o, "created_at_lower_limit")), CreatedAtUpperLimit: int64(rd.int(o, "created_at_upper_limit")),
		}
	}
	if o, ok := rd.obj(m, "retention"); ok {
		rd.unknown(o, "retention", "kinds", "time", "count")
		d.Retention = &mocrelay.NIP11Retention{Kinds: rd.kinds(o, "kinds"), Time: rd.intPtr(o, "time"), Count: rd.intPtr(o, "count")}
	}
	if o, ok := rd.obj(m, "fees"); ok {
		rd.unknown(o, "fees", "admission", "subscription", "publication")
		d.Fees = &mocrelay.NIP11Fees{Admission: rd.fees(o, "admission"), Subscription: rd.fees(o, "subscription"), Publication: rd.fees(o, "publication")}
	}
	rd.unknown(m, "document", "name", "description", "pubkey", "contact", "supported_nips", "software", "version", "limitation",
		"retention", "relay_countries", "language_tags", "tags", "posting_policy", "payments_url", "fees", "icon")
	return d, rd.err
}

// c20RefReadBytes = parse + read.
func c20RefReadBytes(data []byte) (*mocrelay.NIP11, string) {
	g, err := c20ParseGeneric(data)
	if err != nil {
		return nil, "not valid JSON: " + err.Error()
	}
	return c20RefRead(g)
}

// ---------------------------------------------------------------------------
// independent text writer with style variation

type c20Writer struct {
	r     *rand.Rand
	forms map[string]bool
}

func (w *c20Writer) ws() string {
	switch w.r.IntN(8) {
	case 0:
		return " "
	case 1:
		return "\n\t"
	case 2:
		return "  \r\n"
	}
	return ""
}

func (w *c20Writer) str(s string) string {
	var b strings.Builder
	b.WriteByte('"')
	mode := w.r.IntN(3) // 0 minimal escapes, 1 escape all non-ASCII, 2 mixed
	for _, c := range s {
		esc := mode == 1 || mode == 2 && w.r.IntN(2) == 0
		switch {
		case c == '"':
			b.WriteString(`\"`)
		case c == '\\':
			b.WriteString(`\\`)
		case c == '\n' && !esc:
			b.WriteString(`\n`)
		case c == '\t' && !esc:
			b.WriteString(`\t`)
		case c == '/' && esc:
			b.WriteString(`\/`)
		case c < 0x20:
			fmt.Fprintf(&b, `\u%04x`, c)
		case c < 0x7f && !(esc && (c == '<' || c == '>' || c == '&')):
			b.WriteRune(c)
		case esc && c < 0x10000:
			fmt.Fprintf(&b, `\u%04X`, c)
		case esc:
			c -= 0x10000
			fmt.Fprintf(&b, `\u%04x\u%04x`, 0xd800+(c>>10), 0xdc00+(c&0x3ff))
		default:
			b.WriteRune(c)
		}
	}
	b.WriteByte('"')
	return b.String()
}

func (w *c20Writer) object(fields [][2]string) string {
	w.r.Shuffle(len(fields), func(i, j int) { fields[i], fields[j] = fields[j], fields[i] })
	if w.r.IntN(6) == 0 { // a key the configuration does not know, with an empty value
		fields = append(fields, [2]string{vk.Pick(w.r, []string{"x_unknown", "Name2", "kinds_"}), vk.Pick(w.r, []string{"null", `""`, "0", "[]", "{}", "false"})})
	}
	var b strings.Builder
	b.WriteString("{" + w.ws())
	for i, f := range fields {
		if i > 0 {
			b.WriteString("," + w.ws())
		}
		b.WriteString(w.str(f[0]) + w.ws() + ":" + w.ws() + f[1])
	}
	b.WriteString(w.ws() + "}")
	return b.String()
}

func (w *c20Writer) array(items []string) string {
	var b strings.Builder
	b.WriteString("[" + w.ws())
	for i, s := range items {
		if i > 0 {
			b.WriteString("," + w.ws())
		}
		b.WriteString(s)
	}
	b.WriteString(w.ws() + "]")
	return b.String()
}

// optional emits a zero-valued member as omitted, explicit zero or null.
func (w *c20Writer) add(fields *[][2]string, key string, zero bool, text string, zeroTexts ...string) {
	if !zero {
		*fields = append(*fields, [2]string{key, text})
		return
	}
	if k := w.r.IntN(len(zeroTexts) + 2); k < len(zeroTexts) {
		*fields = append(*fields, [2]string{key, zeroTexts[k]})
	}
}

func (w *c20Writer) kinds(ks []*mocrelay.Nip11Kind) string {
	items := make([]string, len(ks))
	for i, k := range ks {
		if k.From == k.To && w.r.IntN(3) != 0 {
			items[i] = strconv.Itoa(k.From)
			w.forms["text-single"] = true
		} else {
			items[i] = w.array([]string{strconv.Itoa(k.From), strconv.Itoa(k.To)})
			if k.From == k.To {
				w.forms["text-pair-equal"] = true
			} else {
				w.forms["text-"+c20KindForm(k)] = true
			}
		}
	}
	return w.array(items)
}

func (w *c20Writer) strs(ss []string) string {
	items := make([]string, len(ss))
	for i, s := range ss {
		items[i] = w.str(s)
	}
	return w.array(items)
}

func (w *c20Writer) intPtr(fields *[][2]string, key string, p *int) {
	if p == nil {
		w.add(fields, key, true, "", "null")
	} else {
		*fields = append(*fields, [2]string{key, strconv.Itoa(*p)})
	}
}

func (w *c20Writer) fees(l []*mocrelay.Nip11Fee) string {
	items := make([]string, len(l))
	for i, f := range l {
		var fs [][2]string
		w.add(&fs, "kinds", len(f.Kinds) == 0, w.kinds(f.Kinds), "[]", "null")
		w.add(&fs, "amount", f.Amount == 0, strconv.Itoa(f.Amount), "0")
		w.add(&fs, "unit", f.Unit == "", w.str(f.Unit), `""`)
		w.intPtr(&fs, "period", f.Period)
		items[i] = w.object(fs)
	}
	return w.array(items)
}

// c20Text writes d as JSON text in a randomly chosen style; the set of kind-entry
// forms used is returned for coverage accounting.
func c20Text(r *rand.Rand, d *mocrelay.NIP11) (string, map[string]bool) {
	w := &c20Writer{r: r, forms: map[string]bool{}}
	var fs [][2]string
	s := func(key, v string) { w.add(&fs, key, v == "", w.str(v), `""`, "null") }
	s("name", d.Name)
	s("description", d.Description)
	s("pubkey", d.Pubkey)
	s("contact", d.Contact)
	nips := make([]string, len(d.SupportedNIPs))
	for i, n := range d.SupportedNIPs {
		nips[i] = strconv.Itoa(n)
	}
	w.add(&fs, "supported_nips", len(nips) == 0, w.array(nips), "[]", "null")
	s("software", d.Software)
	s("version", d.Version)
	if l := d.Limitation; l == nil {
		w.add(&fs, "limitation", true, "", "null")
	} else {
		var ls [][2]string
		n := func(key string, v int64) { w.add(&ls, key, v == 0, strconv.FormatInt(v, 10), "0") }
		n("max_message_length", int64(l.MaxMessageLength))
		n("max_subscriptions", int64(l.MaxSubscriptions))
		n("max_filters", int64(l.MaxFilters))
		n("max_limit", int64(l.MaxLimit))
		n("max_subid_length", int64(l.MaxSubIDLength))
		n("max_event_tags", int64(l.MaxEventTags))
		n("max_content_length", int64(l.MaxContentLength))
		n("min_pow_difficulty", int64(l.MinPoWDifficulty))
		w.add(&ls, "auth_required", !l.AuthRequired, "true", "false")
		w.add(&ls, "payment_required", !l.PaymentRequired, "true", "false")
		n("created_at_lower_limit", l.CreatedAtLowerLimit)
		n("created_at_upper_limit", l.CreatedAtUpperLimit)
		fs = append(fs, [2]string{"limitation", w.object(ls)})
	}
	if t := d.Retention; t == nil {
		w.add(&fs, "retention", true, "", "null")
	} else {
		var ts [][2]string
		w.add(&ts, "kinds", len(t.Kinds) == 0, w.kinds(t.Kinds), "[]", "null")
		w.intPtr(&ts, "time", t.Time)
		w.intPtr(&ts, "count", t.Count)
		fs = append(fs, [2]string{"retention", w.object(ts)})
	}
	w.add(&fs, "relay_countries", len(d.RelayContries) == 0, w.strs(d.RelayContries), "[]", "null")
	w.add(&fs, "language_tags", len(d.LanguageTags) == 0, w.strs(d.LanguageTags), "[]", "null")
	w.add(&fs, "tags", len(d.Tags) == 0, w.strs(d.Tags), "[]", "null")
	s("posting_policy", d.PostingPolicy)
	s("payments_url", d.PaymentsURL)
	if f := d.Fees; f == nil {
		w.add(&fs, "fees", true, "", "null")
	} else {
		var ff [][2]string
		w.add(&ff, "admission", len(f.Admission) == 0, w.fees(f.Admission), "[]", "null")
		w.add(&ff, "subscription", len(f.Subscription) == 0, w.fees(f.Subscription), "[]", "null")
		w.add(&ff, "publication", len(f.Publication) == 0, w.fees(f.Publication), "[]", "null")
		fs = append(fs, [2]string{"fees", w.object(ff)})
	}
	s("icon", d.Icon)
	return w.ws() + w.object(fs) + w.ws(), w.forms
}
