package mocrelay_test

import (
	"context"
	"fmt"
	"math/rand/v2"
	"runtime"
	"strings"
	"sync"
	"testing"
	"time"

	"github.com/high-moctane/mocrelay"
	vk "github.com/high-moctane/mocrelay/internal/verifkit"
)

// C07 — router: live events reach exactly the open matching subscriptions, once.

type rRecv struct {
	at  int64
	msg mocrelay.ServerMsg
}

type rSub struct {
	conn    int
	sub     string
	filters []*mocrelay.ReqFilter
	reqCall int64
	eoseRet int64 // 0: no EOSE observed
	endCall int64 // 0: not ended yet
	endRet  int64
	cut     bool // ended by the end of its connection during the run
}

type rPub struct {
	conn      int
	e         *mocrelay.Event
	call, ret int64
}

type rConn struct {
	idx     int
	s       *vk.Session
	pause   sync.RWMutex
	mu      sync.Mutex
	deliv   []rRecv // EVENT messages received
	replies chan mocrelay.ServerMsg
	rdDone  chan struct{}
	ended   bool
	endCall int64
	endRet  int64
}

func newRConn(ctx context.Context, h mocrelay.Handler, idx int) *rConn {
	c := &rConn{idx: idx, s: vk.StartSession(ctx, h, 0), replies: make(chan mocrelay.ServerMsg, 4096), rdDone: make(chan struct{})}
	go func() {
		defer close(c.rdDone)
		for {
			c.pause.RLock()
			c.pause.RUnlock()
			select {
			case m := <-c.s.Send:
				at := vk.Tick()
				if _, is := m.(*mocrelay.ServerEventMsg); is {
					c.mu.Lock()
					c.deliv = append(c.deliv, rRecv{at, m})
					c.mu.Unlock()
				} else {
					select {
					case c.replies <- m:
					default:
					}
				}
			case <-c.s.Done:
				// drain what is already queued
				for {
					select {
					case m := <-c.s.Send:
						if _, is := m.(*mocrelay.ServerEventMsg); is {
							c.mu.Lock()
							c.deliv = append(c.deliv, rRecv{vk.Tick(), m})
							c.mu.Unlock()
						}
					default:
						return
					}
				}
			}
		}
	}()
	return c
}

func (c *rConn) reply() (mocrelay.ServerMsg, int64, bool) {
	t := time.NewTimer(vk.WaitBound)
	defer t.Stop()
	select {
	case m := <-c.replies:
		return m, vk.Tick(), true
	case <-t.C:
		return nil, 0, false
	}
}

func (c *rConn) deliveries() []rRecv {
	c.mu.Lock()
	defer c.mu.Unlock()
	return append([]rRecv{}, c.deliv...)
}

type rWorld struct {
	mu   sync.Mutex
	subs []*rSub
	pubs []*rPub
	log  []string
}

func (w *rWorld) logf(f string, a ...any) {
	w.mu.Lock()
	w.log = append(w.log, fmt.Sprintf("t=%d ", vk.Tick())+fmt.Sprintf(f, a...))
	w.mu.Unlock()
}

var c07Authors = []string{vk.FakePub(700), vk.FakePub(701), vk.FakePub(702)}

// kinds of every class and size: below and at 64, four and five digits, the largest one
var c07Kinds = []int64{1, 7, 1, 7, 1, 7, 0, 63, 64, 1000, 10002, 20001, 30023, 65535}

func c07Event(r *rand.Rand, n *int) *mocrelay.Event {
	*n++
	e := &mocrelay.Event{Kind: vk.Pick(r, c07Kinds), Pubkey: vk.Pick(r, c07Authors), CreatedAt: int64(1000 + r.IntN(100)),
		Content: fmt.Sprintf("c07-%d-%d", *n, r.Uint32()), Tags: []mocrelay.Tag{{"t", vk.Pick(r, []string{"v1", "v2", "v1", "v2", "v1,v2", ""})}}}
	return vk.Seal(e)
}

func c07Filters(r *rand.Rand) []*mocrelay.ReqFilter {
	n := 1 + r.IntN(2)
	fs := make([]*mocrelay.ReqFilter, n)
	for i := range fs {
		f := &mocrelay.ReqFilter{}
		switch r.IntN(8) {
		case 0:
		case 6: // a list that is present and empty matches nothing (it is not the same as absent)
			switch r.IntN(3) {
			case 0:
				f.Kinds = []int64{}
			case 1:
				f.IDs = []string{}
			default:
				f.Authors = []string{}
			}
		case 7:
			f.Kinds = []int64{1, 7}
			f.Authors = []string{}
		case 1:
			f.Kinds = []int64{vk.Pick(r, []int64{1, 7})}
			if r.IntN(3) == 0 {
				f.Kinds = []int64{vk.Pick(r, c07Kinds), vk.Pick(r, c07Kinds)}
			}
		case 2:
			f.Authors = []string{vk.Pick(r, c07Authors)}
		case 3:
			// value lists that differ only in how they are cut: ["v1,v2"] vs ["v1","v2"], [""] vs []
			f.Tags = map[string][]string{"t": vk.Pick(r, [][]string{{"v1"}, {"v2"}, {"v1"}, {"v2"}, {"v1,v2"}, {"v1", "v2"}, {""}, {}})}
		case 4:
			f.Kinds = []int64{1, 7}
			f.Limit = vk.Ptr(int64(r.IntN(2))) // a limit does not restrict live delivery
		case 5:
			f.Kinds = []int64{42}
		}
		fs[i] = f
	}
	return fs
}

// judge classifies every (subscription instance, publication) pair and checks the
// recorded deliveries. lowerBound: also require the must-deliveries.
func c07Judge(rep *vk.Report, w *rWorld, conns []*rConn, scenario string, extra map[string]any) bool {
	wit := func(more map[string]any) map[string]any {
		m := map[string]any{"scenario": scenario, "log": w.log}
		for k, v := range extra {
			m[k] = v
		}
		for k, v := range more {
			m[k] = v
		}
		return m
	}
	ok := true
	for _, c := range conns {
		dl := c.deliveries()
		// group subscription instances by sub id
		bySub := map[string][]*rSub{}
		for _, s := range w.subs {
			if s.conn == c.idx {
				bySub[s.sub] = append(bySub[s.sub], s)
			}
		}
		count := map[string]int{} // sub|eventid -> deliveries
		lastSeq := map[string]int{}
		pubSeq := map[string]int{}
		pubBy := map[string]*rPub{}
		for i, p := range w.pubs {
			pubSeq[p.e.ID] = i
			pubBy[p.e.ID] = p
		}
		for _, d := range dl {
			m := d.msg.(*mocrelay.ServerEventMsg)
			if _, opened := bySub[m.SubscriptionID]; !opened {
				rep.Violation("delivery/unknown-subscription-id", fmt.Sprintf("connection %d received an event labelled %q, a subscription id it never opened", c.idx, m.SubscriptionID), wit(nil))
				return false
			}
			p := pubBy[m.Event.ID]
			if p == nil {
				rep.Violation("delivery/unknown-event", "an event nobody published was delivered", wit(nil))
				return false
			}
			if !vk.EventsEqual(p.e, m.Event) {
				rep.Violation("delivery/altered-event", "a delivered event differs from the published one", wit(nil))
				return false
			}
			k := m.SubscriptionID + "|" + m.Event.ID
			count[k]++
			// publication order per (publisher, subscription)
			ok2 := fmt.Sprintf("%s|%d", m.SubscriptionID, p.conn)
			if last, seen := lastSeq[ok2]; seen && pubSeq[m.Event.ID] < last {
				rep.Violation("delivery/out-of-publication-order", fmt.Sprintf("connection %d subscription %q received events of publisher %d out of publication order", c.idx, m.SubscriptionID, p.conn), wit(nil))
				return false
			}
			lastSeq[ok2] = pubSeq[m.Event.ID]
		}
		for sub, insts := range bySub {
			for _, p := range w.pubs {
				must, mustNot := false, true
				for _, s := range insts {
					match := vk.RefMatchAny(s.filters, p.e)
					sMustNot := !match || s.reqCall > p.ret || (s.endRet != 0 && s.endRet < p.call)
					sMust := match && s.eoseRet != 0 && s.eoseRet < p.call && (s.endCall == 0 || p.ret < s.endCall) && !s.cut
					if !sMustNot {
						mustNot = false
					}
					if sMust {
						must = true
					}
				}
				n := count[sub+"|"+p.e.ID]
				cls := "may"
				if must {
					cls = "must"
				} else if mustNot {
					cls = "must-not"
				}
				rep.Count("pairs_"+cls, 1)
				switch {
				case n > 1:
					rep.Violation("delivery/duplicate", fmt.Sprintf("connection %d subscription %q received event %.8s %d times", c.idx, sub, p.e.ID, n), wit(nil))
					ok = false
				case must && n == 0:
					rep.Violation("delivery/missing", fmt.Sprintf("connection %d subscription %q was open (EOSE received) and matches, but never received event %.8s published by connection %d", c.idx, sub, p.e.ID, p.conn), wit(nil))
					ok = false
				case mustNot && n > 0:
					why := "does not match its filters"
					for _, s := range insts {
						if vk.RefMatchAny(s.filters, p.e) {
							why = "was not open when the event was published (closed, replaced, or not yet requested)"
						}
					}
					rep.Violation("delivery/unwanted", fmt.Sprintf("connection %d subscription %q received event %.8s although it %s", c.idx, sub, p.e.ID, why), wit(nil))
					ok = false
				}
				if !ok {
					return false
				}
			}
		}
	}
	return ok
}

// mustSet: deliveries that have to arrive on live connections (used to wait for quiescence).
func c07Pending(w *rWorld, conns []*rConn) int {
	pending := 0
	for _, c := range conns {
		if c.ended {
			continue
		}
		have := map[string]bool{}
		for _, d := range c.deliveries() {
			m := d.msg.(*mocrelay.ServerEventMsg)
			have[m.SubscriptionID+"|"+m.Event.ID] = true
		}
		for _, s := range w.subs {
			if s.conn != c.idx || s.cut || s.eoseRet == 0 {
				continue
			}
			for _, p := range w.pubs {
				if vk.RefMatchAny(s.filters, p.e) && s.eoseRet < p.call && (s.endCall == 0 || p.ret < s.endCall) && !have[s.sub+"|"+p.e.ID] {
					pending++
				}
			}
		}
	}
	return pending
}

func parkedInRouter() string {
	buf := make([]byte, 1<<20)
	n := runtime.Stack(buf, true)
	for _, g := range strings.Split(string(buf[:n]), "\n\n") {
		if strings.Contains(g, "subscriber).SendIfMatch") || strings.Contains(g, "subscribers).Publish") {
			return g
		}
	}
	return ""
}

func TestVerif_C07(t *testing.T) {
	rep := vk.NewReport(t, "C07", "exploration")
	rep.Rule = "N=2-8 (one run in ten: 12-24, one in thirty: 33-100) concurrent connections on one RouterHandler, each running a seeded script (REQ, re-REQ of the same id, CLOSE of open and never-opened ids followed by a COUNT barrier, EVENT, COUNT, disconnect by cancel or inbound close) while a reader stamps everything it receives on one logical clock; offline, every (subscription instance, publication) pair is classified must / must-not / may by real-time order and the deliveries are checked (exactly once for must, never for must-not, at most once always, own sub ids only, publication order per publisher); registry size after disconnects; back-pressure scenarios with stalled subscribers and small buffers (publishers must finish, draining subscribers lose nothing, the stalled one gets an in-order duplicate-free subsequence of at least min(buffer, M)); publishers cancelled while their own EVENT is fanned out to 90-420 old subscriptions (whenever the accepting OK still arrived, all of them must get the event); runs under GOMAXPROCS 16/4/1 with verifPoint delays; added later: events and kind filters over kinds 0..65535 (below and at 64, four and five digits); a subscriber that overflowed takes a few deliveries (fewer than half a buffer) and a publication acknowledged after that must arrive; non-trivial = a run with at least one must and one must-not pair; distinct = distinct interleaving signatures (operation-type sequence in clock order)"
	defer rep.Finish()
	pc := &pointCtl{sleep: true, only: "router."}
	mocrelay.SetVerifPoint(pc.fn)
	defer mocrelay.SetVerifPoint(nil)
	ctx := context.Background()
	defer runtime.GOMAXPROCS(runtime.GOMAXPROCS(0))

	nRuns := vk.N(3000, 45000)
	phases := []int{16, 4, 1}
	for ph, procs := range phases {
		runtime.GOMAXPROCS(procs)
		lo, hi := nRuns*ph/len(phases), nRuns*(ph+1)/len(phases)
		vk.ParallelW(max(1, procs/2), hi-lo, func(k int) {
			i := lo + k
			if rep.Violations() >= 3 {
				return // enough witnesses; do not spend the wait bounds on the rest
			}
			r := vk.RNG("C07", i)
			router := mocrelay.NewRouterHandler(4096)
			nconn := 2 + r.IntN(7)
			if r.IntN(10) == 0 { // "any number of concurrent connections": sometimes a dozen or two on one router
				nconn = 12 + r.IntN(13)
				rep.Count("runs_with_12_to_24_connections", 1)
				if r.IntN(3) == 0 { // and a crowd: 33-100 connections, past any small per-chunk or per-shard size
					nconn = 33 + r.IntN(68)
					rep.Count("runs_with_33_to_100_connections", 1)
				}
			}
			w := &rWorld{}
			conns := make([]*rConn, nconn)
			for c := range conns {
				conns[c] = newRConn(ctx, router, c)
			}
			var wg sync.WaitGroup
			var failMu sync.Mutex
			failed := ""
			fail := func(s string) {
				failMu.Lock()
				if failed == "" {
					failed = s
				}
				failMu.Unlock()
			}
			evn := 0
			var evMu sync.Mutex
			for ci, c := range conns {
				wg.Add(1)
				rr := vk.RNG("C07/conn", i*64+ci)
				go func(c *rConn, rr *rand.Rand) {
					defer wg.Done()
					open := map[string]*rSub{}
					nops := 5 + rr.IntN(21)
					for k := 0; k < nops; k++ {
						if rr.IntN(4) == 0 {
							runtime.Gosched()
						}
						switch x := rr.IntN(100); {
						case x < 33:
							sub := vk.Pick(rr, []string{"a", "b", "c"})
							s := &rSub{conn: c.idx, sub: sub, filters: c07Filters(rr), reqCall: vk.Tick()}
							w.mu.Lock()
							w.subs = append(w.subs, s)
							w.mu.Unlock()
							w.logf("conn %d > REQ %s %s", c.idx, sub, vk.JSON(s.filters))
							c.s.Put(&mocrelay.ClientReqMsg{SubscriptionID: sub, ReqFilters: s.filters})
							m, at, ok := c.reply()
							if eo, is := m.(*mocrelay.ServerEOSEMsg); !ok || !is || eo.SubscriptionID != sub {
								fail(fmt.Sprintf("connection %d: REQ %s answered by %s", c.idx, sub, vk.DescribeServerMsg(m)))
								return
							}
							w.mu.Lock()
							s.eoseRet = at
							if old := open[sub]; old != nil {
								old.endCall, old.endRet = s.reqCall, at
							}
							w.mu.Unlock()
							open[sub] = s
							w.logf("conn %d < EOSE %s", c.idx, sub)
						case x < 48:
							sub := vk.Pick(rr, []string{"a", "b", "c", "never-opened"})
							call := vk.Tick()
							w.logf("conn %d > CLOSE %s", c.idx, sub)
							c.s.Put(&mocrelay.ClientCloseMsg{SubscriptionID: sub})
							c.s.Put(&mocrelay.ClientCountMsg{SubscriptionID: "barrier", ReqFilters: []*mocrelay.ReqFilter{{}}})
							m, at, ok := c.reply()
							if cm, is := m.(*mocrelay.ServerCountMsg); !ok || !is || cm.SubscriptionID != "barrier" {
								fail(fmt.Sprintf("connection %d: COUNT answered by %s", c.idx, vk.DescribeServerMsg(m)))
								return
							}
							if s := open[sub]; s != nil {
								w.mu.Lock()
								s.endCall, s.endRet = call, at
								w.mu.Unlock()
								delete(open, sub)
							}
						case x < 93:
							evMu.Lock()
							e := c07Event(rr, &evn)
							evMu.Unlock()
							p := &rPub{conn: c.idx, e: e, call: vk.Tick()}
							w.logf("conn %d > EVENT %.8s kind %d author %.4s t=%s", c.idx, e.ID, e.Kind, e.Pubkey, e.Tags[0][1])
							c.s.Put(&mocrelay.ClientEventMsg{Event: e})
							m, at, ok := c.reply()
							if o, is := m.(*mocrelay.ServerOKMsg); !ok || !is || o.EventID != e.ID || !o.Accepted {
								fail(fmt.Sprintf("connection %d: EVENT %.8s answered by %s", c.idx, e.ID, vk.DescribeServerMsg(m)))
								return
							}
							p.ret = at
							w.mu.Lock()
							w.pubs = append(w.pubs, p)
							w.mu.Unlock()
						case x < 96:
							c.s.Put(&mocrelay.ClientCountMsg{SubscriptionID: "cnt", ReqFilters: []*mocrelay.ReqFilter{{}}})
							if m, _, ok := c.reply(); !ok {
								fail(fmt.Sprintf("connection %d: COUNT answered by %s", c.idx, vk.DescribeServerMsg(m)))
								return
							}
						default:
							// disconnect during the run
							c.endCall = vk.Tick()
							w.mu.Lock()
							for _, s := range open {
								s.endCall = c.endCall
							}
							// direct replies and live events travel on different paths inside a
							// session: nothing proves that a queued delivery was flushed before the
							// cut, so the lower bound is waived for every subscription of this connection
							for _, s := range w.subs {
								if s.conn == c.idx {
									s.cut = true
								}
							}
							w.mu.Unlock()
							if rr.IntN(2) == 0 {
								w.logf("conn %d cancels", c.idx)
								c.s.Cancel()
							} else {
								w.logf("conn %d closes its inbound channel", c.idx)
								c.s.CloseRecv()
							}
							if !c.s.WaitDone() {
								fail(fmt.Sprintf("connection %d: ServeNostr did not return after the connection ended", c.idx))
								return
							}
							<-c.rdDone
							c.endRet = vk.Tick()
							w.mu.Lock()
							for _, s := range open {
								s.endRet = c.endRet
							}
							w.mu.Unlock()
							c.ended = true
							return
						}
					}
				}(c, rr)
			}
			wg.Wait()
			rep.Eval(1)
			if failed != "" {
				rep.Violation("reply/missing-or-wrong", failed, map[string]any{"log": w.log})
				for _, c := range conns {
					c.s.Stop()
				}
				return
			}
			// quiescence: wait for the must-deliveries still in flight
			deadline := time.Now().Add(vk.WaitBound)
			for c07Pending(w, conns) > 0 && time.Now().Before(deadline) {
				time.Sleep(200 * time.Microsecond)
			}
			live := 0
			for _, c := range conns {
				if !c.ended {
					live++
				}
			}
			if n, _, ok := vk.PeekRouter(router); ok && n > live {
				rep.Violation("registry/finished-connection-remains", fmt.Sprintf("%d connections are live but the registry holds %d", live, n), map[string]any{"log": w.log})
			} else if ok {
				rep.Count("registry_observations", 1)
			}
			end := vk.Tick()
			w.mu.Lock()
			for _, s := range w.subs {
				if s.endCall == 0 {
					s.endCall = end
				}
			}
			w.mu.Unlock()
			for _, c := range conns {
				if !c.ended {
					c.s.Stop()
					<-c.rdDone
				}
			}
			if n, _, ok := vk.PeekRouter(router); ok && n != 0 {
				rep.Violation("registry/not-empty-after-all-sessions", fmt.Sprintf("all sessions ended but the registry still holds %d connections", n), map[string]any{"log": w.log})
			}
			before := rep.Counter("pairs_must") + rep.Counter("pairs_must-not")
			c07Judge(rep, w, conns, fmt.Sprintf("mixed scripts, %d connections, GOMAXPROCS %d", nconn, procs), nil)
			if rep.Counter("pairs_must")+rep.Counter("pairs_must-not") > before {
				sig := ""
				for _, l := range w.log {
					f := strings.Fields(l)
					if len(f) > 4 {
						sig += f[2] + f[4][:1]
					}
				}
				rep.Nontrivial(sig)
				rep.Seen("interleaving_signatures", fmt.Sprint(len(sig), "/", hashStr(sig)))
			}
			rep.Count("publications", int64(len(w.pubs)))
			rep.Count("subscription_instances", int64(len(w.subs)))
			if rep.WantSample() {
				rep.Sample(map[string]any{"connections": nconn, "log": w.log[:min(14, len(w.log))]})
			}
		})
	}
	runtime.GOMAXPROCS(16)

	// back-pressure scenarios
	nBP := vk.N(400, 6000)
	vk.ParallelW(8, nBP, func(i int) {
		if rep.Violations() >= 3 {
			return
		}
		r := vk.RNG("C07/bp", i)
		nStalled, nDrain, nPub := 1+r.IntN(2), 1+r.IntN(3), 1+r.IntN(3)
		// publishers are paced on the draining subscribers' receipts, so a draining
		// subscriber never has more than nPub deliveries pending: with buffer >= nPub it
		// may not lose anything, while the stalled ones overflow
		buf := nPub + vk.Pick(r, []int{0, 1, 3, 7})
		if i%3 == 0 {
			// only stalled subscribers: many unpaced publishers race for the last free
			// slots of a tiny buffer; every one of them must still get its OK
			nDrain, nPub, buf = 0, 4+r.IntN(5), 1+r.IntN(2)
		}
		router := mocrelay.NewRouterHandler(buf)
		w := &rWorld{}
		var conns []*rConn
		mk := func() *rConn { c := newRConn(ctx, router, len(conns)); conns = append(conns, c); return c }
		var stalled, drain, pubs []*rConn
		for k := 0; k < nStalled; k++ {
			stalled = append(stalled, mk())
		}
		for k := 0; k < nDrain; k++ {
			drain = append(drain, mk())
		}
		for k := 0; k < nPub; k++ {
			pubs = append(pubs, mk())
		}
		defer func() {
			for _, c := range conns {
				c.s.Stop()
			}
		}()
		for _, c := range append(append([]*rConn{}, stalled...), drain...) {
			fs := []*mocrelay.ReqFilter{{Kinds: c07Kinds}}
			s := &rSub{conn: c.idx, sub: "s", filters: fs, reqCall: vk.Tick()}
			w.subs = append(w.subs, s)
			c.s.Put(&mocrelay.ClientReqMsg{SubscriptionID: "s", ReqFilters: fs})
			m, at, ok := c.reply()
			if _, is := m.(*mocrelay.ServerEOSEMsg); !ok || !is {
				rep.Violation("reply/missing-or-wrong", "REQ not answered by EOSE", nil)
				return
			}
			s.eoseRet = at
		}
		for _, c := range stalled {
			c.pause.Lock()
		}
		m := buf + 2 + r.IntN(3*buf+10)
		var wg sync.WaitGroup
		var pmu sync.Mutex
		blocked, lost := "", ""
		evn := 0
		for pi, p := range pubs {
			wg.Add(1)
			rr := vk.RNG("C07/bp/pub", i*8+pi)
			go func(p *rConn, rr *rand.Rand) {
				defer wg.Done()
				for k := 0; k < m; k++ {
					pmu.Lock()
					e := c07Event(rr, &evn)
					pmu.Unlock()
					pb := &rPub{conn: p.idx, e: e, call: vk.Tick()}
					if !p.s.Put(&mocrelay.ClientEventMsg{Event: e}) {
						pmu.Lock()
						blocked = fmt.Sprintf("publisher %d could not hand EVENT #%d to the router", p.idx, k)
						pmu.Unlock()
						return
					}
					mm, at, ok := p.reply()
					if o, is := mm.(*mocrelay.ServerOKMsg); !ok || !is || !o.Accepted {
						pmu.Lock()
						blocked = fmt.Sprintf("publisher %d got no accepting OK for EVENT #%d (%s)", p.idx, k, vk.DescribeServerMsg(mm))
						pmu.Unlock()
						return
					}
					pb.ret = at
					pmu.Lock()
					w.pubs = append(w.pubs, pb)
					pmu.Unlock()
					// pace: wait until every draining subscriber has this event
					deadline := time.Now().Add(vk.WaitBound)
					for _, dc := range drain {
						for {
							got := false
							for _, d := range dc.deliveries() {
								if d.msg.(*mocrelay.ServerEventMsg).Event.ID == e.ID {
									got = true
								}
							}
							if got {
								break
							}
							if time.Now().After(deadline) {
								pmu.Lock()
								if lost == "" {
									lost = fmt.Sprintf("a subscriber that kept reading (at most %d deliveries pending, buffer %d) never received event #%d of publisher %d while another subscriber was stalled", nPub, buf, k, p.idx)
								}
								pmu.Unlock()
								return
							}
							time.Sleep(50 * time.Microsecond)
						}
					}
				}
			}(p, rr)
		}
		wg.Wait()
		rep.Eval(1)
		scenario := fmt.Sprintf("back-pressure: buffer %d, %d stalled, %d draining, %d publishers x %d events", buf, nStalled, nDrain, nPub, m)
		if blocked != "" {
			if st := parkedInRouter(); st != "" {
				rep.Violation("backpressure/publisher-delayed", blocked+" while a subscriber was not reading", map[string]any{"scenario": scenario, "stack": st})
			} else {
				rep.Inconclusive("C07: " + blocked + " but no goroutine is parked in the router")
			}
			for _, c := range stalled {
				c.pause.Unlock()
			}
			return
		}
		if lost != "" {
			rep.Violation("backpressure/draining-subscriber-lost-events", lost, map[string]any{"scenario": scenario})
			for _, c := range stalled {
				c.pause.Unlock()
			}
			return
		}
		// a REQ issued by a subscriber while it is not reading (its buffer is full by now)
		// must still be answered by its EOSE once it reads again
		// (a handler may leave it unread until its own output moves again, so it is offered
		// from a goroutine of its own for the whole stall)
		lateTaken := make([]chan bool, len(stalled))
		for k, c := range stalled {
			lateTaken[k] = make(chan bool, 1)
			go func(c *rConn, ch chan bool) {
				ch <- c.s.PutWithin(&mocrelay.ClientReqMsg{SubscriptionID: "late", ReqFilters: []*mocrelay.ReqFilter{{Kinds: []int64{42}}}}, 3*vk.WaitBound)
			}(c, lateTaken[k])
		}
		total := nPub * m
		// draining subscribers must have everything
		deadline := time.Now().Add(vk.WaitBound)
		for time.Now().Before(deadline) {
			n := 0
			for _, c := range drain {
				n += len(c.deliveries())
			}
			if n >= total*len(drain) {
				break
			}
			time.Sleep(200 * time.Microsecond)
		}
		for _, c := range drain {
			if n := len(c.deliveries()); n != total {
				rep.Violation("backpressure/draining-subscriber-lost-events", fmt.Sprintf("a subscriber that kept reading received %d of %d matching events while another subscriber was stalled", n, total), map[string]any{"scenario": scenario})
				for _, c := range stalled {
					c.pause.Unlock()
				}
				return
			}
		}
		for _, c := range stalled {
			c.pause.Unlock()
		}
		want := min(buf, total)
		deadline = time.Now().Add(vk.WaitBound)
		for time.Now().Before(deadline) {
			okAll := true
			for _, c := range stalled {
				if len(c.deliveries()) < want {
					okAll = false
				}
			}
			if okAll {
				break
			}
			time.Sleep(200 * time.Microsecond)
		}
		time.Sleep(2 * time.Millisecond)
		for _, c := range stalled {
			if n := len(c.deliveries()); n < want {
				rep.Violation("backpressure/stalled-subscriber-lost-buffered-events", fmt.Sprintf("after resuming, the stalled subscriber received %d events; at least min(buffer=%d, %d) were pending and must not be discarded", n, buf, total), map[string]any{"scenario": scenario})
				return
			}
			rep.Count("stalled_received", int64(len(c.deliveries())))
			rep.Count("stalled_dropped", int64(total-len(c.deliveries())))
		}
		for k, c := range stalled {
			if !<-lateTaken[k] {
				rep.Violation("backpressure/req-not-taken-after-resume", "a REQ offered while the subscriber was not reading was still not taken after it had resumed reading and received its backlog", map[string]any{"scenario": scenario})
				return
			}
			gotEOSE := false
			deadline := time.Now().Add(vk.WaitBound)
			for !gotEOSE && time.Now().Before(deadline) {
				select {
				case m := <-c.replies:
					if e, is := m.(*mocrelay.ServerEOSEMsg); is && e.SubscriptionID == "late" {
						gotEOSE = true
					}
				case <-time.After(time.Millisecond):
				}
			}
			if !gotEOSE {
				rep.Violation("backpressure/req-during-stall-without-eose", "a REQ sent while the subscriber was not reading (buffer full) was never answered by EOSE after it resumed reading", map[string]any{"scenario": scenario})
				return
			}
			rep.Count("reqs_during_stall_answered", 1)
		}
		w.subs = append(w.subs, func() []*rSub {
			var l []*rSub
			for _, c := range stalled {
				l = append(l, &rSub{conn: c.idx, sub: "late", filters: []*mocrelay.ReqFilter{{Kinds: []int64{42}}}, reqCall: 1, eoseRet: 0, cut: true})
			}
			return l
		}()...)
		// mark the stalled subscriptions as "may" for the lower bound: only order, duplicates and membership are judged
		for _, s := range w.subs {
			for _, c := range stalled {
				if s.conn == c.idx {
					s.cut = true
				}
			}
		}
		c07Judge(rep, w, conns, scenario, nil)
		rep.Count("backpressure_runs", 1)
		rep.Nontrivial(fmt.Sprintf("bp/%d/%d/%d/%d/%d", buf, nStalled, nDrain, nPub, m))
	})
	// a subscriber whose buffer overflowed reads again, slowly: from then on there is room in
	// its buffer for what is published, so none of that may be dropped ("only its own
	// deliveries beyond the configured buffer are dropped")
	nResume := vk.N(150, 2000)
	vk.ParallelW(8, nResume, func(i int) {
		if rep.Violations() >= 3 {
			return
		}
		r := vk.RNG("C07/resume", i)
		buf := 8 + r.IntN(40)
		router := mocrelay.NewRouterHandler(buf)
		sub, pub := vk.StartSession(ctx, router, 0), vk.StartSession(ctx, router, 4)
		defer sub.Stop()
		defer pub.Stop()
		sub.Put(&mocrelay.ClientReqMsg{SubscriptionID: "s", ReqFilters: []*mocrelay.ReqFilter{{}}})
		if m, ok := sub.Get(); !ok || vk.DescribeServerMsg(m) != "EOSE s" {
			rep.Inconclusive("C07: resume scenario could not be set up")
			return
		}
		evn := 0
		publish := func() *mocrelay.Event {
			e := c07Event(r, &evn)
			if !pub.Put(&mocrelay.ClientEventMsg{Event: e}) {
				return nil
			}
			if m, ok := pub.Get(); !ok {
				return nil
			} else if o, is := m.(*mocrelay.ServerOKMsg); !is || !o.Accepted {
				return nil
			}
			return e
		}
		for k := buf + 3 + r.IntN(buf); k > 0; k-- {
			if publish() == nil {
				rep.Inconclusive("C07: resume scenario: a publication was not acknowledged")
				return
			}
		}
		// the subscriber takes a few deliveries (fewer than half a buffer) and pauses again
		took := 2 + r.IntN(max(1, buf/2-3))
		for k := 0; k < took; k++ {
			if _, ok := sub.Get(); !ok {
				rep.Inconclusive("C07: resume scenario: the backlog was not delivered")
				return
			}
		}
		marker := publish()
		if marker == nil {
			rep.Inconclusive("C07: resume scenario: the marker publication was not acknowledged")
			return
		}
		rep.Eval(1)
		// everything that still arrives was waiting when the marker was published: if that is
		// fewer than the configured buffer, the marker was not "beyond the buffer"
		got, pending := false, 0
		for {
			m, ok := sub.GetWithin(time.Second)
			if !ok {
				break
			}
			if em, is := m.(*mocrelay.ServerEventMsg); is && em.Event.ID == marker.ID {
				got = true
				continue
			}
			pending++
		}
		switch {
		case got:
			rep.Count("publications_after_a_partial_drain_delivered", 1)
		case pending < buf:
			rep.Violation("backpressure/dropped-although-the-buffer-had-room", fmt.Sprintf("a subscriber (buffer %d) overflowed, then took %d deliveries; when the next event was published - and acknowledged with OK - only %d deliveries were waiting for it, yet that event never arrived", buf, took, pending), map[string]any{"buffer": buf, "taken_before_the_publication": took, "waiting_at_the_publication": pending})
			return
		default:
			rep.Count("publications_after_a_partial_drain_beyond_the_buffer", 1)
		}
	})
	rep.Require(rep.Violations() > 0 || rep.Counter("publications_after_a_partial_drain_delivered")+rep.Counter("publications_after_a_partial_drain_beyond_the_buffer") >= int64(nResume*9/10), "resume-after-overflow scenario")
	// a publisher that goes away while its own EVENT is being fanned out: when it still got its
	// accepting OK, the event was published, and every subscription that was open (EOSE read
	// long before) must get it - whether the publisher is still there does not matter to them
	nLeave := vk.N(6, 60)
	vk.ParallelW(4, nLeave, func(i int) {
		r := vk.RNG("C07/publisher-leaves", i)
		router := mocrelay.NewRouterHandler(4096)
		nSubConn, perConn := 3+r.IntN(4), 30+r.IntN(40)
		subs := make([]*vk.Session, nSubConn)
		for c := range subs {
			subs[c] = vk.StartSession(ctx, router, 8192)
			defer subs[c].Stop()
			for k := 0; k < perConn; k++ {
				subs[c].Put(&mocrelay.ClientReqMsg{SubscriptionID: fmt.Sprintf("s%d", k), ReqFilters: []*mocrelay.ReqFilter{{Kinds: []int64{1}}}})
				if _, ok := subs[c].Get(); !ok {
					rep.Inconclusive("C07: publisher-leaves scenario could not be set up")
					return
				}
			}
		}
		rounds, published := 10+r.IntN(10), 0
		for round := 0; round < rounds; round++ {
			evn := round
			ev := c07Event(r, &evn)
			ev.Kind = 1
			vk.Seal(ev)
			pub := vk.StartSession(ctx, router, 4)
			if !pub.Put(&mocrelay.ClientEventMsg{Event: ev}) {
				pub.Stop()
				continue
			}
			if r.IntN(4) != 0 {
				time.Sleep(time.Duration(r.IntN(300)) * time.Microsecond)
			}
			pub.Stop() // cancel, whatever the fan-out is doing
			accepted := false
			for {
				m, ok := pub.GetWithin(time.Millisecond)
				if !ok {
					break
				}
				if okm, is := m.(*mocrelay.ServerOKMsg); is && okm.EventID == ev.ID && okm.Accepted {
					accepted = true
				}
			}
			if !accepted {
				rep.Count("publisher_left_before_its_ok", 1)
				continue
			}
			published++
			rep.Eval(1)
			for c, sc := range subs {
				got := 0
				for got < perConn {
					m, ok := sc.GetWithin(vk.WaitBound / 4)
					if !ok {
						break
					}
					if em, is := m.(*mocrelay.ServerEventMsg); is && em.Event.ID == ev.ID {
						got++
					}
				}
				if got != perConn {
					rep.Violation("delivery/missing/publisher-left-after-its-ok", fmt.Sprintf("the publisher received the accepting OK for event %.8s and was cancelled right away: connection %d holds %d matching subscriptions that had been open for a long time, %d of them received the event", ev.ID, c, perConn, got),
						map[string]any{"subscriber_connections": nSubConn, "subscriptions_per_connection": perConn, "round": round})
					return
				}
			}
		}
		rep.Count("events_whose_publisher_left_right_after_the_ok", int64(published))
		rep.Nontrivial(fmt.Sprintf("publisher-leaves/%d/%d/%d", nSubConn, perConn, published))
	})
	pc.report(rep)
	rep.Require(rep.Counter("pairs_must") >= 50 && rep.Counter("pairs_must-not") >= 50 && rep.Counter("pairs_may") >= 10, "too few classified pairs")
	rep.Require(rep.Counter("backpressure_runs") >= int64(nBP*9/10), "back-pressure runs")
	rep.Require(rep.Counter("stalled_dropped") > 0, "back-pressure never overflowed a buffer")
	rep.Require(rep.Counter("hook_hits:router.publish.send") > 100, "verifPoint router.publish.send not reached")
	if rep.Counter("registry_observations") == 0 {
		rep.Inconclusive("C07: the router registry could not be observed by reflection (structure changed); the registry clause was not judged")
	}
}

func hashStr(s string) uint32 {
	var h uint32 = 2166136261
	for i := 0; i < len(s); i++ {
		h = (h ^ uint32(s[i])) * 16777619
	}
	return h
}
