// Package verifkit holds the oracles, generators and recorders shared by the
// runtime monitors in /verif/monitors. It is injected into the build of the
// repository as internal/verifkit by `go test -overlay`; nothing here shares code
// with the functions it judges.
package verifkit

import (
	"encoding/json"
	"fmt"
	"hash/fnv"
	"math/rand/v2"
	"os"
	"path/filepath"
	"runtime"
	"sort"
	"strconv"
	"strings"
	"sync"
	"sync/atomic"
	"testing"
	"time"
)

// ---------------------------------------------------------------------------
// environment

func Tier() string {
	if t := os.Getenv("VERIF_TIER"); t == "thorough" {
		return "thorough"
	}
	return "quick"
}

func Seed() int64 {
	s, err := strconv.ParseInt(os.Getenv("VERIF_SEED"), 10, 64)
	if err != nil {
		return 1
	}
	return s
}

// N picks the case count of the current tier.
func N(quick, thorough int) int {
	n := quick
	if Tier() == "thorough" {
		n = thorough
	}
	if os.Getenv("VERIF_SANITIZER") == "asan" {
		// the AddressSanitizer pass repeats a tenth of the workload (its point is the cgo boundary)
		n = max(1, n/10)
	}
	return n
}

func hash64(s string) uint64 {
	h := fnv.New64a()
	h.Write([]byte(s))
	return h.Sum64()
}

// RNG returns the deterministic generator of (seed, stream name, case index).
func RNG(stream string, idx int) *rand.Rand {
	return rand.New(rand.NewPCG(uint64(Seed())*0x9E3779B97F4A7C15^hash64(stream), uint64(idx)+1))
}

// Parallel runs fn(i) for i in [0,n) on GOMAXPROCS workers. Each case derives its
// own RNG from its index, so the case list does not depend on scheduling.
func Parallel(n int, fn func(i int)) {
	w := runtime.GOMAXPROCS(0)
	if w > n {
		w = n
	}
	if w < 1 {
		w = 1
	}
	var next atomic.Int64
	var wg sync.WaitGroup
	for k := 0; k < w; k++ {
		wg.Add(1)
		go func() {
			defer wg.Done()
			for {
				i := int(next.Add(1) - 1)
				if i >= n {
					return
				}
				fn(i)
			}
		}()
	}
	wg.Wait()
}

// ParallelW is Parallel with an explicit worker count.
func ParallelW(w, n int, fn func(i int)) {
	if w > n {
		w = n
	}
	if w < 1 {
		w = 1
	}
	var next atomic.Int64
	var wg sync.WaitGroup
	for k := 0; k < w; k++ {
		wg.Add(1)
		go func() {
			defer wg.Done()
			for {
				i := int(next.Add(1) - 1)
				if i >= n {
					return
				}
				fn(i)
			}
		}()
	}
	wg.Wait()
}

// ---------------------------------------------------------------------------
// report: evidence, violations, sanity gate

type violation struct {
	Signature string `json:"signature"`
	What      string `json:"what"`
	Replay    string `json:"replay"`
}

type Report struct {
	ID    string
	Level string
	Rule  string

	t     *testing.T
	start time.Time

	mu          sync.Mutex
	evaluations int64
	distinct    map[uint64]struct{}
	counters    map[string]int64
	sets        map[string]map[string]struct{}
	samples     []any
	perSig      map[string]int
	violations  []violation
	nviol       int64
	inconcl     []string
	thin        []string
	assumptions []string
	extra       map[string]any
}

func NewReport(t *testing.T, id, level string) *Report {
	return &Report{
		ID: id, Level: level, t: t, start: time.Now(),
		distinct: map[uint64]struct{}{},
		counters: map[string]int64{},
		sets:     map[string]map[string]struct{}{},
		perSig:   map[string]int{},
		extra:    map[string]any{},
	}
}

// Eval counts executed cases.
func (r *Report) Eval(n int) {
	r.mu.Lock()
	r.evaluations += int64(n)
	r.mu.Unlock()
}

// Nontrivial records one non-trivial case under a key that identifies it; the number
// of distinct keys is reported as distinct_nontrivial.
func (r *Report) Nontrivial(key string) {
	h := hash64(key)
	r.mu.Lock()
	r.distinct[h] = struct{}{}
	r.mu.Unlock()
}

func (r *Report) Count(name string, n int64) {
	r.mu.Lock()
	r.counters[name] += n
	r.mu.Unlock()
}

func (r *Report) Counter(name string) int64 {
	r.mu.Lock()
	defer r.mu.Unlock()
	return r.counters[name]
}

// Seen adds a member to a named set; the set sizes are reported (distinct classes,
// interleaving signatures, error strings, ...).
func (r *Report) Seen(set, member string) {
	r.mu.Lock()
	m := r.sets[set]
	if m == nil {
		m = map[string]struct{}{}
		r.sets[set] = m
	}
	if len(m) < 200000 {
		m[member] = struct{}{}
	}
	r.mu.Unlock()
}

func (r *Report) SetSize(set string) int {
	r.mu.Lock()
	defer r.mu.Unlock()
	return len(r.sets[set])
}

// Sample keeps up to 6 cases for the evidence file.
func (r *Report) Sample(v any) {
	r.mu.Lock()
	if len(r.samples) < 6 {
		r.samples = append(r.samples, v)
	}
	r.mu.Unlock()
}

func (r *Report) WantSample() bool {
	r.mu.Lock()
	defer r.mu.Unlock()
	return len(r.samples) < 6
}

func (r *Report) Set(key string, v any) {
	r.mu.Lock()
	r.extra[key] = v
	r.mu.Unlock()
}

func (r *Report) Assume(s string) {
	r.mu.Lock()
	r.assumptions = append(r.assumptions, s)
	r.mu.Unlock()
}

// Violation records a refuting observation. signature classifies the witness (it is
// what known_findings.json matches on), replay is written to a file of its own.
func (r *Report) Violation(signature, what string, replay any) {
	atomic.AddInt64(&r.nviol, 1)
	r.mu.Lock()
	defer r.mu.Unlock()
	r.perSig[signature]++
	if r.perSig[signature] > 3 || len(r.violations) >= 60 {
		return
	}
	dir := os.Getenv("VERIF_REPLAY_DIR")
	if dir == "" {
		dir = filepath.Join(os.TempDir(), "verif-replays", r.ID)
	}
	os.MkdirAll(dir, 0o755)
	name := fmt.Sprintf("%s-%s-seed%d-%d.json", r.ID, sanitize(signature), Seed(), r.perSig[signature])
	path := filepath.Join(dir, name)
	b, err := json.MarshalIndent(map[string]any{
		"property": r.ID, "signature": signature, "what": what,
		"seed": Seed(), "tier": Tier(), "witness": replay,
	}, "", " ")
	if err != nil {
		b = []byte(fmt.Sprintf("{\"property\":%q,\"signature\":%q,\"what\":%q,\"witness\":%q}", r.ID, signature, what, fmt.Sprintf("%+v", replay)))
	}
	os.WriteFile(path, b, 0o644)
	r.violations = append(r.violations, violation{signature, oneLine(what), path})
}

func (r *Report) Violations() int64 { return atomic.LoadInt64(&r.nviol) }

func (r *Report) Inconclusive(s string) {
	r.mu.Lock()
	r.inconcl = append(r.inconcl, s)
	r.mu.Unlock()
}

// Require is the sanity gate: a run that did not observe enough is not a pass.
func (r *Report) Require(ok bool, msg string) {
	if !ok {
		r.mu.Lock()
		r.thin = append(r.thin, msg)
		r.mu.Unlock()
	}
}

func sanitize(s string) string {
	var b strings.Builder
	for _, c := range s {
		if c >= 'a' && c <= 'z' || c >= 'A' && c <= 'Z' || c >= '0' && c <= '9' || c == '-' || c == '_' {
			b.WriteRune(c)
		} else {
			b.WriteByte('_')
		}
	}
	if b.Len() > 80 {
		return b.String()[:80]
	}
	return b.String()
}

func oneLine(s string) string {
	s = strings.ReplaceAll(s, "\n", " | ")
	if len(s) > 400 {
		s = s[:400] + "..."
	}
	return s
}

// Finish writes the evidence file and prints the protocol lines the driver reads.
func (r *Report) Finish() {
	r.mu.Lock()
	defer r.mu.Unlock()
	if len(r.samples) == 0 {
		r.samples = append(r.samples, map[string]any{"note": "no individual case was sampled in this run; counters of what was observed instead", "counters": r.counters})
	}
	cov := map[string]any{
		"evaluations":         r.evaluations,
		"distinct_nontrivial": len(r.distinct),
		"rule":                r.Rule,
		"samples":             r.samples,
		"counters":            r.counters,
	}
	sizes := map[string]int{}
	for k, m := range r.sets {
		sizes[k] = len(m)
		if len(m) <= 40 {
			var l []string
			for s := range m {
				l = append(l, s)
			}
			sort.Strings(l)
			cov["set:"+k] = l
		}
	}
	cov["distinct_sets"] = sizes
	for k, v := range r.extra {
		cov[k] = v
	}
	sigs := map[string]int{}
	for k, v := range r.perSig {
		sigs[k] = v
	}
	cov["violation_signatures"] = sigs
	ev := map[string]any{
		"property_id": r.ID,
		"tier":        Tier(),
		"seed":        Seed(),
		"level":       r.Level,
		"coverage":    cov,
		"assumptions": r.assumptions,
		"wall_s":      time.Since(r.start).Seconds(),
		"violations":  r.nviol,
	}
	if r.assumptions == nil {
		ev["assumptions"] = []string{}
	}
	path := os.Getenv("VERIF_EVIDENCE_FILE")
	if path == "" {
		path = filepath.Join(os.TempDir(), "verif-evidence-"+r.ID+".json")
	}
	b, err := json.MarshalIndent(ev, "", " ")
	if err != nil {
		fmt.Printf("VERIF-THIN evidence not serialisable: %v\n", err)
	} else if err := os.WriteFile(path, b, 0o644); err != nil {
		fmt.Printf("VERIF-THIN evidence not written: %v\n", err)
	}
	for _, v := range r.violations {
		fmt.Printf("VERIF-VIOLATION property=%s signature=%s replay=%s what=%s\n", r.ID, v.Signature, v.Replay, v.What)
	}
	for k, n := range r.perSig {
		if n > 3 {
			fmt.Printf("VERIF-NOTE property=%s signature=%s occurred %d times (3 replays kept)\n", r.ID, k, n)
		}
	}
	for _, s := range r.inconcl {
		fmt.Printf("VERIF-INCONCLUSIVE %s\n", oneLine(s))
	}
	for _, s := range r.thin {
		fmt.Printf("VERIF-THIN %s\n", oneLine(s))
	}
	fmt.Printf("VERIF-SUMMARY property=%s evaluations=%d distinct_nontrivial=%d violations=%d wall=%.1fs\n",
		r.ID, r.evaluations, len(r.distinct), r.nviol, time.Since(r.start).Seconds())
	fmt.Printf("VERIF-DONE property=%s\n", r.ID)
	if r.nviol > 0 && r.t != nil {
		r.t.Fail()
	}
}

// JSON renders v compactly for samples and witnesses.
func JSON(v any) string {
	b, err := json.Marshal(v)
	if err != nil {
		return fmt.Sprintf("%+v", v)
	}
	return string(b)
}
