package mocrelay_test

import (
	"bytes"
	"context"
	"encoding/json"
	"fmt"
	"io"
	"math"
	"runtime"
	"sort"
	"sync"
	"sync/atomic"
	"testing"
	"time"

	"github.com/anishathalye/porcupine"
	"github.com/high-moctane/mocrelay"
	vk "github.com/high-moctane/mocrelay/internal/verifkit"
)

// C15 — shared stores are race-free and linearizable under concurrent sessions.

// pointCtl is the callback installed at the repository's verifPoints: it counts visits
// and injects seeded-looking yields and short sleeps (its own state is atomic).
type pointCtl struct {
	ctr   atomic.Uint64
	hits  sync.Map // name -> *atomic.Int64
	sleep bool
	only  string // if set, delay only at points with this prefix
}

func (p *pointCtl) fn(name string) {
	c, ok := p.hits.Load(name)
	if !ok {
		c, _ = p.hits.LoadOrStore(name, new(atomic.Int64))
	}
	c.(*atomic.Int64).Add(1)
	if !p.sleep {
		return
	}
	if p.only != "" && (len(name) < len(p.only) || name[:len(p.only)] != p.only) {
		return
	}
	x := p.ctr.Add(0x9E3779B97F4A7C15)
	x ^= x >> 31
	x *= 0xBF58476D1CE4E5B9
	x ^= x >> 29
	switch x % 12 {
	case 0:
		time.Sleep(time.Duration(20+x>>8%200) * time.Microsecond)
	case 1, 2, 3:
		runtime.Gosched()
	}
}

func (p *pointCtl) report(rep *vk.Report) {
	p.hits.Range(func(k, v any) bool {
		rep.Count("hook_hits:"+k.(string), v.(*atomic.Int64).Load())
		return true
	})
}

type c15Store interface {
	do(op vk.CacheOp) (vk.CacheOut, bool)
	close()
}

type c15Direct struct{ c *mocrelay.EventCache }

func (d c15Direct) do(op vk.CacheOp) (vk.CacheOut, bool) {
	switch op.Kind {
	case "add":
		return vk.CacheOut{Flag: d.c.Add(op.Event)}, true
	case "find":
		return vk.CacheOut{IDs: vk.IDsOf(d.c.Find(op.Filters))}, true
	}
	return vk.CacheOut{N: d.c.Len()}, true
}
func (d c15Direct) close() {}

// c15Sess drives the store through one CacheHandler session (EVENT->OK, REQ->events+EOSE).
type c15Sess struct {
	s *vk.Session
	n int
}

func (d *c15Sess) do(op vk.CacheOp) (vk.CacheOut, bool) {
	switch op.Kind {
	case "add":
		if !d.s.Put(&mocrelay.ClientEventMsg{Event: op.Event}) {
			return vk.CacheOut{}, false
		}
		m, ok := d.s.Get()
		o, is := m.(*mocrelay.ServerOKMsg)
		if !ok || !is {
			return vk.CacheOut{}, false
		}
		return vk.CacheOut{Flag: o.Accepted}, true
	case "find":
		d.n++
		sub := fmt.Sprintf("q%d", d.n)
		if !d.s.Put(&mocrelay.ClientReqMsg{SubscriptionID: sub, ReqFilters: op.Filters}) {
			return vk.CacheOut{}, false
		}
		var evs []*mocrelay.Event
		for {
			m, ok := d.s.Get()
			if !ok {
				return vk.CacheOut{}, false
			}
			if _, is := m.(*mocrelay.ServerEOSEMsg); is {
				// which events answer a REQ is the store's query result; the order in which a
				// handler sends them is not stated anywhere (timestamps are distinct here)
				sort.SliceStable(evs, func(a, b int) bool { return evs[a].CreatedAt > evs[b].CreatedAt })
				return vk.CacheOut{IDs: vk.IDsOf(evs)}, true
			}
			if e, is := m.(*mocrelay.ServerEventMsg); is {
				evs = append(evs, e.Event)
			}
		}
	}
	return vk.CacheOut{}, false
}
func (d *c15Sess) close() { d.s.Stop() }

func TestVerif_C15(t *testing.T) {
	rep := vk.NewReport(t, "C15", "exploration")
	rep.Rule = "(a) 2-8 goroutines issue Add/Find/Len on one EventCache (capacity 2-6, 8-24 related events: versions of the same addresses, deletion requests and their targets, duplicates; pairwise distinct created_at so the sequential specification is deterministic); every operation is stamped call/return on one logical clock and the history is checked for linearizability against the retention/query specification with porcupine (timeout => inconclusive); (b) the same through concurrent CacheHandler sessions (EVENT->OK, REQ->events+EOSE); (c) a long stress mix with concurrent listings judged by the store invariants; (e) queries and a publishing session during Restore of a dump larger than the capacity (every answer within capacity; every event acknowledged during the restore, newer than all others, is stored afterwards); (f) dumps of a 600-900 event cache through a slow writer while three sessions replace pinned addresses and delete notes: every dump satisfies the invariants and lists each pinned address exactly once; the race detector watches all of it; verifPoint callbacks inject yields/sleeps between the phases of Add and inside Find; added later: one history in three is query-heavy over two or three fixed filter lists; (g) a deletion request naming 130-530 stored notes inserted while three goroutines list; (h) a session inserting while 2-4 goroutines repeat one query: a query started after Add returned lists the inserted event; non-trivial = a history with at least one pair of overlapping operations of different clients; distinct = distinct histories (hash of the stamped operation sequence)"
	defer rep.Finish()
	pc := &pointCtl{sleep: true}
	mocrelay.SetVerifPoint(pc.fn)
	defer mocrelay.SetVerifPoint(nil)
	ctx := context.Background()

	nHist := vk.N(2500, 50000)
	var unknown atomic.Int64
	vk.ParallelW(max(2, runtime.GOMAXPROCS(0)/3), nHist, func(i int) {
		r := vk.RNG("C15", i)
		g := vk.NewStoreGen(r, 2+r.IntN(2), 40)
		g.UniqueTimes = true
		capacity := 2 + r.IntN(5)
		nev := 8 + r.IntN(17)
		for k := 0; k < nev; k++ {
			g.Next()
		}
		pool := g.Offered
		fg := &vk.FilterGen{R: r, Events: pool, Authors: g.Authors, TimeLo: g.TimeBase, TimeHi: g.TimeBase + g.TimeRange}
		nclients := 2 + r.IntN(7)
		nops := 12 + r.IntN(49)
		lists := make([][]vk.CacheOp, nclients)
		// one history in three is query-heavy and asks the same two or three questions over and
		// over (many clients sending the same REQ while a few events come in)
		var favourite [][]*mocrelay.ReqFilter
		if i%3 == 1 {
			favourite = [][]*mocrelay.ReqFilter{{{}}, fg.Filters(2)}
			if r.IntN(2) == 0 {
				favourite = append(favourite, []*mocrelay.ReqFilter{{Authors: g.Authors[:1]}})
			}
			rep.Count("query_heavy_histories", 1)
		}
		for k := 0; k < nops; k++ {
			var op vk.CacheOp
			switch c := r.IntN(10); {
			case favourite != nil && c >= 3 && c < 9:
				op = vk.CacheOp{Kind: "find", Filters: vk.Pick(r, favourite)}
			case c < 6:
				op = vk.CacheOp{Kind: "add", Event: vk.Pick(r, pool)}
			case c < 9:
				switch r.IntN(3) {
				case 0:
					op = vk.CacheOp{Kind: "find", Filters: []*mocrelay.ReqFilter{{}}}
				case 1:
					op = vk.CacheOp{Kind: "find", Filters: fg.Filters(2)}
				default: // the listing again, spelled as a query by id for every event of the pool
					ids := make([]string, len(pool))
					for j, e := range pool {
						ids[j] = e.ID
					}
					op = vk.CacheOp{Kind: "find", Filters: []*mocrelay.ReqFilter{{IDs: ids}}}
				}
			default:
				op = vk.CacheOp{Kind: "len"}
			}
			w := r.IntN(nclients)
			lists[w] = append(lists[w], op)
		}
		viaHandler := i%4 == 3
		cache := mocrelay.NewEventCache(capacity)
		var handler mocrelay.CacheHandler
		if viaHandler {
			handler = mocrelay.NewCacheHandler(capacity)
		}
		var mu sync.Mutex
		var ops []porcupine.Operation
		var wg sync.WaitGroup
		start := make(chan struct{})
		failed := atomic.Bool{}
		for w := 0; w < nclients; w++ {
			var st c15Store
			if viaHandler {
				st = &c15Sess{s: vk.StartSession(ctx, handler, 64)}
			} else {
				st = c15Direct{cache}
			}
			wg.Add(1)
			go func(w int, st c15Store, list []vk.CacheOp) {
				defer wg.Done()
				defer st.close()
				<-start
				for _, op := range list {
					if viaHandler && op.Kind == "len" {
						continue
					}
					call := vk.Tick()
					out, ok := st.do(op)
					ret := vk.Tick()
					if !ok {
						failed.Store(true)
						return
					}
					mu.Lock()
					ops = append(ops, porcupine.Operation{ClientId: w, Input: op, Call: call, Output: out, Return: ret})
					mu.Unlock()
				}
			}(w, st, lists[w])
		}
		close(start)
		wg.Wait()
		rep.Eval(1)
		if failed.Load() {
			rep.Violation("session/no-reply", "a CacheHandler session did not answer an EVENT or REQ", map[string]any{"capacity": capacity, "history": vk.DescribeHistory(ops)})
			return
		}
		ov := vk.OverlapPairs(ops)
		rep.Count("operations", int64(len(ops)))
		rep.Count("overlapping_operation_pairs", int64(ov))
		verdict := vk.CheckLinearizable(capacity, ops, 20*time.Second)
		rep.Count("porcupine_"+verdict, 1)
		if viaHandler {
			rep.Count("histories_via_handler_sessions", 1)
		}
		if ov > 0 {
			rep.Nontrivial(fmt.Sprint(vk.DescribeHistory(ops)))
		}
		switch verdict {
		case "illegal":
			rep.Violation("linearizability/illegal-history", "no sequential order of the operations consistent with real time explains the observed results",
				map[string]any{"capacity": capacity, "via_handler": viaHandler, "history": vk.DescribeHistory(ops)})
		case "unknown":
			unknown.Add(1)
		}
		if rep.WantSample() {
			rep.Sample(map[string]any{"capacity": capacity, "clients": nclients, "history": vk.DescribeHistory(ops)[:min(10, len(ops))]})
		}
	})
	if u := unknown.Load(); u > 0 {
		rep.Inconclusive(fmt.Sprintf("C15: porcupine timed out on %d of %d histories", u, nHist))
	}

	// (c) stress with invariant probes
	rounds := vk.N(6, 60)
	for round := 0; round < rounds; round++ {
		r := vk.RNG("C15/stress", round)
		capacity := 5 + r.IntN(60)
		cache := mocrelay.NewEventCache(capacity)
		handler := mocrelay.NewCacheHandler(capacity)
		g := vk.NewStoreGen(r, 3, 50)
		for k := 0; k < 1500; k++ {
			g.Next()
		}
		pool := g.Offered
		var writers, readers sync.WaitGroup
		stop := atomic.Bool{}
		for w := 0; w < 6; w++ {
			writers.Add(1)
			go func(w int) {
				defer writers.Done()
				rr := vk.RNG("C15/stress/w", round*100+w)
				var sess *vk.Session
				if w%3 == 2 {
					sess = vk.StartSession(ctx, handler, 8)
					defer sess.Stop()
				}
				for k := 0; k < 1200; k++ {
					e := pool[rr.IntN(len(pool))]
					if sess != nil {
						sess.Put(&mocrelay.ClientEventMsg{Event: e})
						sess.Get()
					} else {
						cache.Add(e)
					}
				}
			}(w)
		}
		var bad atomic.Int64
		for w := 0; w < 4; w++ {
			readers.Add(1)
			go func(w int) {
				defer readers.Done()
				rr := vk.RNG("C15/stress/r", round*100+w)
				fg := &vk.FilterGen{R: rr, Events: pool, Authors: g.Authors, TimeLo: g.TimeBase, TimeHi: g.TimeBase + g.TimeRange}
				for !stop.Load() {
					var fs []*mocrelay.ReqFilter
					switch rr.IntN(3) {
					case 0:
						fs = []*mocrelay.ReqFilter{{}}
					case 1:
						fs = fg.Filters(2)
					default:
						ids := make([]string, len(pool))
						for j, e := range pool {
							ids[j] = e.ID
						}
						fs = []*mocrelay.ReqFilter{{IDs: ids}}
					}
					L := cache.Find(fs)
					rep.Count("concurrent_listings", 1)
					sig, why := vk.CheckInvariants(capacity, L)
					if sig == "" {
						// any answer must be ordered and made of matching events
						for k, x := range L {
							if k > 0 && L[k-1].CreatedAt < x.CreatedAt {
								sig, why = "query/order", "concurrent listing not ordered by created_at"
							}
							if !vk.RefMatchAny(fs, x) {
								sig, why = "query/non-matching", "concurrent answer contains an event matching no filter"
							}
						}
					}
					_ = cache.Len()
					if sig != "" && bad.Add(1) <= 3 {
						rep.Violation("concurrent/"+sig, why, map[string]any{"capacity": capacity, "filters": fs, "listing": shortIDs(L)})
					}
				}
			}(w)
		}
		wdone := make(chan struct{})
		go func() { writers.Wait(); close(wdone) }()
		select {
		case <-wdone:
		case <-time.After(180 * time.Second):
			rep.Inconclusive("C15: stress writers did not finish within 180 s")
		}
		stop.Store(true)
		readers.Wait()
		rep.Eval(1)
		rep.Count("stress_rounds", 1)
	}
	// (d) the router's shared registry (safeMap) under concurrent subscribe / close /
	// disconnect / publish: the race detector (and the runtime's concurrent-map check)
	// are the oracle here; delivery semantics are C07's subject
	for round := 0; round < vk.N(3, 30); round++ {
		router := mocrelay.NewRouterHandler(4)
		var wg sync.WaitGroup
		for w := 0; w < 6; w++ {
			wg.Add(1)
			go func(w int) {
				defer wg.Done()
				rr := vk.RNG("C15/router", round*16+w)
				for k := 0; k < 120; k++ {
					s := vk.StartSession(ctx, router, 16)
					for j := 0; j < 1+rr.IntN(4); j++ {
						sub := vk.Pick(rr, []string{"a", "b", "c"})
						if rr.IntN(3) == 0 {
							s.Put(&mocrelay.ClientCloseMsg{SubscriptionID: sub})
						} else {
							s.Put(&mocrelay.ClientReqMsg{SubscriptionID: sub, ReqFilters: []*mocrelay.ReqFilter{{Kinds: []int64{1}}}})
						}
					}
					if rr.IntN(2) == 0 {
						s.CloseRecv()
						s.WaitDone()
					} else {
						s.Stop()
					}
					rep.Count("router_sessions", 1)
				}
			}(w)
		}
		for w := 0; w < 2; w++ {
			wg.Add(1)
			go func(w int) {
				defer wg.Done()
				s := vk.StartSession(ctx, router, 16)
				defer s.Stop()
				for k := 0; k < 400; k++ {
					e := vk.Seal(&mocrelay.Event{Kind: 1, Pubkey: vk.FakePub(w), CreatedAt: int64(k), Content: fmt.Sprintf("r%d-%d-%d", round, w, k)})
					if !s.Put(&mocrelay.ClientEventMsg{Event: e}) {
						return
					}
					s.Get()
				}
			}(w)
		}
		wg.Wait()
		rep.Eval(1)
	}
	// (e) Restore of a dump much larger than the capacity while other sessions query:
	// no answer may ever show more than capacity events (or break the other invariants)
	for round := 0; round < vk.N(2, 30); round++ {
		r := vk.RNG("C15/restore", round)
		big := mocrelay.NewCacheHandler(5000)
		g := vk.NewStoreGen(r, 3, 2000)
		g.NoDeletion = true
		src := vk.StartSession(ctx, big, 4)
		for k := 0; k < 700; k++ {
			src.Put(&mocrelay.ClientEventMsg{Event: g.Next()})
			src.Get()
		}
		src.Stop()
		var dump bytes.Buffer
		if err := big.Dump(&dump); err != nil {
			rep.Inconclusive("C15: dump failed: " + err.Error())
			continue
		}
		capacity := 10 + r.IntN(40)
		h := mocrelay.NewCacheHandler(capacity)
		stop := atomic.Bool{}
		var rd sync.WaitGroup
		var bad atomic.Int64
		for w := 0; w < 3; w++ {
			rd.Add(1)
			go func(w int) {
				defer rd.Done()
				s := vk.StartSession(ctx, h, 0)
				defer s.Stop()
				n := 0
				for !stop.Load() {
					n++
					sub := fmt.Sprintf("r%d", n)
					if !s.Put(&mocrelay.ClientReqMsg{SubscriptionID: sub, ReqFilters: []*mocrelay.ReqFilter{{}}}) {
						return
					}
					var L []*mocrelay.Event
					for {
						m, ok := s.Get()
						if !ok {
							return
						}
						if _, is := m.(*mocrelay.ServerEOSEMsg); is {
							break
						}
						if e, is := m.(*mocrelay.ServerEventMsg); is {
							L = append(L, e.Event)
						}
					}
					rep.Count("listings_during_restore", 1)
					if sig, why := vk.CheckInvariants(capacity, L); sig != "" && bad.Add(1) <= 2 {
						rep.Violation("concurrent/restore/"+sig, "a query answered while Restore was running: "+why, map[string]any{"capacity": capacity, "listed": len(L)})
					}
				}
			}(w)
		}
		// and one session publishes a few events that are newer than everything in the dump
		// (the newest events are never the ones evicted): each is acknowledged as stored while
		// the restore runs, so each must be there afterwards
		var acked []*mocrelay.Event
		pubDone := make(chan struct{})
		go func() {
			defer close(pubDone)
			s := vk.StartSession(ctx, h, 4)
			defer s.Stop()
			time.Sleep(time.Duration(1000+r.IntN(1500)) * time.Microsecond) // usually just after the restore has begun
			for k := 0; k < 4; k++ {
				e := vk.Seal(&mocrelay.Event{Kind: 1, Pubkey: vk.FakePub(1590), CreatedAt: math.MaxInt64 - int64(k), Tags: []mocrelay.Tag{}, Content: fmt.Sprintf("published during restore %d/%d", round, k)})
				if !s.Put(&mocrelay.ClientEventMsg{Event: e}) {
					return
				}
				if m, ok := s.Get(); ok {
					if okm, is := m.(*mocrelay.ServerOKMsg); is && okm.Accepted {
						acked = append(acked, e)
					}
				}
				time.Sleep(time.Duration(100+200*k) * time.Microsecond)
			}
		}()
		time.Sleep(time.Millisecond)
		if err := h.Restore(bytes.NewReader(dump.Bytes())); err != nil {
			rep.Inconclusive("C15: restore failed: " + err.Error())
		}
		stop.Store(true)
		rd.Wait()
		<-pubDone
		if len(acked) > 0 {
			chk := vk.StartSession(ctx, h, 64)
			ids := make([]string, len(acked))
			for k, e := range acked {
				ids[k] = e.ID
			}
			chk.Put(&mocrelay.ClientReqMsg{SubscriptionID: "acked", ReqFilters: []*mocrelay.ReqFilter{{IDs: ids}}})
			found := map[string]bool{}
			for {
				m, ok := chk.Get()
				if !ok {
					break
				}
				if _, is := m.(*mocrelay.ServerEOSEMsg); is {
					break
				}
				if em, is := m.(*mocrelay.ServerEventMsg); is {
					found[em.Event.ID] = true
				}
			}
			chk.Stop()
			rep.Count("events_acknowledged_during_restore", int64(len(acked)))
			for _, e := range acked {
				if !found[e.ID] {
					rep.Violation("concurrent/restore/acknowledged-event-lost", fmt.Sprintf("event %.8s was answered OK true by a session while Restore was running (it is newer than every other event, capacity %d), but it is not stored afterwards: no sequential order of the operations explains that", e.ID, capacity), map[string]any{"capacity": capacity, "acknowledged": len(acked), "found": len(found)})
					break
				}
			}
		}
		rep.Eval(1)
	}
	// (f) Dump of a cache with several hundred events while other sessions replace versions of
	// pinned addresses (never deleted, capacity never reached: every sequential state holds
	// exactly one version of each) and delete notes with deletion requests that sort last:
	// every dump must be a state of the store, i.e. satisfy the invariants and list every
	// pinned address exactly once.
	for round := 0; round < vk.N(2, 24); round++ {
		r := vk.RNG("C15/dump", round)
		const capacity = 6000
		h := mocrelay.NewCacheHandler(capacity)
		nPinned, nNotes := 250+r.IntN(100), 350+r.IntN(200)
		authors := []string{vk.FakePub(1500), vk.FakePub(1501), vk.FakePub(1502)}
		pinnedAddr := make([]string, nPinned)
		pinnedAuthor := make([]string, nPinned)
		notes := make([]*mocrelay.Event, nNotes)
		fill := vk.StartSession(ctx, h, 4)
		put := func(s *vk.Session, e *mocrelay.Event) bool {
			if !s.Put(&mocrelay.ClientEventMsg{Event: e}) {
				return false
			}
			_, ok := s.Get()
			return ok
		}
		okFill := true
		for i := 0; i < nPinned && okFill; i++ {
			pinnedAuthor[i] = authors[i%3]
			d := fmt.Sprintf("pinned-%d", i)
			pinnedAddr[i] = fmt.Sprintf("30000:%s:%s", pinnedAuthor[i], d)
			okFill = put(fill, vk.Seal(&mocrelay.Event{Kind: 30000, Pubkey: pinnedAuthor[i], CreatedAt: int64(1000 + i), Tags: []mocrelay.Tag{{"d", d}}, Content: "v0"}))
		}
		for j := 0; j < nNotes && okFill; j++ {
			notes[j] = vk.Seal(&mocrelay.Event{Kind: 1, Pubkey: authors[j%3], CreatedAt: int64(2000 + j), Tags: []mocrelay.Tag{}, Content: fmt.Sprintf("note %d of round %d", j, round)})
			okFill = put(fill, notes[j])
		}
		fill.Stop()
		if !okFill {
			rep.Inconclusive("C15: could not fill the cache for the dump scenario")
			continue
		}
		var stop atomic.Bool
		var version, nextNote atomic.Int64
		var wr sync.WaitGroup
		for w := 0; w < 3; w++ {
			wr.Add(1)
			go func(w int) {
				defer wr.Done()
				rr := vk.RNG("C15/dump/w", round*10+w)
				s := vk.StartSession(ctx, h, 4)
				defer s.Stop()
				for !stop.Load() {
					if rr.IntN(2) == 0 {
						i := rr.IntN(nPinned)
						v := version.Add(1)
						if !put(s, vk.Seal(&mocrelay.Event{Kind: 30000, Pubkey: pinnedAuthor[i], CreatedAt: 5000 + v, Tags: []mocrelay.Tag{{"d", fmt.Sprintf("pinned-%d", i)}}, Content: fmt.Sprintf("v%d", v)})) {
							return
						}
						rep.Count("dump_scenario_replacements", 1)
					} else if j := int(nextNote.Add(1)) - 1; j < nNotes {
						// the request is older than everything else: it is listed last
						if !put(s, vk.Seal(&mocrelay.Event{Kind: 5, Pubkey: notes[j].Pubkey, CreatedAt: int64(10 + j), Tags: []mocrelay.Tag{{"e", notes[j].ID}}, Content: ""})) {
							return
						}
						rep.Count("dump_scenario_deletions", 1)
					}
					time.Sleep(time.Duration(50+rr.IntN(400)) * time.Microsecond)
				}
			}(w)
		}
		nDumps := vk.N(20, 40)
		for k := 0; k < nDumps && rep.Violations() < 3; k++ {
			var buf bytes.Buffer
			if err := h.Dump(&yieldingWriter{w: &buf}); err != nil {
				rep.Inconclusive("C15: dump failed: " + err.Error())
				break
			}
			var L []*mocrelay.Event
			if err := json.Unmarshal(buf.Bytes(), &L); err != nil {
				rep.Violation("concurrent/dump/not-json", "a dump taken while other sessions were writing is not a JSON list of events: "+err.Error(), map[string]any{"bytes": buf.Len()})
				break
			}
			rep.Count("dumps_during_writes", 1)
			rep.Count("events_in_dumps_during_writes", int64(len(L)))
			if sig, why := vk.CheckInvariants(capacity, L); sig != "" {
				rep.Violation("concurrent/dump/"+sig, "a dump taken while other sessions were writing is not a state of the store: "+why, map[string]any{"listed": len(L), "dump_number": k})
				break
			}
			seen := map[string]int{}
			for _, e := range L {
				if e.Kind == 30000 {
					seen[vk.Address(e)]++
				}
			}
			for i, a := range pinnedAddr {
				if seen[a] != 1 {
					rep.Violation("concurrent/dump/pinned-address-listed-"+fmt.Sprint(min(seen[a], 2))+"-times", fmt.Sprintf("address %s always has exactly one stored version (it is only ever replaced, capacity %d is never reached), but a dump taken during the writes lists %d", a, capacity, seen[a]), map[string]any{"listed": len(L), "pinned_index": i, "dump_number": k})
					break
				}
			}
		}
		stop.Store(true)
		wr.Wait()
		rep.Eval(1)
	}
	// (g) one deletion request that names several hundred stored notes of its author (a single
	// insertion, however long it takes) while other goroutines list that author's events: no
	// listing may show the request together with a note it names, and once the request is
	// listed every later listing shows it alone.
	for round := 0; round < vk.N(12, 150) && rep.Violations() < 3; round++ {
		r := vk.RNG("C15/bigdel", round)
		c := mocrelay.NewEventCache(5000)
		author := vk.FakePub(1700 + r.IntN(3))
		n := 130 + r.IntN(400)
		k := &mocrelay.Event{Kind: 5, Pubkey: author, CreatedAt: 9000, Content: fmt.Sprintf("big deletion %d", round), Tags: []mocrelay.Tag{}}
		for i := 0; i < n; i++ {
			e := vk.Seal(&mocrelay.Event{Kind: 1, Pubkey: author, CreatedAt: int64(1000 + i), Content: fmt.Sprintf("note %d of round %d", i, round), Tags: []mocrelay.Tag{}})
			c.Add(e)
			k.Tags = append(k.Tags, mocrelay.Tag{"e", e.ID})
		}
		for i := 0; i < 20; i++ { // bystanders of another author
			c.Add(vk.Seal(&mocrelay.Event{Kind: 1, Pubkey: vk.FakePub(1710), CreatedAt: int64(1000 + i), Content: fmt.Sprintf("bystander %d of round %d", i, round), Tags: []mocrelay.Tag{}}))
		}
		vk.Seal(k)
		var done atomic.Bool
		var wg sync.WaitGroup
		for g := 0; g < 3; g++ {
			wg.Add(1)
			go func(g int) {
				defer wg.Done()
				fs := []*mocrelay.ReqFilter{{Authors: []string{author}}}
				if g == 1 {
					fs = []*mocrelay.ReqFilter{{}}
				}
				sawK := false
				for last := false; ; {
					if done.Load() {
						last = true // one more listing after the insertion returned
					}
					L := c.Find(fs)
					rep.Count("listings_during_a_big_deletion", 1)
					hasK, targets := false, 0
					for _, x := range L {
						if x.ID == k.ID {
							hasK = true
						} else if x.Pubkey == author {
							targets++
						}
					}
					if hasK && targets > 0 {
						rep.Violation("concurrent/big-deletion/request-listed-with-its-targets", fmt.Sprintf("a listing taken while a deletion request naming %d notes was being inserted shows the request together with %d of the notes it names", n, targets),
							map[string]any{"targets_named": n, "listed": len(L)})
						return
					}
					if sawK && !hasK {
						rep.Violation("concurrent/big-deletion/request-vanished", "a listing shows the deletion request and a later one does not", map[string]any{"targets_named": n})
						return
					}
					sawK = sawK || hasK
					if last {
						if !hasK || targets > 0 {
							rep.Violation("concurrent/big-deletion/outcome", fmt.Sprintf("after the insertion returned the listing has request=%v and %d of its targets", hasK, targets), map[string]any{"targets_named": n})
						}
						return
					}
				}
			}(g)
		}
		time.Sleep(time.Duration(r.IntN(300)) * time.Microsecond)
		c.Add(k)
		done.Store(true)
		wg.Wait()
		rep.Eval(1)
		rep.Count("big_deletion_rounds", 1)
	}
	// (h) many clients ask the same question over and over while one session inserts: a query
	// that starts after an insertion has returned lists the inserted event (nothing is ever
	// removed here: capacity is never reached and there are no deletion requests)
	for round := 0; round < vk.N(60, 800) && rep.Violations() < 3; round++ {
		r := vk.RNG("C15/ryw", round)
		c := mocrelay.NewEventCache(100000)
		author := vk.FakePub(1800 + r.IntN(3))
		fs := vk.Pick(r, [][]*mocrelay.ReqFilter{{{}}, {{Authors: []string{author}}}, {{Kinds: []int64{1}}, {Authors: []string{author}, Limit: vk.Ptr(int64(1000))}}})
		var stop atomic.Bool
		var wg sync.WaitGroup
		for q := 0; q < 2+r.IntN(3); q++ {
			wg.Add(1)
			go func() {
				defer wg.Done()
				for !stop.Load() {
					c.Find(fs)
					rep.Count("repeated_identical_queries", 1)
				}
			}()
		}
		n := 30 + r.IntN(60)
		for j := 0; j < n; j++ {
			e := vk.Seal(&mocrelay.Event{Kind: 1, Pubkey: author, CreatedAt: int64(1000 + j), Content: fmt.Sprintf("ryw %d %d", round, j), Tags: []mocrelay.Tag{}})
			added := c.Add(e)
			found := false
			for _, x := range c.Find(fs) {
				if x.ID == e.ID {
					found = true
				}
			}
			rep.Eval(1)
			if !added || !found {
				rep.Violation("concurrent/read-your-write/inserted-event-not-listed", fmt.Sprintf("Add returned %v for a new event and a matching query started afterwards lists it: %v (other goroutines were repeating the same query)", added, found), map[string]any{"filters": vk.JSON(fs), "insertion_number": j})
				break
			}
			if r.IntN(3) == 0 {
				runtime.Gosched()
			}
		}
		stop.Store(true)
		wg.Wait()
		rep.Count("read_your_write_rounds", 1)
	}
	pc.report(rep)
	rep.Require(rep.Counter("big_deletion_rounds") >= 10, "big deletion rounds")
	rep.Require(rep.Counter("listings_during_restore") > 10, "listings during restore")
	rep.Require(rep.Counter("dumps_during_writes") >= 30 && rep.Counter("dump_scenario_deletions") > 100 && rep.Counter("dump_scenario_replacements") > 100, "dumps during writes")
	rep.Require(rep.Counter("router_sessions") > 500, "router sessions")
	rep.Require(rep.Counter("porcupine_ok")+rep.Counter("porcupine_illegal") >= int64(nHist*95/100), "more than 5% of the histories were inconclusive")
	rep.Require(rep.Counter("overlapping_operation_pairs") > int64(nHist), "too little overlap between clients")
	rep.Require(rep.Counter("hook_hits:cache.add.checked") > 1000 && rep.Counter("hook_hits:cache.find.locked") > 1000, "verifPoints not reached")
	rep.Require(rep.Counter("concurrent_listings") > 1000, "too few concurrent listings")
}

// yieldingWriter hands the processor over on every Write (a dump that goes to a pipe or a file).
type yieldingWriter struct{ w io.Writer }

func (y *yieldingWriter) Write(p []byte) (int, error) {
	runtime.Gosched()
	time.Sleep(20 * time.Microsecond)
	return y.w.Write(p)
}
