package mocrelay_test

import (
	"fmt"
	"math"
	"math/rand/v2"
	"reflect"
	"strings"
	"sync"
	"testing"

	"github.com/high-moctane/mocrelay"
	vk "github.com/high-moctane/mocrelay/internal/verifkit"
)

// C02 — filter matching equals the NIP-01 predicate; limit-counting form.

type c02Universe struct {
	ids, authors []string
	kinds        []int64
	tagNames     []string
	tagVals      []string
}

var c02U = c02Universe{
	// the last id / author is the first one spelled in upper case: a different string
	ids:      []string{vk.HexOf("c02 id 0"), vk.HexOf("c02 id 1"), vk.HexOf("c02 id 2"), vk.HexOf("c02 id 3"), strings.ToUpper(vk.HexOf("c02 id 0"))},
	authors:  []string{vk.FakePub(0), vk.FakePub(1), vk.FakePub(2), strings.ToUpper(vk.FakePub(0))},
	kinds:    []int64{0, 1, 5, 30000},
	tagNames: []string{"e", "p", "t", "E", "client", "expiration", "title", "pow", "Emoji"},
	// "itle" and "ow": a multi-letter tag name followed by its value must not read like a
	// one-letter name with a longer value (["title",""] vs #t:["itle"], ["pow",""] vs #p:["ow"])
	// two 70-byte values (the length of an address kind:pubkey:d) that agree in their first 64 bytes
	tagVals: []string{"", "v1", "v2", "itle", "ow", "30023:" + strings.Repeat("a", 58) + ":one..", "30023:" + strings.Repeat("a", 58) + ":two.."},
}

// c02Edges are the boundary timestamps: the ends of the int64 range, the values around
// which conversions to time.Time / float64 / int32 wrap or lose precision, and -1/0.
var c02Edges = []int64{
	math.MinInt64, math.MinInt64 + 1, -62135596801, -62135596800, -1 << 31, -1, 0,
	1<<31 - 1, 1 << 31, 1<<32 - 1, 1 << 32, 253402300799, 253402300800, 1 << 53, 1<<53 + 1,
	9223371974719179007, 9223371974719179008, 1 << 62, math.MaxInt64 - 1, math.MaxInt64,
}

// c02Time draws a timestamp: mostly from the tiny window 0..5+off, one time in eight an edge value.
func c02Time(r *rand.Rand, n, off int) int64 {
	if r.IntN(8) == 0 {
		v := vk.Pick(r, c02Edges)
		if r.IntN(4) == 0 && v > math.MinInt64 && v < math.MaxInt64 {
			v += int64(r.IntN(3) - 1)
		}
		return v
	}
	return int64(r.IntN(n) + off)
}

func c02Event(r *rand.Rand) *mocrelay.Event {
	e := &mocrelay.Event{
		ID:        vk.Pick(r, c02U.ids),
		Pubkey:    vk.Pick(r, c02U.authors),
		Kind:      vk.Pick(r, c02U.kinds),
		CreatedAt: c02Time(r, 6, 0),
		Tags:      []mocrelay.Tag{},
	}
	nt := r.IntN(6)
	if nt == 0 && r.IntN(2) == 0 {
		e.Tags = nil // no tags at all, as a nil list
	}
	for i := 0; i < nt; i++ {
		name := vk.Pick(r, c02U.tagNames)
		switch r.IntN(6) {
		case 0: // tag of length 1: value is ""
			e.Tags = append(e.Tags, mocrelay.Tag{name})
		case 1: // extra elements
			e.Tags = append(e.Tags, mocrelay.Tag{name, vk.Pick(r, c02U.tagVals), vk.Pick(r, c02U.tagVals)})
		default:
			e.Tags = append(e.Tags, mocrelay.Tag{name, vk.Pick(r, c02U.tagVals)})
		}
	}
	return e
}

func c02Sub[T any](r *rand.Rand, xs []T, extra T) []T {
	// nil is produced by the caller; here: empty / singleton / multi
	switch r.IntN(4) {
	case 0:
		return []T{}
	case 1:
		return []T{vk.Pick(r, xs)}
	case 2:
		return []T{vk.Pick(r, xs), vk.Pick(r, xs)}
	default:
		out := []T{extra}
		for _, x := range xs {
			if r.IntN(2) == 0 {
				out = append(out, x)
			}
		}
		return out
	}
}

func c02Filter(r *rand.Rand, withLimit bool) *mocrelay.ReqFilter {
	f := &mocrelay.ReqFilter{}
	if r.IntN(3) == 0 {
		f.IDs = c02Sub(r, c02U.ids, vk.HexOf("absent id"))
	}
	if r.IntN(3) == 0 {
		f.Authors = c02Sub(r, c02U.authors, vk.FakePub(99))
	}
	if r.IntN(3) == 0 {
		f.Kinds = c02Sub(r, c02U.kinds, int64(7))
	}
	if r.IntN(3) == 0 {
		f.Tags = map[string][]string{}
		n := 1 + r.IntN(3)
		for i := 0; i < n; i++ {
			// filter keys are single letters (what the wire format allows)
			name := vk.Pick(r, []string{"e", "p", "t", "E"})
			f.Tags[name] = c02Sub(r, c02U.tagVals, "absent")
		}
	}
	if f.Tags == nil && r.IntN(12) == 0 {
		f.Tags = map[string][]string{} // present, without an entry: no tag condition at all
	}
	if r.IntN(3) == 0 {
		f.Since = vk.Ptr(c02Time(r, 8, -1))
	}
	if r.IntN(3) == 0 {
		f.Until = vk.Ptr(c02Time(r, 8, -1))
	}
	if withLimit && r.IntN(2) == 0 {
		f.Limit = vk.Ptr(int64(r.IntN(4)))
	}
	return f
}

func TestVerif_C02(t *testing.T) {
	rep := vk.NewReport(t, "C02", "exploration")
	rep.Rule = "events and filters drawn from a tiny universe (4 ids and 3 authors plus an upper-case spelling of one of each, 4 kinds, 9 tag names x 7 values (two of them suffixes of multi-letter tag names, two 70 bytes long with a common 64-byte prefix), timestamps 0..5 and, one time in eight, a boundary value: ends of the int64 range and the points where conversions to time.Time, float64 or int32 wrap); every filter field independently absent/empty/singleton/multi; a case is one (event, filter) pair or one (event sequence, filter list) limit run; 400/8000 matchers are each used by four goroutines at once; added later: filters whose tag map is present without an entry, events whose tag list is nil; 80 matchers built before everything else are judged at once and again after the whole run and 30 000 further value lists; non-trivial = the filter has at least one condition present; distinct = distinct (presence mask, per-condition outcome vector) for pairs, distinct (limit vector, done-prefix pattern) for sequences"
	defer rep.Finish()

	nPairs := vk.N(200_000, 5_000_000)
	nSeqs := vk.N(20_000, 400_000)
	const chunk = 1000

	// (d, first half) matchers that live long, like those of a subscription that stays open for
	// days: built before everything else, judged once now and again at the very end, after
	// the rest of this run and several thousand further distinct value lists have been compiled
	type c02Old struct {
		f  *mocrelay.ReqFilter
		m  interface{ Match(*mocrelay.Event) bool }
		es []*mocrelay.Event
	}
	var olds []c02Old
	judgeOlds := func(when string) {
		for _, o := range olds {
			for _, e := range o.es {
				rep.Eval(1)
				if got, want := o.m.Match(e), vk.RefMatch(o.f, e); got != want {
					rep.Violation("match/long-lived-matcher", fmt.Sprintf("Match=%v, NIP-01 predicate=%v on a matcher built at the start, judged %s", got, want, when),
						map[string]any{"filter": o.f, "event": e})
					return
				}
				rep.Count("long_lived_matcher_judgements", 1)
			}
		}
	}
	{
		r := vk.RNG("C02/old", 0)
		for len(olds) < 80 {
			f := c02Filter(r, false)
			if f.IDs == nil && f.Authors == nil && f.Tags == nil {
				continue
			}
			o := c02Old{f: f, m: mocrelay.NewReqFilterMatcher(f)}
			for k := 0; k < 40; k++ {
				o.es = append(o.es, c02Event(r))
			}
			olds = append(olds, o)
		}
		judgeOlds("right away")
	}

	// (a) single filter Match, and filter-list Match
	vk.Parallel(nPairs/chunk, func(ci int) {
		r := vk.RNG("C02/pairs", ci)
		for k := 0; k < chunk; k++ {
			e := c02Event(r)
			f := c02Filter(r, true)
			want := vk.RefMatch(f, e)
			got := mocrelay.NewReqFilterMatcher(f).Match(e)
			mask := vk.FilterMask(f, e)
			if mask&0x7f != 0 {
				rep.Nontrivial(fmt.Sprintf("p%x", mask))
			}
			if want {
				rep.Count("pairs_matching", 1)
			}
			if big := func(v *int64) bool { return v != nil && (*v > 100 || *v < -100) }; big(&e.CreatedAt) || big(f.Since) || big(f.Until) {
				rep.Count("pairs_with_boundary_timestamp", 1)
				if want {
					rep.Count("pairs_with_boundary_timestamp_matching", 1)
				}
			}
			if got != want {
				rep.Violation("match/single-filter", fmt.Sprintf("Match=%v, NIP-01 predicate=%v", got, want),
					map[string]any{"filter": f, "event": e})
			}
			if k == 0 && ci < 3 {
				rep.Sample(map[string]any{"filter": vk.JSON(f), "event": vk.ShortEvent(e), "match": got})
			}
			// filter list (0..4 members)
			if k%4 == 0 {
				nf := r.IntN(5)
				fs := make([]*mocrelay.ReqFilter, nf)
				for i := range fs {
					fs[i] = c02Filter(r, true)
				}
				wantL := vk.RefMatchAny(fs, e)
				m := mocrelay.NewReqFiltersEventLimitMatcher(fs)
				if gotL := m.Match(e); gotL != wantL {
					rep.Violation("match/filter-list", fmt.Sprintf("list Match=%v, predicate=%v", gotL, wantL),
						map[string]any{"filters": fs, "event": e})
				}
				rep.Count("list_cases", 1)
			}
		}
		rep.Eval(chunk)
	})

	// (b) limit-counting form over event sequences
	vk.Parallel(nSeqs/100, func(ci int) {
		r := vk.RNG("C02/seqs", ci)
		for k := 0; k < 100; k++ {
			nf := r.IntN(4)
			if r.IntN(8) == 0 {
				nf = 0
			}
			fs := make([]*mocrelay.ReqFilter, nf)
			for i := range fs {
				fs[i] = c02Filter(r, true)
				if r.IntN(3) == 0 { // favour filters that match a lot so limits are reached
					fs[i] = &mocrelay.ReqFilter{Limit: fs[i].Limit, Kinds: fs[i].Kinds}
				}
			}
			if nf >= 2 && r.IntN(6) == 0 && fs[0].Limit != nil {
				fs[1].Limit = fs[0].Limit // two filters of the list sharing one limit variable
			}
			before := make([]*mocrelay.ReqFilter, nf)
			for i := range fs {
				before[i] = vk.CloneFilter(fs[i])
			}
			// a second matcher over the very same filter values, used up first: matchers do not
			// share state through the filters they were built from
			if r.IntN(4) == 0 {
				other := mocrelay.NewReqFiltersEventLimitMatcher(fs)
				for j := 0; j < 8; j++ {
					other.LimitMatch(c02Event(r))
				}
			}
			m := mocrelay.NewReqFiltersEventLimitMatcher(fs)
			counts := make([]int64, nf)
			refDone := func() bool {
				for i, f := range fs {
					if f.Limit == nil || counts[i] < *f.Limit {
						return false
					}
				}
				return true
			}
			sig := ""
			n := r.IntN(13)
			var seq []*mocrelay.Event
			bad := false
			if got, want := m.Done(), refDone(); got != want {
				rep.Violation("limit/done-initial", fmt.Sprintf("Done()=%v before any event, specification=%v", got, want),
					map[string]any{"filters": fs})
				bad = true
			}
			for j := 0; j < n && !bad; j++ {
				e := c02Event(r)
				seq = append(seq, e)
				want := false
				for i, f := range fs {
					if vk.RefMatch(f, e) {
						want = true
						counts[i]++
					}
				}
				got := m.LimitMatch(e)
				if got != want {
					rep.Violation("limit/limitmatch-result", fmt.Sprintf("LimitMatch=%v, predicate=%v at step %d", got, want, j),
						map[string]any{"filters": fs, "events": seq})
					bad = true
					break
				}
				gd, wd := m.Done(), refDone()
				if gd != wd {
					rep.Violation("limit/done", fmt.Sprintf("Done()=%v, specification=%v after %d events", gd, wd, j+1),
						map[string]any{"filters": fs, "events": seq, "counts": counts})
					bad = true
					break
				}
				if wd {
					sig += "D"
				} else {
					sig += "-"
				}
			}
			lim := ""
			for _, f := range fs {
				if f.Limit == nil {
					lim += "n"
				} else {
					lim += fmt.Sprint(*f.Limit)
				}
			}
			for i := range fs {
				if !reflect.DeepEqual(fs[i], before[i]) && !bad {
					rep.Violation("limit/filter-mutated", "feeding events to the limit-counting matcher changed the caller's filter value", map[string]any{"before": before[i], "after": fs[i]})
					bad = true
				}
			}
			if nf > 0 {
				rep.Nontrivial("s" + lim + ":" + sig)
			}
			if ci == 0 && k < 2 {
				rep.Sample(map[string]any{"limits": lim, "done_after_each_event": sig, "events": len(seq)})
			}
			rep.Count("limit_sequences", 1)
		}
		rep.Eval(100)
	})

	// (c) one matcher shared by several goroutines (the router calls the matcher of a live
	// subscription from every publishing session at once): Match must stay a function of
	// (event, filter); the race detector watches the matcher's internals
	nShared := vk.N(400, 8000)
	vk.Parallel(nShared, func(ci int) {
		r := vk.RNG("C02/shared", ci)
		f := c02Filter(r, false)
		if f.Tags == nil || r.IntN(2) == 0 {
			f.Tags = map[string][]string{"e": c02Sub(r, c02U.tagVals, "absent"), "p": c02Sub(r, c02U.tagVals, "absent")}
		}
		m := mocrelay.NewReqFilterMatcher(f)
		var wg sync.WaitGroup
		for g := 0; g < 4; g++ {
			wg.Add(1)
			go func(g int) {
				defer wg.Done()
				rr := vk.RNG("C02/shared/g", ci*4+g)
				for k := 0; k < 60; k++ {
					e := c02Event(rr)
					if k%2 == 0 { // several e / p tags so that a shared scratch area is written repeatedly
						e.Tags = append(e.Tags, mocrelay.Tag{"e", vk.Pick(rr, c02U.tagVals)}, mocrelay.Tag{"e", vk.Pick(rr, c02U.tagVals)}, mocrelay.Tag{"p", vk.Pick(rr, c02U.tagVals)})
					}
					want := vk.RefMatch(f, e)
					if got := m.Match(e); got != want {
						rep.Violation("match/shared-matcher", fmt.Sprintf("Match=%v, NIP-01 predicate=%v on a matcher used by four goroutines at once", got, want),
							map[string]any{"filter": f, "event": e})
						return
					}
				}
			}(g)
		}
		wg.Wait()
		rep.Count("matchers_shared_by_4_goroutines", 1)
		rep.Eval(240)
	})

	// (d, second half)
	for i := 0; i < 6000; i++ {
		v := vk.HexOf(fmt.Sprint("c02 churn ", i))
		mocrelay.NewReqFilterMatcher(&mocrelay.ReqFilter{IDs: []string{v}, Authors: []string{v, vk.FakePub(1000 + i)}, Tags: map[string][]string{"t": {"churn-" + fmt.Sprint(i)}, "e": {v}}})
		mocrelay.NewReqFiltersEventLimitMatcher([]*mocrelay.ReqFilter{{Authors: []string{vk.FakePub(9000 + i)}, Limit: vk.Ptr(int64(1))}})
	}
	rep.Count("value_lists_compiled_before_the_last_judgement", 6000*5)
	judgeOlds("after the whole run")

	rep.Require(rep.Counter("pairs_matching") > int64(nPairs/50), "too few matching pairs")
	rep.Require(rep.Counter("limit_sequences") >= int64(nSeqs/100*100), "limit sequences not run")
}
