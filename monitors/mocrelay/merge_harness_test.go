package mocrelay_test

import (
	"context"
	"fmt"
	"math/rand/v2"
	"runtime"
	"sync"
	"sync/atomic"
	"time"

	"github.com/high-moctane/mocrelay"
	vk "github.com/high-moctane/mocrelay/internal/verifkit"
)

// Scripted children for the merge-handler monitors (C08, C09): every child emission is
// stamped (call before the channel send, ret after) on the shared logical clock, every
// client receipt is stamped by the client-side reader.

type mEmit struct {
	child     int
	msg       mocrelay.ServerMsg
	call, ret int64
}

// mPlan is what one child does for one REQ generation.
type mPlan struct {
	stored     []*mocrelay.Event
	live       []*mocrelay.Event
	ignoreClos bool // keeps emitting after it received CLOSE
	refuse     bool // answers the REQ with CLOSED and nothing else (it never sends an EOSE)
	delaySeed  uint64
}

type mGen struct {
	sub       string
	filters   []*mocrelay.ReqFilter
	reqCall   int64
	closeCall int64
	plans     []mPlan
	refused   bool    // some child refuses this REQ
	prev      []*mGen // earlier REQs of the same session with the same subscription id

	mu        sync.Mutex
	emits     []mEmit
	closeRecv []int64 // per child: when it read the CLOSE (0: never)
	closed    []atomic.Bool
	left      atomic.Int32 // children still playing
}

type mWorld struct {
	mu      sync.Mutex
	gens    map[*mocrelay.ClientReqMsg]*mGen
	bySub   map[string][]*mGen
	oks     []mEmit // child OK emissions
	counts  []mEmit // child COUNT emissions
	okRule  func(child int, id string, k int) (bool, string)
	cntRule func(child int, sub string, k int) uint64
	apxRule func(child int, sub string, k int) *bool // the "approximate" member of a child's COUNT reply (nil rule: absent)
	// closeUnknownReq: a REQ that no script knows is refused with CLOSED at once (REQ and COUNT
	// share the subscription-id namespace; a refusal of the one says nothing about the other)
	closeUnknownReq bool
	// per child: client EVENT / COUNT messages read from its inbound channel
	gotEvents []atomic.Int64
	gotCounts []atomic.Int64
}

func newMWorld() *mWorld {
	return &mWorld{gens: map[*mocrelay.ClientReqMsg]*mGen{}, bySub: map[string][]*mGen{}}
}

func jitter(seed *uint64) {
	*seed = *seed*6364136223846793005 + 1442695040888963407
	switch (*seed >> 33) % 10 {
	case 0:
		time.Sleep(time.Duration(10+(*seed>>40)%250) * time.Microsecond)
	case 1, 2, 3:
		runtime.Gosched()
	}
}

type mChild struct {
	idx int
	w   *mWorld
}

func (c *mChild) emit(ctx context.Context, send chan<- mocrelay.ServerMsg, m mocrelay.ServerMsg) (mEmit, bool) {
	call := vk.Tick()
	select {
	case send <- m:
		return mEmit{c.idx, m, call, vk.Tick()}, true
	case <-ctx.Done():
		return mEmit{}, false
	}
}

func (c *mChild) ServeNostr(ctx context.Context, send chan<- mocrelay.ServerMsg, recv <-chan mocrelay.ClientMsg) error {
	var wg sync.WaitGroup
	defer wg.Wait()
	mine := map[string]*mGen{} // this session's latest generation per subscription id
	evChain := map[string]chan struct{}{}
	evSeen := map[string]int{}
	cntChain := map[string]chan struct{}{}
	cntSeen := map[string]int{}
	for {
		select {
		case <-ctx.Done():
			return ctx.Err()
		case m, ok := <-recv:
			if !ok {
				return mocrelay.ErrRecvClosed
			}
			at := vk.Tick()
			switch m := m.(type) {
			case *mocrelay.ClientReqMsg:
				c.w.mu.Lock()
				g := c.w.gens[m]
				c.w.mu.Unlock()
				if g == nil {
					if c.w.closeUnknownReq {
						sub := m.SubscriptionID
						wg.Add(1)
						go func() {
							defer wg.Done()
							c.emit(ctx, send, mocrelay.NewServerClosedMsg(sub, "auth-required: ", "this relay does not serve "+sub))
						}()
					}
					continue
				}
				mine[g.sub] = g
				wg.Add(1)
				go func() {
					defer wg.Done()
					defer g.left.Add(-1)
					p := g.plans[c.idx]
					seed := p.delaySeed
					stop := func() bool { return g.closed[c.idx].Load() && !p.ignoreClos }
					rec := func(e mEmit) { g.mu.Lock(); g.emits = append(g.emits, e); g.mu.Unlock() }
					if p.refuse {
						jitter(&seed)
						if e, ok := c.emit(ctx, send, mocrelay.NewServerClosedMsg(g.sub, "error: ", fmt.Sprintf("child %d does not serve this", c.idx))); ok {
							rec(e)
						}
						return
					}
					for _, ev := range p.stored {
						jitter(&seed)
						if stop() {
							return
						}
						e, ok := c.emit(ctx, send, mocrelay.NewServerEventMsg(g.sub, ev))
						if !ok {
							return
						}
						rec(e)
					}
					jitter(&seed)
					if stop() {
						return
					}
					e, ok := c.emit(ctx, send, mocrelay.NewServerEOSEMsg(g.sub))
					if !ok {
						return
					}
					rec(e)
					for _, ev := range p.live {
						jitter(&seed)
						if stop() {
							return
						}
						e, ok := c.emit(ctx, send, mocrelay.NewServerEventMsg(g.sub, ev))
						if !ok {
							return
						}
						rec(e)
					}
				}()
			case *mocrelay.ClientCloseMsg:
				if g := mine[m.SubscriptionID]; g != nil {
					g.mu.Lock()
					if g.closeRecv[c.idx] == 0 {
						g.closeRecv[c.idx] = at
					}
					g.mu.Unlock()
					g.closed[c.idx].Store(true)
				}
			case *mocrelay.ClientEventMsg:
				if c.w.okRule == nil {
					continue
				}
				c.w.gotEvents[c.idx].Add(1)
				id := m.Event.ID
				k := evSeen[id]
				evSeen[id]++
				prev := evChain[id]
				done := make(chan struct{})
				evChain[id] = done
				seed := uint64(c.idx+1)*7919 + uint64(at)
				wg.Add(1)
				go func() {
					defer wg.Done()
					defer close(done)
					if prev != nil {
						select {
						case <-prev:
						case <-ctx.Done():
							return
						}
					}
					jitter(&seed)
					acc, reason := c.w.okRule(c.idx, id, k)
					pre, msg := splitPrefix(reason)
					if e, ok := c.emit(ctx, send, mocrelay.NewServerOKMsg(id, acc, pre, msg)); ok {
						c.w.mu.Lock()
						c.w.oks = append(c.w.oks, e)
						c.w.mu.Unlock()
					}
				}()
			case *mocrelay.ClientCountMsg:
				if c.w.cntRule == nil {
					continue
				}
				c.w.gotCounts[c.idx].Add(1)
				sub := m.SubscriptionID
				k := cntSeen[sub]
				cntSeen[sub]++
				prev := cntChain[sub]
				done := make(chan struct{})
				cntChain[sub] = done
				seed := uint64(c.idx+1)*104729 + uint64(at)
				wg.Add(1)
				go func() {
					defer wg.Done()
					defer close(done)
					if prev != nil {
						select {
						case <-prev:
						case <-ctx.Done():
							return
						}
					}
					jitter(&seed)
					var apx *bool
					if c.w.apxRule != nil {
						apx = c.w.apxRule(c.idx, sub, k)
					}
					if e, ok := c.emit(ctx, send, mocrelay.NewServerCountMsg(sub, c.w.cntRule(c.idx, sub, k), apx)); ok {
						c.w.mu.Lock()
						c.w.counts = append(c.w.counts, e)
						c.w.mu.Unlock()
					}
				}()
			}
		}
	}
}

func splitPrefix(s string) (string, string) {
	for _, p := range []string{mocrelay.MachineReadablePrefixBlocked, mocrelay.MachineReadablePrefixDuplicate, mocrelay.MachineReadablePrefixRateLimited,
		mocrelay.MachineReadablePrefixInvalid, mocrelay.MachineReadablePrefixError, mocrelay.MachineReadablePrefixPoW} {
		if len(s) >= len(p) && s[:len(p)] == p {
			return p, s[len(p):]
		}
	}
	return "", s
}

// mClient is the client side of a merged session: a reader that stamps every receipt.
type mClient struct {
	s      *vk.Session
	mu     sync.Mutex
	recvd  []rRecv
	notify chan struct{}
	rdDone chan struct{}
}

func newMClient(ctx context.Context, h mocrelay.Handler) *mClient {
	c := &mClient{s: vk.StartSession(ctx, h, 0), notify: make(chan struct{}, 1), rdDone: make(chan struct{})}
	go func() {
		defer close(c.rdDone)
		for {
			select {
			case m := <-c.s.Send:
				c.mu.Lock()
				c.recvd = append(c.recvd, rRecv{vk.Tick(), m})
				c.mu.Unlock()
				select {
				case c.notify <- struct{}{}:
				default:
				}
			case <-c.s.Done:
				for {
					select {
					case m := <-c.s.Send:
						c.mu.Lock()
						c.recvd = append(c.recvd, rRecv{vk.Tick(), m})
						c.mu.Unlock()
					default:
						return
					}
				}
			}
		}
	}()
	return c
}

func (c *mClient) snapshot() []rRecv {
	c.mu.Lock()
	defer c.mu.Unlock()
	return append([]rRecv{}, c.recvd...)
}

// waitFor polls the receipts until pred holds or the bound expires.
func (c *mClient) waitFor(pred func([]rRecv) bool) bool {
	deadline := time.Now().Add(vk.WaitBound)
	for {
		if pred(c.snapshot()) {
			return true
		}
		if time.Now().After(deadline) {
			return false
		}
		select {
		case <-c.notify:
		case <-time.After(time.Millisecond):
		}
	}
}

// barrier sends a COUNT with a unique id through the merged handler and waits for its
// reply: every child answers it after everything it emitted before, and each child's
// output is forwarded in order, so afterwards nothing older is in flight.
func (c *mClient) barrier(id string) bool {
	if !c.s.Put(&mocrelay.ClientCountMsg{SubscriptionID: id, ReqFilters: []*mocrelay.ReqFilter{{}}}) {
		return false
	}
	return c.waitFor(func(rs []rRecv) bool {
		for _, r := range rs {
			if m, is := r.msg.(*mocrelay.ServerCountMsg); is && m.SubscriptionID == id {
				return true
			}
		}
		return false
	})
}

func describeRecv(rs []rRecv) []string {
	out := make([]string, len(rs))
	for i, r := range rs {
		out[i] = fmt.Sprintf("t=%d %s", r.at, vk.DescribeServerMsg(r.msg))
	}
	return out
}

func describeEmits(es []mEmit) []string {
	out := make([]string, len(es))
	for i, e := range es {
		out[i] = fmt.Sprintf("child %d [%d,%d] %s", e.child, e.call, e.ret, vk.DescribeServerMsg(e.msg))
	}
	return out
}

func mkChildren(w *mWorld, n int) []mocrelay.Handler {
	w.gotEvents = make([]atomic.Int64, n)
	w.gotCounts = make([]atomic.Int64, n)
	hs := make([]mocrelay.Handler, n)
	for i := range hs {
		hs[i] = &mChild{idx: i, w: w}
	}
	return hs
}

// mMerge builds the merged handler over the scripted children; one time in eight two neighbours
// are merged first and that merge handler takes their place (a merge handler is a handler: the
// children keep their order, nothing any statement says depends on the nesting).
func mMerge(r *rand.Rand, hs []mocrelay.Handler) (mocrelay.Handler, bool) {
	if len(hs) >= 3 && r.IntN(8) == 0 {
		i := r.IntN(len(hs) - 1)
		nested := append([]mocrelay.Handler{}, hs[:i]...)
		nested = append(nested, mocrelay.NewMergeHandler(hs[i], hs[i+1]))
		nested = append(nested, hs[i+2:]...)
		return mocrelay.NewMergeHandler(nested...), true
	}
	return mocrelay.NewMergeHandler(hs...), false
}
