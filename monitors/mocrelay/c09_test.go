package mocrelay_test

import (
	"context"
	"fmt"
	"sort"
	"strings"
	"sync"
	"testing"
	"time"

	"github.com/high-moctane/mocrelay"
	vk "github.com/high-moctane/mocrelay/internal/verifkit"
)

// C09 — merged EVENT and COUNT: exactly one aggregated reply per request.

func TestVerif_C09(t *testing.T) {
	rep := vk.NewReport(t, "C09", "exploration")
	rep.Rule = "NewMergeHandler over 2-5 (one session in twelve: 6-25, sometimes 60-74) scripted children that answer every EVENT with one OK and every COUNT with one COUNT after seeded delays (out of order across different ids, in submission order for the same id); verdicts, reasons (with and without machine-readable prefixes; in one session in five oddly shaped: a bare prefix, leading/trailing white space, empty), counts and the optional approximate member are a seeded function of (child, id, occurrence) and every reason names (child, occurrence), so a reply identifies the submission it answers; the client pipelines 1-8 requests over tiny id alphabets (the same event id / COUNT id several times in flight, CLOSE messages and REQs (which every child refuses with CLOSED) for the same ids in between); 2-5 clients at once on one merged handler whose children reject everything with 2-5 kB reasons naming child and event (every reply is the reply of its own submission); offline: #OK(id) = #EVENT(id), accepted OKs = all-accept submissions, each rejecting OK begins with the full reason of a rejecting child of a distinct submission that is the lowest-index or the earliest-replying rejecter; #COUNT(id) = #requests and the multiset of values = per-request maxima; added later: one session in four uses the empty string as a COUNT id; a quarter of the reasons carry multi-byte characters; non-trivial = a session with a repeated id in flight or mixed verdicts; distinct = distinct (children, request shape, verdict pattern)"
	defer rep.Finish()
	pc := &pointCtl{sleep: true, only: "merge."}
	mocrelay.SetVerifPoint(pc.fn)
	defer mocrelay.SetVerifPoint(nil)
	ctx := context.Background()
	n := vk.N(20000, 300000)
	prefixes := []string{"", mocrelay.MachineReadablePrefixBlocked, mocrelay.MachineReadablePrefixDuplicate, mocrelay.MachineReadablePrefixRateLimited, mocrelay.MachineReadablePrefixInvalid, mocrelay.MachineReadablePrefixError, mocrelay.MachineReadablePrefixPoW}
	vk.ParallelW(12, n, func(i int) {
		if rep.Violations() >= 3 {
			return
		}
		r := vk.RNG("C09", i)
		nch := 2 + r.IntN(4)
		if r.IntN(12) == 0 { // a wide merge (the statement is for any number of children)
			nch = 6 + r.IntN(20)
			if r.IntN(4) == 0 {
				nch = 60 + r.IntN(15)
			}
			rep.Count("sessions_with_6_to_25_children", 1)
		}
		w := newMWorld()
		w.closeUnknownReq = true
		salt := r.Uint64()
		mode := r.IntN(5) // 0: mostly accept, 1: mixed, 2: reject repeats (duplicate), 3: mostly reject, 4: oddly shaped reasons (every id submitted once)
		h64 := func(child int, id string, k int) uint64 {
			x := salt ^ uint64(child+1)*0x9E3779B97F4A7C15 ^ uint64(k+1)*0xC2B2AE3D27D4EB4F
			for j := 0; j < len(id) && j < 16; j++ {
				x = (x ^ uint64(id[j])) * 0x100000001B3
			}
			return x ^ x>>29
		}
		w.okRule = func(child int, id string, k int) (bool, string) {
			x := h64(child, id, k)
			acc := false
			switch mode {
			case 0:
				acc = x%8 != 0
			case 1:
				acc = x%2 == 0
			case 2:
				acc = k == 0 || x%4 == 0
			case 3:
				acc = x%5 == 0
			case 4:
				acc = x%2 == 0
				pre := prefixes[(x>>8)%uint64(len(prefixes))]
				if acc {
					return true, []string{"", " ", pre}[(x>>16)%3]
				}
				// a bare prefix, surrounding white space, nothing at all: the merged text must still
				// begin with exactly this
				switch (x >> 16) % 6 {
				case 0:
					return false, pre
				case 1:
					return false, fmt.Sprintf("%srejected by child %d\n", pre, child)
				case 2:
					return false, fmt.Sprintf("%s  rejected by child %d", pre, child)
				case 3:
					return false, ""
				case 4:
					return false, "   "
				}
			}
			pre := prefixes[(x>>8)%uint64(len(prefixes))]
			if mode == 2 && !acc {
				pre = mocrelay.MachineReadablePrefixDuplicate
			}
			tag := "rejected"
			if (x>>24)%4 == 0 {
				// reasons are free text: several bytes per character
				tag = []string{"受け付けません", "отклонено", "refusé à l’entrée", "💥"}[(x>>28)%4]
			}
			if acc {
				tag = "fine"
				if (x>>16)%3 == 0 {
					return true, ""
				}
			}
			return acc, fmt.Sprintf("%s%s by child %d for submission %d of %.8s;", pre, tag, child, k, id)
		}
		w.apxRule = func(child int, sub string, k int) *bool {
			// the optional "approximate" member of a COUNT reply has no say in which count is the maximum
			switch x := h64(child, sub, k+1000); x % 3 {
			case 0:
				return nil
			case 1:
				return vk.Ptr(true)
			default:
				return vk.Ptr(false)
			}
		}
		w.cntRule = func(child int, sub string, k int) uint64 {
			x := h64(child, sub, k)
			switch x % 9 {
			case 0: // counts beyond the signed range
				return 1<<63 + x%1000
			case 1:
				return ^uint64(0) - x%7
			}
			return x % 50
		}
		h, nestedMerge := mMerge(r, mkChildren(w, nch))
		if nestedMerge {
			rep.Count("handlers_with_a_nested_merge", 1)
		}
		nev := 1 + r.IntN(3)
		if mode == 4 {
			nev = 8
		}
		events := make([]*mocrelay.Event, nev)
		for k := range events {
			events[k] = vk.Seal(&mocrelay.Event{Kind: 1, Pubkey: vk.FakePub(900), CreatedAt: int64(1000 + k), Content: fmt.Sprintf("c09-%d-%d", i, k)})
		}
		if i%5 == 0 {
			// an earlier session on the same handler submits the same ids and the same
			// COUNT ids and is cut while replies are still outstanding: nothing of it may
			// show in the session judged below
			pre := newMClient(ctx, h)
			for k, n := 0, 1+r.IntN(3); k < n; k++ {
				if r.IntN(3) == 0 {
					pre.s.Put(&mocrelay.ClientCountMsg{SubscriptionID: vk.Pick(r, []string{"x", "y"}), ReqFilters: []*mocrelay.ReqFilter{{}}})
				} else {
					pre.s.Put(&mocrelay.ClientEventMsg{Event: vk.Pick(r, events)})
				}
			}
			if r.IntN(2) == 0 {
				time.Sleep(time.Duration(r.IntN(200)) * time.Microsecond)
			}
			pre.s.Stop()
			<-pre.rdDone
			w.mu.Lock()
			w.oks, w.counts = nil, nil
			w.mu.Unlock()
			for c := 0; c < nch; c++ {
				w.gotEvents[c].Store(0)
				w.gotCounts[c].Store(0)
			}
			rep.Count("sessions_after_a_cut_session_on_the_same_handler", 1)
		}
		cl := newMClient(ctx, h)
		defer func() { cl.s.Stop(); <-cl.rdDone }()
		subs := []string{"x", "y"}
		if r.IntN(4) == 0 {
			subs = []string{"x", ""} // the empty string is a subscription id like any other
		}
		nreq := 1 + r.IntN(8)
		sentEv := map[string]int{}
		sentCnt := map[string]int{}
		var log []string
		shape := ""
		for q := 0; q < nreq; q++ {
			switch c := r.IntN(10); {
			case c < 6:
				e := vk.Pick(r, events)
				if mode == 4 {
					e = events[q] // every id once: reasons need not identify the submission
				}
				sentEv[e.ID]++
				log = append(log, fmt.Sprintf("> EVENT %.8s (submission %d)", e.ID, sentEv[e.ID]-1))
				shape += "E"
				if !cl.s.Put(&mocrelay.ClientEventMsg{Event: e}) {
					rep.Violation("session/stalled", "the merged handler did not take an EVENT", map[string]any{"sent": log})
					return
				}
			case c < 9:
				s := vk.Pick(r, subs)
				sentCnt[s]++
				log = append(log, fmt.Sprintf("> COUNT %s (request %d)", s, sentCnt[s]-1))
				shape += "C"
				if !cl.s.Put(&mocrelay.ClientCountMsg{SubscriptionID: s, ReqFilters: []*mocrelay.ReqFilter{{}}}) {
					rep.Violation("session/stalled", "the merged handler did not take a COUNT", map[string]any{"sent": log})
					return
				}
			default:
				s := vk.Pick(r, subs)
				if r.IntN(2) == 0 {
					// a REQ on an id that COUNTs use too: every child refuses it with CLOSED
					log = append(log, "> REQ "+s)
					shape += "r"
					cl.s.Put(&mocrelay.ClientReqMsg{SubscriptionID: s, ReqFilters: []*mocrelay.ReqFilter{{}}})
					break
				}
				log = append(log, "> CLOSE "+s)
				shape += "x"
				cl.s.Put(&mocrelay.ClientCloseMsg{SubscriptionID: s})
			}
			if r.IntN(3) == 0 {
				time.Sleep(time.Duration(r.IntN(150)) * time.Microsecond)
			}
		}
		totalEv, totalCnt := 0, 0
		for _, v := range sentEv {
			totalEv += v
		}
		for _, v := range sentCnt {
			totalCnt += v
		}
		// quiescence: every child has answered everything, then a barrier COUNT
		deadline := time.Now().Add(vk.WaitBound)
		for time.Now().Before(deadline) {
			w.mu.Lock()
			done := len(w.oks) == totalEv*nch && len(w.counts) == totalCnt*nch
			w.mu.Unlock()
			if done {
				break
			}
			time.Sleep(100 * time.Microsecond)
		}
		// the barrier COUNT is taken by the merged handler only after every earlier client
		// message was handed to every child (unbuffered channels, one sequential loop), so
		// from here on each child must have read all of them
		if !cl.s.Put(&mocrelay.ClientCountMsg{SubscriptionID: "zz-barrier", ReqFilters: []*mocrelay.ReqFilter{{}}}) {
			rep.Violation("session/stalled", "the merged handler stopped taking client messages", map[string]any{"children": nch, "sent": log, "received": describeRecv(cl.snapshot())})
			return
		}
		deadline = time.Now().Add(vk.WaitBound)
		answered, handed := false, false
		for !(answered && handed) && time.Now().Before(deadline) {
			handed = true
			for c := 0; c < nch; c++ {
				if int(w.gotEvents[c].Load()) != totalEv || int(w.gotCounts[c].Load()) != totalCnt+1 {
					handed = false
				}
			}
			w.mu.Lock()
			answered = len(w.oks) == totalEv*nch && len(w.counts) == (totalCnt+1)*nch
			w.mu.Unlock()
			if !(answered && handed) {
				time.Sleep(200 * time.Microsecond)
			}
		}
		if !handed {
			for c := 0; c < nch; c++ {
				if int(w.gotEvents[c].Load()) != totalEv || int(w.gotCounts[c].Load()) != totalCnt+1 {
					rep.Violation("session/request-not-broadcast", fmt.Sprintf("the merged handler took all %d EVENTs and %d COUNTs from the client, but child %d was handed only %d and %d of them", totalEv, totalCnt+1, c, w.gotEvents[c].Load(), w.gotCounts[c].Load()), map[string]any{"children": nch, "sent": log})
					return
				}
			}
		}
		if !answered {
			// the precondition of the property (every child answers every request) is not
			// met: a violation only if a child is blocked handing its reply over
			var stuck []string
			for _, g := range vk.Goroutines() {
				if strings.Contains(g.Stack, "mChild") {
					stuck = append(stuck, g.Stack)
				}
			}
			for _, st := range stuck {
				if strings.Contains(st, "mChild).emit") {
					rep.Violation("session/child-output-not-consumed", "a child is blocked handing its reply to the merged handler", map[string]any{"children": nch, "sent": log, "stack": st})
					return
				}
			}
			w.mu.Lock()
			rep.Inconclusive(fmt.Sprintf("C09: the scripted children emitted %d of %d OKs and %d of %d COUNTs within the bound (session %d); child goroutines: %s", len(w.oks), totalEv*nch, len(w.counts), (totalCnt+1)*nch, i, strings.Join(stuck, " || ")))
			w.mu.Unlock()
			return
		}
		if !cl.waitFor(func(rs []rRecv) bool {
			for _, r := range rs {
				if m, is := r.msg.(*mocrelay.ServerCountMsg); is && m.SubscriptionID == "zz-barrier" {
					return true
				}
			}
			return false
		}) {
			rep.Violation("session/stalled", "the final barrier COUNT was not answered: the merged handler lost a reply or stopped", map[string]any{"children": nch, "sent": log, "received": describeRecv(cl.snapshot())})
			return
		}
		// replies to different ids may overtake each other on their way out (the statement fixes
		// no order between them): the barrier's reply does not prove that the others are out yet.
		// Every child has answered everything by now, so the remaining replies are due; wait for
		// their number (a reply still missing after the bound is judged below).
		cl.waitFor(func(rs []rRecv) bool {
			nOK, nCnt := 0, 0
			for _, r := range rs {
				switch r.msg.(type) {
				case *mocrelay.ServerOKMsg:
					nOK++
				case *mocrelay.ServerCountMsg:
					nCnt++
				}
			}
			return nOK >= totalEv && nCnt >= totalCnt+1
		})
		got := cl.snapshot()
		w.mu.Lock()
		oks := append([]mEmit{}, w.oks...)
		cnts := append([]mEmit{}, w.counts...)
		w.mu.Unlock()
		rep.Eval(1)
		wit := func() map[string]any {
			return map[string]any{"children": nch, "sent": log, "child_replies": describeEmits(append(append([]mEmit{}, oks...), cnts...)), "received": describeRecv(got)}
		}
		// ---- EVENT / OK
		repeated, mixed := false, false
		for id, nsub := range sentEv {
			if nsub > 1 {
				repeated = true
			}
			var mine []*mocrelay.ServerOKMsg
			for _, x := range got {
				if m, is := x.msg.(*mocrelay.ServerOKMsg); is && m.EventID == id {
					mine = append(mine, m)
				}
			}
			if len(mine) != nsub {
				sig := "ok/missing"
				if len(mine) > nsub {
					sig = "ok/extra"
				}
				rep.Violation(sig, fmt.Sprintf("event %.8s was submitted %d times but answered by %d OK messages", id, nsub, len(mine)), wit())
				return
			}
			// expected verdict per submission
			allAccept := 0
			rejecters := make([][]int, nsub) // submission -> rejecting children
			firstReply := make([]int, nsub)  // earliest-replying rejecter
			for k := 0; k < nsub; k++ {
				best := int64(1) << 62
				firstReply[k] = -1
				for c := 0; c < nch; c++ {
					if acc, _ := w.okRule(c, id, k); !acc {
						rejecters[k] = append(rejecters[k], c)
						// k-th OK of child c for this id
						seen := 0
						for _, e := range oks {
							if e.child == c && e.msg.(*mocrelay.ServerOKMsg).EventID == id {
								if seen == k && e.call < best {
									best, firstReply[k] = e.call, c
								}
								seen++
							}
						}
					}
				}
				if len(rejecters[k]) == 0 {
					allAccept++
				} else {
					mixed = mixed || len(rejecters[k]) < nch
				}
			}
			gotAccept := 0
			used := map[int]bool{}
			for _, m := range mine {
				if m.Accepted {
					gotAccept++
					continue
				}
				// which submission does this rejection answer? its text must begin with the
				// full reason of a rejecting child of a not yet answered submission
				matched := false
				for k := 0; k < nsub && !matched; k++ {
					if used[k] || len(rejecters[k]) == 0 {
						continue
					}
					for _, c := range rejecters[k] {
						_, reason := w.okRule(c, id, k)
						if strings.HasPrefix(m.Message(), reason) && (c == rejecters[k][0] || c == firstReply[k]) {
							used[k], matched = true, true
							break
						}
					}
				}
				if !matched {
					// classify: reason of a later rejecter, reason of another submission, or prefix lost
					sig := "ok/reason-not-first-rejecters"
					known := false
					for k := 0; k < nsub; k++ {
						for c := 0; c < nch; c++ {
							if acc, reason := w.okRule(c, id, k); !acc && strings.Contains(m.Message(), reason) {
								known = true
							}
						}
					}
					if !known {
						sig = "ok/reason-lost"
					}
					rep.Violation(sig, fmt.Sprintf("a rejecting OK for %.8s reads %q, which does not begin with the reason of the first rejecting child of any unanswered submission", id, m.Message()), wit())
					return
				}
			}
			if gotAccept != allAccept {
				rep.Violation("ok/verdict", fmt.Sprintf("event %.8s: %d of %d submissions were accepted by every child, but %d accepting OKs were sent", id, allAccept, nsub, gotAccept), wit())
				return
			}
		}
		// an OK for an id nobody submitted
		for _, x := range got {
			if m, is := x.msg.(*mocrelay.ServerOKMsg); is && sentEv[m.EventID] == 0 {
				rep.Violation("ok/unknown-id", "OK for an event id that was never submitted: "+m.EventID, wit())
				return
			}
		}
		// ---- COUNT
		for sub, nreqs := range sentCnt {
			if nreqs > 1 {
				repeated = true
			}
			var vals []uint64
			for _, x := range got {
				if m, is := x.msg.(*mocrelay.ServerCountMsg); is && m.SubscriptionID == sub {
					vals = append(vals, m.Count)
				}
			}
			if len(vals) != nreqs {
				sig := "count/missing"
				if len(vals) > nreqs {
					sig = "count/extra"
				}
				rep.Violation(sig, fmt.Sprintf("COUNT %q was requested %d times but answered %d times", sub, nreqs, len(vals)), wit())
				return
			}
			var want []uint64
			for k := 0; k < nreqs; k++ {
				mx := uint64(0)
				for c := 0; c < nch; c++ {
					if v := w.cntRule(c, sub, k); v > mx {
						mx = v
					}
				}
				want = append(want, mx)
			}
			a, b := append([]uint64{}, vals...), append([]uint64{}, want...)
			sort.Slice(a, func(x, y int) bool { return a[x] < a[y] })
			sort.Slice(b, func(x, y int) bool { return b[x] < b[y] })
			for k := range a {
				if a[k] != b[k] {
					rep.Violation("count/not-maximum", fmt.Sprintf("COUNT %q: replies carry %v, the per-request maxima of the children's counts are %v", sub, vals, want), wit())
					return
				}
			}
		}
		rep.Count("sessions", 1)
		rep.Count("events_submitted", int64(totalEv))
		rep.Count("counts_requested", int64(totalCnt))
		if repeated {
			rep.Count("sessions_with_repeated_id_in_flight", 1)
		}
		if mixed {
			rep.Count("sessions_with_mixed_verdicts", 1)
		}
		if repeated || mixed {
			rep.Nontrivial(fmt.Sprintf("%d/%s/%d/%v/%v/%x", nch, shape, mode, repeated, mixed, salt%4096))
		}
		if rep.WantSample() {
			rep.Sample(wit())
		}
	})
	pc.report(rep)
	// several clients on one merged handler at the same time, every EVENT rejected by every child
	// with a long reason that names the child and the event: each merged OK must be the OK of its
	// own submission - beginning with child 0's reason for this very event
	nShared := vk.N(6, 60)
	vk.ParallelW(3, nShared, func(i int) {
		r := vk.RNG("C09/shared", i)
		nch := 2 + r.IntN(3)
		reason := func(c int, content string) string {
			return fmt.Sprintf("%schild %d refuses %s %s", prefixes[(c+len(content))%len(prefixes)], c, content, strings.Repeat(string(rune('a'+c)), 2000+37*len(content)%3000))
		}
		children := make([]mocrelay.Handler, nch)
		for c := range children {
			c := c
			children[c] = mocrelay.HandlerFunc(func(ctx context.Context, send chan<- mocrelay.ServerMsg, recv <-chan mocrelay.ClientMsg) error {
				for {
					select {
					case <-ctx.Done():
						return ctx.Err()
					case m, ok := <-recv:
						if !ok {
							return mocrelay.ErrRecvClosed
						}
						if em, is := m.(*mocrelay.ClientEventMsg); is {
							pre, text := splitPrefix(reason(c, em.Event.Content))
							select {
							case send <- mocrelay.NewServerOKMsg(em.Event.ID, false, pre, text):
							case <-ctx.Done():
								return ctx.Err()
							}
						}
					}
				}
			})
		}
		h := mocrelay.NewMergeHandler(children...)
		nClients, nEv := 2+r.IntN(4), 40+r.IntN(60)
		var wg sync.WaitGroup
		for cl := 0; cl < nClients; cl++ {
			wg.Add(1)
			go func(cl int) {
				defer wg.Done()
				s := vk.StartSession(ctx, h, 0)
				defer s.Stop()
				for k := 0; k < nEv; k++ {
					content := fmt.Sprintf("shared-%d-client-%d-event-%d", i, cl, k)
					ev := vk.Seal(&mocrelay.Event{Kind: 1, Pubkey: vk.FakePub(990 + cl), CreatedAt: int64(1000 + k), Content: content})
					if !s.Put(&mocrelay.ClientEventMsg{Event: ev}) {
						rep.Inconclusive("C09: shared-handler scenario: an EVENT was not taken")
						return
					}
					m, ok := s.Get()
					okm, is := m.(*mocrelay.ServerOKMsg)
					for skipped := 0; ok && !is && skipped < 16; skipped++ {
						// only the OK replies are constrained; anything else (a NOTICE) is passed over
						m, ok = s.Get()
						okm, is = m.(*mocrelay.ServerOKMsg)
					}
					rep.Eval(1)
					if !ok || !is || okm.EventID != ev.ID || okm.Accepted || !strings.HasPrefix(okm.Message(), reason(0, content)) {
						got := vk.JSON(m)
						rep.Violation("ok/concurrent-sessions/not-its-own-reasons", fmt.Sprintf("%d clients on one merged handler: the reply to %s does not begin with child 0's reason for that event", nClients, content),
							map[string]any{"clients": nClients, "children": nch, "reply_head": got[:min(len(got), 200)], "expected_head": reason(0, content)[:80], "reply_length": len(got)})
						return
					}
				}
				rep.Count("clients_sharing_a_merged_handler", 1)
				rep.Nontrivial(fmt.Sprintf("shared/%d/%d/%d", i, nch, cl))
			}(cl)
		}
		wg.Wait()
	})
	rep.Require(rep.Counter("clients_sharing_a_merged_handler") >= int64(nShared*2), "clients sharing a merged handler")
	rep.Require(rep.Counter("sessions") >= int64(n*9/10), "sessions")
	rep.Require(rep.Counter("sessions_with_repeated_id_in_flight") > 100, "repeated ids in flight")
	rep.Require(rep.Counter("sessions_with_mixed_verdicts") > 100, "mixed verdicts")
}
