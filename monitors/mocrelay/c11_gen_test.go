package mocrelay_test

import (
	"fmt"
	"math"
	"math/rand/v2"
	"sort"
	"strconv"
	"strings"
	"unicode/utf8"

	"github.com/high-moctane/mocrelay"
	vk "github.com/high-moctane/mocrelay/internal/verifkit"
)

// C11 — generators: a JSON tree with its own text writer (random insignificant
// whitespace at every token boundary, random \u escapes), and well-formed client
// messages of all five types built on it.

// ---------------------------------------------------------------------------
// JSON tree

type c11N struct {
	kind  byte // 's' string, 'n' number token (verbatim), 'l' literal true/false/null, 'r' raw text, 'a' array, 'o' object
	s     string
	kids  []*c11N
	keys  []string
	noEsc bool // never written with \u escapes (message labels)
}

func c11S(s string) *c11N     { return &c11N{kind: 's', s: s} }
func c11I(v int64) *c11N      { return &c11N{kind: 'n', s: strconv.FormatInt(v, 10)} }
func c11Num(tok string) *c11N { return &c11N{kind: 'n', s: tok} }
func c11Raw(txt string) *c11N { return &c11N{kind: 'r', s: txt} }
func c11Null() *c11N          { return &c11N{kind: 'l', s: "null"} }
func c11Bool(b bool) *c11N    { return &c11N{kind: 'l', s: strconv.FormatBool(b)} }
func c11A(kids ...*c11N) *c11N {
	if kids == nil {
		kids = []*c11N{}
	}
	return &c11N{kind: 'a', kids: kids}
}
func c11O() *c11N { return &c11N{kind: 'o'} }

func c11StrArr(ss []string) *c11N {
	a := c11A()
	for _, s := range ss {
		a.kids = append(a.kids, c11S(s))
	}
	return a
}

func (o *c11N) idx(key string) int {
	for i, k := range o.keys {
		if k == key {
			return i
		}
	}
	return -1
}
func (o *c11N) get(key string) *c11N {
	if i := o.idx(key); i >= 0 {
		return o.kids[i]
	}
	return nil
}

// put replaces the member or appends it.
func (o *c11N) put(key string, v *c11N) {
	if i := o.idx(key); i >= 0 {
		o.kids[i] = v
		return
	}
	o.keys = append(o.keys, key)
	o.kids = append(o.kids, v)
}

// putDup appends even when the key exists (duplicate keys, observe-only stream).
func (o *c11N) putDup(key string, v *c11N) {
	o.keys = append(o.keys, key)
	o.kids = append(o.kids, v)
}
func (o *c11N) del(key string) {
	if i := o.idx(key); i >= 0 {
		o.keys = append(o.keys[:i:i], o.keys[i+1:]...)
		o.kids = append(o.kids[:i:i], o.kids[i+1:]...)
	}
}
func (o *c11N) rename(old, nw string) {
	if i := o.idx(old); i >= 0 {
		o.keys[i] = nw
	}
}
func (o *c11N) shuffle(r *rand.Rand) {
	r.Shuffle(len(o.keys), func(i, j int) {
		o.keys[i], o.keys[j] = o.keys[j], o.keys[i]
		o.kids[i], o.kids[j] = o.kids[j], o.kids[i]
	})
}

// ---------------------------------------------------------------------------
// text writer

type c11W struct {
	r   *rand.Rand
	b   strings.Builder
	ws  float64 // probability of whitespace at a token boundary
	esc float64 // probability of writing a character as a \u escape

	// long runs of insignificant whitespace (20-300 bytes)
	lead  int     // before the first token
	open  int     // between the opening bracket of the root array and its first element
	longp float64 // probability of a long run at any other token boundary
	root  *c11N
}

func (w *c11W) run(n int) {
	for i := 0; i < n; i++ {
		w.b.WriteByte(" \t\n\r"[w.r.IntN(4)])
	}
}

var c11RunLens = []int{20, 22, 23, 24, 25, 26, 28, 30, 31, 32, 33, 40, 64, 100, 200, 300}

func c11RunLen(r *rand.Rand) int {
	if r.IntN(3) == 0 {
		return 20 + r.IntN(281)
	}
	return vk.Pick(r, c11RunLens)
}

func (w *c11W) sp() {
	if w.longp > 0 && w.r.Float64() < w.longp {
		w.run(c11RunLen(w.r))
		return
	}
	if w.ws > 0 && w.r.Float64() < w.ws {
		n := 1 + w.r.IntN(3)
		for i := 0; i < n; i++ {
			w.b.WriteByte(" \t\n\r"[w.r.IntN(4)])
		}
	}
}

func (w *c11W) u4(c rune) {
	digits := "0123456789abcdef"
	if w.r.IntN(2) == 0 {
		digits = "0123456789ABCDEF"
	}
	w.b.WriteString(`\u`)
	for sh := 12; sh >= 0; sh -= 4 {
		w.b.WriteByte(digits[(c>>sh)&15])
	}
}

func (w *c11W) str(s string, noEsc bool) {
	w.b.WriteByte('"')
	for _, c := range s {
		switch {
		case c == '"':
			w.b.WriteString(`\"`)
		case c == '\\':
			w.b.WriteString(`\\`)
		case c < 0x20:
			short := ""
			switch c {
			case '\n':
				short = `\n`
			case '\r':
				short = `\r`
			case '\t':
				short = `\t`
			case '\b':
				short = `\b`
			case '\f':
				short = `\f`
			}
			if short != "" && w.r.IntN(2) == 0 {
				w.b.WriteString(short)
			} else {
				w.u4(c)
			}
		case !noEsc && w.esc > 0 && w.r.Float64() < w.esc:
			switch {
			case c == '/' && w.r.IntN(2) == 0:
				w.b.WriteString(`\/`)
			case c >= 0x10000:
				c -= 0x10000
				w.u4(0xd800 + (c >> 10))
				w.u4(0xdc00 + (c & 0x3ff))
			default:
				w.u4(c)
			}
		default:
			w.b.WriteRune(c)
		}
	}
	w.b.WriteByte('"')
}

func (w *c11W) node(n *c11N) {
	switch n.kind {
	case 's':
		w.str(n.s, n.noEsc)
	case 'n', 'l', 'r':
		w.b.WriteString(n.s)
	case 'a':
		w.b.WriteByte('[')
		if n == w.root && w.open > 0 {
			w.run(w.open)
		}
		w.sp()
		for i, k := range n.kids {
			if i > 0 {
				w.sp()
				w.b.WriteByte(',')
				w.sp()
			}
			w.node(k)
		}
		w.sp()
		w.b.WriteByte(']')
	case 'o':
		w.b.WriteByte('{')
		w.sp()
		for i, k := range n.kids {
			if i > 0 {
				w.sp()
				w.b.WriteByte(',')
				w.sp()
			}
			w.str(n.keys[i], false)
			w.sp()
			w.b.WriteByte(':')
			w.sp()
			w.node(k)
		}
		w.sp()
		w.b.WriteByte('}')
	}
}

// c11Text renders the tree; whitespace may also precede the first and follow the last token.
func c11Text(r *rand.Rand, root *c11N, ws, esc float64) string {
	t, _ := c11TextPlan(r, root, ws, esc)
	return t
}

// c11TextPlan is c11Text and also tells which long-whitespace plan the text got: a
// quarter of the texts carry a run of 20-300 bytes of space/tab/LF/CR before the first
// token, between the root's '[' and the label, at both places, or at other boundaries.
func c11TextPlan(r *rand.Rand, root *c11N, ws, esc float64) (string, string) {
	w := &c11W{r: r, ws: ws, esc: esc, root: root}
	plan := "short"
	switch r.IntN(16) {
	case 0:
		w.lead, plan = c11RunLen(r), "long-leading"
	case 1:
		w.open, plan = c11RunLen(r), "long-before-label"
	case 2:
		w.lead, w.open, plan = c11RunLen(r), c11RunLen(r), "long-leading+before-label"
	case 3:
		w.longp, plan = 0.04, "long-elsewhere"
	}
	w.run(w.lead)
	w.sp()
	w.node(root)
	w.sp()
	return w.b.String(), plan
}

// c11Style draws the whitespace / escape probabilities of one text.
func c11Style(r *rand.Rand) (ws, esc float64, name string) {
	switch r.IntN(16) {
	case 0, 1, 2, 3:
		return 0, 0, "compact"
	case 4, 5:
		return 1, 0, "ws-everywhere"
	case 6, 7, 8:
		return 0.5, 0, "ws-half"
	case 9, 10:
		return 0.15, 0, "ws-sparse"
	case 11, 12:
		return 0, 0.1, "esc"
	case 13, 14:
		return 0.4, 0.05, "ws+esc"
	default:
		return 1, 1, "ws-everywhere+esc-everything"
	}
}

// ---------------------------------------------------------------------------
// values

const c11HexDigits = "0123456789abcdef"

func c11Hex(r *rand.Rand, n int) string {
	b := make([]byte, n)
	for i := range b {
		b[i] = c11HexDigits[r.IntN(16)]
	}
	return string(b)
}

var c11Kinds = []int64{0, 1, 2, 3, 4, 5, 6, 7, 40, 1984, 9734, 9999, 10000, 10002, 19999, 20000, 22242, 29999,
	30000, 30023, 39999, 40000, 65534, 65535}

var c11Times = []int64{0, 1, 1700000000, 2147483647, 2147483648, 4294967295, 4294967296, 1 << 53, 1<<53 + 1, 1 << 62, math.MaxInt64}

func c11Kind(r *rand.Rand) int64 {
	if r.IntN(3) == 0 {
		return int64(r.IntN(65536))
	}
	return vk.Pick(r, c11Kinds)
}

func c11Time(r *rand.Rand) int64 {
	if r.IntN(3) == 0 {
		return r.Int64N(1 << 40)
	}
	return vk.Pick(r, c11Times)
}

var c11DValues = []string{"", "abc", "a:b", ":", "::x:", "http://example.com/x:y", "30023:zz:q", "d with space", "日本語:テスト"}

func c11D(r *rand.Rand) string {
	if r.IntN(3) == 0 {
		return vk.HostileString(r, 12)
	}
	return vk.Pick(r, c11DValues)
}

func c11Addr(r *rand.Rand) string {
	return fmt.Sprintf("%d:%s:%s", c11Kind(r), c11Hex(r, 64), c11D(r))
}

// c11Cut truncates to at most n bytes on a rune boundary.
func c11Cut(s string, n int) string {
	if len(s) <= n {
		return s
	}
	for n > 0 && !utf8.RuneStart(s[n]) {
		n--
	}
	return s[:n]
}

// c11SubID: 1..64 bytes (so 1..64 characters under either reading of "length").
func c11SubID(r *rand.Rand) string {
	switch r.IntN(6) {
	case 0:
		return "sub1"
	case 1:
		return strings.Repeat("x", 64)
	case 2:
		return c11Hex(r, 1+r.IntN(64))
	case 3:
		return vk.Pick(r, []string{":", "a b", "{}", "[\"REQ\"]", "null", "0", "é", "#e", "\\"})
	default:
		s := c11Cut(vk.HostileString(r, 30), 64)
		if s == "" {
			s = "s"
		}
		return s
	}
}

var c11TagNames = []string{"e", "p", "a", "d", "t", "r", "E", "P", "client", "nonce", "expiration", "-", "alt", "relay", "challenge", "é", "#e", " "}

func c11EventStruct(r *rand.Rand, plain bool) *mocrelay.Event {
	e := &mocrelay.Event{
		Pubkey:    c11Hex(r, 64),
		Kind:      c11Kind(r),
		CreatedAt: c11Time(r),
		Tags:      []mocrelay.Tag{},
	}
	if plain {
		e.Content = fmt.Sprintf("plain content %d", r.IntN(1000000))
	} else {
		switch r.IntN(8) {
		case 0:
			e.Content = ""
		case 1:
			e.Content = vk.HostileString(r, 600)
		default:
			e.Content = vk.HostileString(r, 40)
		}
	}
	nt := 0
	if r.IntN(4) != 0 {
		nt = 1 + r.IntN(6)
	}
	for i := 0; i < nt; i++ {
		var name string
		if !plain && r.IntN(5) == 0 {
			name = vk.HostileString(r, 6)
			if name == "" {
				name = "x"
			}
		} else {
			name = vk.Pick(r, c11TagNames)
		}
		tag := mocrelay.Tag{name}
		nv := r.IntN(5)
		for j := 0; j < nv; j++ {
			switch {
			case j == 0 && name == "a":
				tag = append(tag, c11Addr(r))
			case j == 0 && (name == "e" || name == "p") && r.IntN(4) != 0:
				tag = append(tag, c11Hex(r, 64))
			case plain:
				tag = append(tag, fmt.Sprintf("v%d", r.IntN(100)))
			case r.IntN(4) == 0:
				tag = append(tag, "")
			default:
				tag = append(tag, vk.HostileString(r, 10))
			}
		}
		e.Tags = append(e.Tags, tag)
	}
	return e
}

func c11EventNode(r *rand.Rand, e *mocrelay.Event) *c11N {
	o := c11O()
	o.put("id", c11S(e.ID))
	o.put("pubkey", c11S(e.Pubkey))
	o.put("created_at", c11I(e.CreatedAt))
	o.put("kind", c11I(e.Kind))
	tags := c11A()
	for _, t := range e.Tags {
		tags.kids = append(tags.kids, c11StrArr(t))
	}
	o.put("tags", tags)
	o.put("content", c11S(e.Content))
	o.put("sig", c11S(e.Sig))
	if r != nil {
		o.shuffle(r)
	}
	return o
}

const c11Letters = "abcdefghijklmnopqrstuvwxyzABCDEFGHIJKLMNOPQRSTUVWXYZ"

// c11TagFilterValue draws one well-formed value for the tag filter "#<letter>".
func c11TagFilterValue(r *rand.Rand, letter byte) string {
	switch letter {
	case 'e', 'p':
		return c11Hex(r, 64)
	case 'a':
		return c11Addr(r)
	}
	switch r.IntN(4) {
	case 0:
		return ""
	case 1:
		return c11Hex(r, 64)
	default:
		return vk.HostileString(r, 10)
	}
}

func c11List(r *rand.Rand, gen func() *c11N) *c11N {
	a := c11A()
	n := 0
	switch r.IntN(5) {
	case 0:
		n = 0
	case 1, 2:
		n = 1
	case 3:
		n = 2
	default:
		n = 3 + r.IntN(4)
	}
	for i := 0; i < n; i++ {
		a.kids = append(a.kids, gen())
	}
	return a
}

// c11Filter: every member independently absent / empty list / singleton / several;
// since <= until whenever both are present.
func c11Filter(r *rand.Rand) *c11N {
	f := c11O()
	if r.IntN(3) == 0 {
		f.put("ids", c11List(r, func() *c11N { return c11S(c11Hex(r, 64)) }))
	}
	if r.IntN(3) == 0 {
		f.put("authors", c11List(r, func() *c11N { return c11S(c11Hex(r, 64)) }))
	}
	if r.IntN(3) == 0 {
		f.put("kinds", c11List(r, func() *c11N { return c11I(c11Kind(r)) }))
	}
	if r.IntN(2) == 0 {
		n := 1 + r.IntN(3)
		for i := 0; i < n; i++ {
			var l byte
			switch r.IntN(4) {
			case 0:
				l = "epa"[r.IntN(3)]
			default:
				l = c11Letters[r.IntN(len(c11Letters))]
			}
			f.put("#"+string(l), c11List(r, func() *c11N { return c11S(c11TagFilterValue(r, l)) }))
		}
	}
	var since, until int64 = -1, -1
	if r.IntN(3) == 0 {
		since = c11Time(r)
	}
	if r.IntN(3) == 0 {
		until = c11Time(r)
	}
	if since >= 0 && until >= 0 && since > until {
		since, until = until, since
	}
	if since >= 0 && until >= 0 && r.IntN(4) == 0 {
		until = since
	}
	if since >= 0 {
		f.put("since", c11I(since))
	}
	if until >= 0 {
		f.put("until", c11I(until))
	}
	if r.IntN(3) == 0 {
		f.put("limit", c11I(vk.Pick(r, []int64{0, 1, 10, 500, 5000, 1 << 31, math.MaxInt64})))
	}
	f.shuffle(r)
	return f
}

// ---------------------------------------------------------------------------
// messages

var c11Labels = []string{"EVENT", "REQ", "CLOSE", "AUTH", "COUNT"}

type c11Msg struct {
	label   string
	root    *c11N
	event   *c11N   // EVENT, AUTH
	filters []*c11N // REQ, COUNT
}

func c11Label(l string) *c11N { n := c11S(l); n.noEsc = true; return n }

// c11GenMsg builds one well-formed message. signed: the event carries a real BIP-340
// signature and plain content (needed behind Relay.ServeHTTP, which also verifies).
func c11GenMsg(r *rand.Rand, label string, signed bool) *c11Msg {
	m := &c11Msg{label: label}
	switch label {
	case "EVENT", "AUTH":
		e := c11EventStruct(r, signed)
		if label == "AUTH" && r.IntN(2) == 0 {
			e.Kind = 22242
		}
		if signed {
			vk.Sign(vk.KeyN(r.IntN(8)), e)
		} else {
			vk.Seal(e)
		}
		m.event = c11EventNode(r, e)
		m.root = c11A(c11Label(label), m.event)
	case "CLOSE":
		m.root = c11A(c11Label(label), c11S(c11SubID(r)))
	case "REQ", "COUNT":
		m.root = c11A(c11Label(label), c11S(c11SubID(r)))
		nf := 1
		if r.IntN(3) == 0 {
			nf = 2 + r.IntN(3)
		}
		for i := 0; i < nf; i++ {
			f := c11Filter(r)
			m.filters = append(m.filters, f)
			m.root.kids = append(m.root.kids, f)
		}
	default:
		panic("c11GenMsg: label " + label)
	}
	return m
}

// c11Shape summarises which optional parts a well-formed message carries (the key of
// a distinct non-trivial case together with label and text style).
func c11Shape(m *c11Msg) string {
	var parts []string
	if m.event != nil {
		t := m.event.get("tags")
		n := 0
		maxl := 0
		if t != nil {
			n = len(t.kids)
			for _, k := range t.kids {
				if len(k.kids) > maxl {
					maxl = len(k.kids)
				}
			}
		}
		c := m.event.get("content")
		parts = append(parts, fmt.Sprintf("tags%d/len%d/content:%s", c11Bucket(n), maxl, vk.EscapeClass(c.s)))
	}
	for _, f := range m.filters {
		var ks []string
		for i, k := range f.keys {
			kk := k
			if strings.HasPrefix(k, "#") && k != "#e" && k != "#p" && k != "#a" {
				kk = "#x"
			}
			if f.kids[i].kind == 'a' {
				kk += strconv.Itoa(c11Bucket(len(f.kids[i].kids)))
			}
			ks = append(ks, kk)
		}
		sort.Strings(ks)
		parts = append(parts, "{"+strings.Join(ks, ",")+"}")
	}
	return strings.Join(parts, "")
}

func c11Bucket(n int) int {
	if n > 2 {
		return 3
	}
	return n
}
