package mocrelay_test

import (
	"fmt"
	"math/rand/v2"
	"strings"

	vk "github.com/high-moctane/mocrelay/internal/verifkit"
)

// C11 — the single-point corruption catalogue of the statement (every class must be
// rejected by parsing or by validity), and the "not claimed" injectors that are only
// observed.

// c11Class: on: which messages it applies to — 'E' event bearing (EVENT, AUTH),
// 'F' filter bearing (REQ, COUNT), 'S' sub id bearing (REQ, COUNT, CLOSE),
// '2' fixed arity (EVENT, AUTH, CLOSE), '*' all.
type c11Class struct {
	name  string
	on    byte
	apply func(r *rand.Rand, m *c11Msg) string // returns a detail (sub-class)
}

func c11LabelsFor(on byte) []string {
	switch on {
	case 'E':
		return []string{"EVENT", "AUTH"}
	case 'F':
		return []string{"REQ", "COUNT"}
	case 'S':
		return []string{"REQ", "COUNT", "CLOSE"}
	case '2':
		return []string{"EVENT", "AUTH", "CLOSE"}
	}
	return c11Labels
}

type c11Alt struct {
	name string
	kind byte // s n b z a o
	mk   func() *c11N
}

var c11Alts = []c11Alt{
	{"string", 's', func() *c11N { return c11S("x") }},
	{"numeric-string", 's', func() *c11N { return c11S("1") }},
	{"number", 'n', func() *c11N { return c11I(1) }},
	{"bool", 'b', func() *c11N { return c11Bool(true) }},
	{"null", 'z', func() *c11N { return c11Null() }},
	{"empty-array", 'a', func() *c11N { return c11A() }},
	{"array", 'a', func() *c11N { return c11A(c11S("x")) }},
	{"empty-object", 'o', func() *c11N { return c11O() }},
	{"object", 'o', func() *c11N { o := c11O(); o.put("a", c11I(1)); return o }},
}

// c11Wrong draws a value whose JSON type is none of those in not.
func c11Wrong(r *rand.Rand, not string) (*c11N, string) {
	for {
		a := vk.Pick(r, c11Alts)
		if strings.IndexByte(not, a.kind) < 0 {
			return a.mk(), a.name
		}
	}
}

// c11BadHex corrupts a well-formed lowercase hex string at one point.
func c11BadHex(r *rand.Rand, good string) (string, string) {
	n := len(good)
	p := r.IntN(n)
	switch r.IntN(12) {
	case 0:
		return good[:n-1], "len-1"
	case 1:
		return good + string(c11HexDigits[r.IntN(16)]), "len+1"
	case 2:
		return "", "empty"
	case 3:
		return good + good, "len*2"
	case 4:
		return good[:n/2], "len/2"
	case 5, 6:
		return good[:p] + string(rune('A'+r.IntN(6))) + good[p+1:], "upper-one"
	case 7:
		return strings.ToUpper("a" + good[1:]), "upper-all"
	case 8, 9:
		return good[:p] + string("gzGx -_:./"[r.IntN(10)]) + good[p+1:], "nonhex-ascii"
	case 10:
		p = r.IntN(n - 1)
		return good[:p] + "é" + good[p+2:], "nonhex-multibyte-same-byte-length"
	default:
		return good[:p] + "\x00" + good[p+1:], "nonhex-nul"
	}
}

// non-ASCII runes by encoded size; the first entries of each row have a low byte that is
// an ASCII hex digit (U+0161 -> 0x61 'a', U+0130 -> '0', ...), the kind of rune a
// byte-indexed or truncating hex test lets through.
var c11HexLookalikes = [][]rune{
	2: {0x0161, 0x0130, 0x0266, 0x0439, 0x0165, 0x00e9, 0x00df, 0x0416},
	3: {0x3061, 0x4e30, 0x2166, 0x3039, 0xff10, 0x3042, 0x20ac, 0xff41},
	4: {0x1f630, 0x1f461, 0x10366, 0x1f939, 0x1f600, 0x10000, 0x2f800},
}

// c11BadHexUnicode puts non-ASCII runes into a well-formed hex string, keeping either
// the BYTE length or the RUNE count at the required value.
func c11BadHexUnicode(r *rand.Rand, good string) (string, string) {
	n := len(good)
	size := 2 + r.IntN(3)
	pool := c11HexLookalikes[size]
	ix := r.IntN(len(pool))
	c := string(pool[ix])
	look := "other-low-byte"
	if ix < 4 {
		look = "hex-low-byte"
	}
	where := r.IntN(3)
	wname := []string{"start", "middle", "end"}[where]
	switch r.IntN(6) {
	case 0, 1, 2: // byte length kept: the rune takes the place of `size` hex digits
		p := []int{0, 1 + r.IntN(n-size-1), n - size}[where]
		out := good[:p] + c + good[p+size:]
		if r.IntN(4) == 0 { // a second rune at the other end
			c2 := string(vk.Pick(r, c11HexLookalikes[2]))
			if where == 0 {
				out = out[:n-2] + c2
			} else {
				out = c2 + out[2:]
			}
			wname += "+second"
		}
		return out, fmt.Sprintf("bytes-kept/%d-byte-rune/%s/%s", size, wname, look)
	case 3, 4: // rune count kept: the rune takes the place of one hex digit
		p := []int{0, 1 + r.IntN(n-2), n - 1}[where]
		return good[:p] + c + good[p+1:], fmt.Sprintf("runes-kept/%d-byte-rune/%s/%s", size, wname, look)
	default: // nothing but such runes
		if r.IntN(2) == 0 {
			return strings.Repeat(c, n/size) + good[:n%size], fmt.Sprintf("bytes-kept/all-%d-byte-runes/%s", size, look)
		}
		return strings.Repeat(c, n), fmt.Sprintf("runes-kept/all-%d-byte-runes/%s", size, look)
	}
}

func c11PickFilter(r *rand.Rand, m *c11Msg) *c11N { return m.filters[r.IntN(len(m.filters))] }

// c11EnsureList makes sure the filter has a non-empty list under key.
func c11EnsureList(r *rand.Rand, f *c11N, key string, gen func() *c11N) *c11N {
	l := f.get(key)
	if l == nil || l.kind != 'a' || len(l.kids) == 0 {
		l = c11A(gen())
		if r.IntN(2) == 0 {
			l.kids = append(l.kids, gen())
		}
		f.put(key, l)
	}
	return l
}

// c11MustArr panics (before anything is modified) when an earlier operation of the
// mixed stream removed or retyped the list; c11TryApply then skips the operation.
func c11MustArr(l *c11N) *c11N {
	if l == nil || l.kind != 'a' {
		panic("c11: not a list")
	}
	return l
}

// c11SetElem replaces (or inserts) one element of a list.
func c11SetElem(r *rand.Rand, l *c11N, v *c11N) {
	c11MustArr(l)
	if len(l.kids) > 0 && r.IntN(2) == 0 {
		l.kids[r.IntN(len(l.kids))] = v
		return
	}
	p := r.IntN(len(l.kids) + 1)
	l.kids = append(l.kids, nil)
	copy(l.kids[p+1:], l.kids[p:])
	l.kids[p] = v
}

var c11BadKinds = []string{"-1", "65536", "65537", "2147483648", "1099511627776", "-65535", "9223372036854775807",
	"9223372036854775808", "-9223372036854775808", "18446744073709551616", "4294967296", "4295032831"}

func c11Catalogue() []c11Class {
	var cs []c11Class
	add := func(name string, on byte, f func(r *rand.Rand, m *c11Msg) string) {
		cs = append(cs, c11Class{name, on, f})
	}

	// ---- envelope
	add("envelope/not-array", '*', func(r *rand.Rand, m *c11Msg) string {
		switch r.IntN(4) {
		case 0:
			o := c11O()
			o.put("msg", m.root)
			m.root = o
			return "object"
		case 1:
			m.root = c11S(m.label)
			return "string"
		case 2:
			o := c11O()
			for i, k := range m.root.kids {
				o.put(string(rune('0'+i)), k)
			}
			m.root = o
			return "object-indexed"
		default:
			m.root = c11I(1)
			return "number"
		}
	})
	add("envelope/nested-array", '*', func(r *rand.Rand, m *c11Msg) string { m.root = c11A(m.root); return "" })
	add("envelope/empty-array", '*', func(r *rand.Rand, m *c11Msg) string { m.root = c11A(); return "" })
	add("envelope/label-unknown", '*', func(r *rand.Rand, m *c11Msg) string {
		l := vk.Pick(r, []string{"EVENTS", "REQS", "FOO", "", "EVEN", "EOSE", "OK", "NOTICE", "CLOSED", "CLOSE ", " REQ", "EV-ENT", "REQ\n", "COUNT1", "AUTH_", "ＥＶＥＮＴ"})
		if l == m.label {
			l = "X"
		}
		m.root.kids[0] = c11Label(l)
		return l
	})
	add("envelope/label-case", '*', func(r *rand.Rand, m *c11Msg) string {
		l := strings.ToLower(m.label)
		if r.IntN(2) == 0 {
			l = m.label[:1] + strings.ToLower(m.label[1:])
		}
		m.root.kids[0] = c11Label(l)
		return l
	})
	add("envelope/label-type", '*', func(r *rand.Rand, m *c11Msg) string {
		if r.IntN(4) == 0 {
			m.root.kids[0] = c11A(c11Label(m.label))
			return "array-of-label"
		}
		n, d := c11Wrong(r, "s")
		m.root.kids[0] = n
		return d
	})
	add("envelope/label-missing", '*', func(r *rand.Rand, m *c11Msg) string {
		if len(m.root.kids) < 2 {
			m.root = c11A()
			return ""
		}
		m.root.kids = m.root.kids[1:]
		return ""
	})
	add("envelope/arity-short", '2', func(r *rand.Rand, m *c11Msg) string { m.root.kids = m.root.kids[:1]; return "" })
	add("envelope/arity-long", '2', func(r *rand.Rand, m *c11Msg) string {
		switch r.IntN(4) {
		case 0:
			m.root.kids = append(m.root.kids, c11S("extra"))
			return "string"
		case 1:
			m.root.kids = append(m.root.kids, m.root.kids[1])
			return "repeated"
		case 2:
			m.root.kids = append(m.root.kids, c11O())
			return "object"
		default:
			m.root.kids = []*c11N{m.root.kids[0], c11S("sub"), m.root.kids[1]}
			return "subid-inserted"
		}
	})
	add("envelope/subid-type", 'S', func(r *rand.Rand, m *c11Msg) string {
		n, d := c11Wrong(r, "sz")
		m.root.kids[1] = n
		return d
	})
	add("envelope/event-type", 'E', func(r *rand.Rand, m *c11Msg) string {
		if r.IntN(4) == 0 {
			m.root.kids[1] = c11A(m.event)
			return "array-of-event"
		}
		n, d := c11Wrong(r, "oz")
		m.root.kids[1] = n
		return d
	})
	add("envelope/filter-type", 'F', func(r *rand.Rand, m *c11Msg) string {
		i := 2 + r.IntN(len(m.filters))
		if r.IntN(4) == 0 {
			m.root.kids[i] = c11A(m.root.kids[i])
			return "array-of-filter"
		}
		n, d := c11Wrong(r, "oz")
		m.root.kids[i] = n
		return d
	})

	// ---- event
	members := []string{"id", "pubkey", "created_at", "kind", "tags", "content", "sig"}
	mtype := map[string]string{"id": "s", "pubkey": "s", "created_at": "n", "kind": "n", "tags": "a", "content": "s", "sig": "s"}
	for _, k := range members {
		k := k
		add("event/missing-"+k, 'E', func(r *rand.Rand, m *c11Msg) string { m.event.del(k); return "" })
		add("event/type-"+k, 'E', func(r *rand.Rand, m *c11Msg) string {
			if mtype[k] == "n" && r.IntN(3) == 0 {
				m.event.put(k, c11S(m.event.get(k).s))
				return "number-as-string"
			}
			n, d := c11Wrong(r, mtype[k])
			m.event.put(k, n)
			return d
		})
	}
	add("event/extra-member", 'E', func(r *rand.Rand, m *c11Msg) string {
		k := vk.Pick(r, []string{"foo", "ots", "ID", "", "seen_on", "Kind", "created-at", "id ", "pubKey"})
		var v *c11N
		switch r.IntN(3) {
		case 0:
			v = c11S("x")
		case 1:
			v = c11I(1)
		default:
			v = c11A()
		}
		m.event.put(k, v)
		m.event.shuffle(r)
		return k
	})
	add("event/misnamed-member", 'E', func(r *rand.Rand, m *c11Msg) string {
		alt := map[string]string{"id": "Id", "pubkey": "pubKey", "created_at": "createdAt", "kind": "Kind", "tags": "tag", "content": "contents", "sig": "signature"}
		k := vk.Pick(r, members)
		m.event.rename(k, alt[k])
		return k
	})
	for _, k := range []string{"id", "pubkey", "sig"} {
		k := k
		add("event/hex-"+k, 'E', func(r *rand.Rand, m *c11Msg) string {
			s, d := c11BadHex(r, m.event.get(k).s)
			m.event.put(k, c11S(s))
			return d
		})
	}
	for _, k := range []string{"id", "pubkey", "sig"} {
		k := k
		add("event/hex-unicode-"+k, 'E', func(r *rand.Rand, m *c11Msg) string {
			s, d := c11BadHexUnicode(r, m.event.get(k).s)
			m.event.put(k, c11S(s))
			return d
		})
	}
	add("event/kind-range", 'E', func(r *rand.Rand, m *c11Msg) string {
		k := vk.Pick(r, c11BadKinds)
		m.event.put("kind", c11Num(k))
		return k
	})
	add("event/kind-fraction", 'E', func(r *rand.Rand, m *c11Msg) string {
		k := vk.Pick(r, []string{"1.5", "0.5", "65535.5", "0.001", "-0.5", "30000.25"})
		m.event.put("kind", c11Num(k))
		return k
	})
	add("event/created_at-fraction", 'E', func(r *rand.Rand, m *c11Msg) string {
		k := vk.Pick(r, []string{"1.5", "1700000000.25", "0.5", "1700000000.999"})
		m.event.put("created_at", c11Num(k))
		return k
	})
	add("event/tag-type", 'E', func(r *rand.Rand, m *c11Msg) string {
		n, d := c11Wrong(r, "a")
		c11SetElem(r, m.event.get("tags"), n)
		return d
	})
	add("event/tag-element-type", 'E', func(r *rand.Rand, m *c11Msg) string {
		tags := c11MustArr(m.event.get("tags"))
		if len(tags.kids) == 0 {
			tags.kids = append(tags.kids, c11A(c11S("t"), c11S("v")))
		}
		n, d := c11Wrong(r, "s")
		c11SetElem(r, tags.kids[r.IntN(len(tags.kids))], n)
		return d
	})

	// ---- filter
	hexgen := func(r *rand.Rand) func() *c11N { return func() *c11N { return c11S(c11Hex(r, 64)) } }
	for _, k := range []string{"ids", "authors", "#e", "#p"} {
		k := k
		cl := "filter/" + strings.TrimPrefix(k, "#")
		add(cl+"-hex", 'F', func(r *rand.Rand, m *c11Msg) string {
			l := c11EnsureList(r, c11PickFilter(r, m), k, hexgen(r))
			s, d := c11BadHex(r, c11Hex(r, 64))
			c11SetElem(r, l, c11S(s))
			return d
		})
		add(cl+"-hex-unicode", 'F', func(r *rand.Rand, m *c11Msg) string {
			l := c11EnsureList(r, c11PickFilter(r, m), k, hexgen(r))
			s, d := c11BadHexUnicode(r, c11Hex(r, 64))
			c11SetElem(r, l, c11S(s))
			return d
		})
		add(cl+"-element-type", 'F', func(r *rand.Rand, m *c11Msg) string {
			l := c11EnsureList(r, c11PickFilter(r, m), k, hexgen(r))
			n, d := c11Wrong(r, "s")
			c11SetElem(r, l, n)
			return d
		})
		add(cl+"-type", 'F', func(r *rand.Rand, m *c11Msg) string {
			if r.IntN(4) == 0 {
				c11PickFilter(r, m).put(k, c11S(c11Hex(r, 64)))
				return "bare-string"
			}
			n, d := c11Wrong(r, "a")
			c11PickFilter(r, m).put(k, n)
			return d
		})
	}
	kindgen := func(r *rand.Rand) func() *c11N { return func() *c11N { return c11I(c11Kind(r)) } }
	add("filter/kinds-type", 'F', func(r *rand.Rand, m *c11Msg) string {
		n, d := c11Wrong(r, "a")
		if d == "number" {
			n = c11I(c11Kind(r))
		}
		c11PickFilter(r, m).put("kinds", n)
		return d
	})
	add("filter/kinds-element-type", 'F', func(r *rand.Rand, m *c11Msg) string {
		l := c11EnsureList(r, c11PickFilter(r, m), "kinds", kindgen(r))
		n, d := c11Wrong(r, "n")
		c11SetElem(r, l, n)
		return d
	})
	add("filter/kinds-element-range", 'F', func(r *rand.Rand, m *c11Msg) string {
		l := c11EnsureList(r, c11PickFilter(r, m), "kinds", kindgen(r))
		k := vk.Pick(r, c11BadKinds)
		c11SetElem(r, l, c11Num(k))
		return k
	})
	add("filter/kinds-element-fraction", 'F', func(r *rand.Rand, m *c11Msg) string {
		l := c11EnsureList(r, c11PickFilter(r, m), "kinds", kindgen(r))
		k := vk.Pick(r, []string{"1.5", "0.5", "65535.5", "-0.5"})
		c11SetElem(r, l, c11Num(k))
		return k
	})
	for _, k := range []string{"since", "until", "limit"} {
		k := k
		// the other bound is removed so that the corrupted member is the only deviation
		other := map[string]string{"since": "until", "until": "since"}[k]
		add("filter/"+k+"-negative", 'F', func(r *rand.Rand, m *c11Msg) string {
			f := c11PickFilter(r, m)
			v := vk.Pick(r, []string{"-1", "-2", "-2147483648", "-1700000000", "-4611686018427387904", "-9223372036854775808"})
			f.put(k, c11Num(v))
			if other != "" {
				f.del(other)
			}
			return v
		})
		add("filter/"+k+"-fraction", 'F', func(r *rand.Rand, m *c11Msg) string {
			f := c11PickFilter(r, m)
			v := vk.Pick(r, []string{"1.5", "0.5", "1700000000.5", "10.25"})
			f.put(k, c11Num(v))
			if other != "" {
				f.del(other)
			}
			return v
		})
		add("filter/"+k+"-type", 'F', func(r *rand.Rand, m *c11Msg) string {
			f := c11PickFilter(r, m)
			n, d := c11Wrong(r, "n")
			f.put(k, n)
			if other != "" {
				f.del(other)
			}
			return d
		})
	}
	add("filter/unknown-key", 'F', func(r *rand.Rand, m *c11Msg) string {
		k := vk.Pick(r, []string{"foo", "search", "id", "author", "kind", "IDs", "Since", "tags", "e", "", "#", "limit ", "a", "Authors", "KINDS", "x#", "e#"})
		var v *c11N
		switch r.IntN(3) {
		case 0:
			v = c11A(c11S(c11Hex(r, 64)))
		case 1:
			v = c11I(1)
		default:
			v = c11S("x")
		}
		f := c11PickFilter(r, m)
		f.put(k, v)
		f.shuffle(r)
		return k
	})
	add("filter/tag-key-two-letters", 'F', func(r *rand.Rand, m *c11Msg) string {
		k := vk.Pick(r, []string{"#ab", "#ee", "#e ", "##", "#e#", "#tt", "# e", "#emoji", "#pp", "#aA"})
		f := c11PickFilter(r, m)
		f.put(k, c11A(c11S("x")))
		f.shuffle(r)
		return k
	})
	add("filter/tag-key-not-a-letter", 'F', func(r *rand.Rand, m *c11Msg) string {
		k := vk.Pick(r, []string{"#1", "#_", "#-", "# ", "#0", "#.", "#@", "#[", "#`", "#{"})
		f := c11PickFilter(r, m)
		f.put(k, c11A(c11S("x")))
		f.shuffle(r)
		return k
	})
	add("filter/tag-type", 'F', func(r *rand.Rand, m *c11Msg) string {
		k := "#" + string(c11Letters[r.IntN(len(c11Letters))])
		if r.IntN(3) == 0 {
			c11PickFilter(r, m).put(k, c11S("x"))
			return "bare-string"
		}
		n, d := c11Wrong(r, "a")
		c11PickFilter(r, m).put(k, n)
		return d
	})
	add("filter/tag-value-type", 'F', func(r *rand.Rand, m *c11Msg) string {
		k := "#" + string("tdrgkxTZ"[r.IntN(8)])
		l := c11EnsureList(r, c11PickFilter(r, m), k, func() *c11N { return c11S(vk.HostileString(r, 6)) })
		n, d := c11Wrong(r, "s")
		c11SetElem(r, l, n)
		return d
	})
	add("filter/a-pubkey-unicode", 'F', func(r *rand.Rand, m *c11Msg) string {
		l := c11EnsureList(r, c11PickFilter(r, m), "#a", func() *c11N { return c11S(c11Addr(r)) })
		bad, d := c11BadHexUnicode(r, c11Hex(r, 64))
		c11SetElem(r, l, c11S(fmt.Sprintf("%d:%s:%s", c11Kind(r), bad, c11D(r))))
		return d
	})
	add("filter/a-malformed", 'F', func(r *rand.Rand, m *c11Msg) string {
		l := c11EnsureList(r, c11PickFilter(r, m), "#a", func() *c11N { return c11S(c11Addr(r)) })
		pk := c11Hex(r, 64)
		var s, d string
		switch r.IntN(15) {
		case 12: // kinds far beyond int64: 2^64 + k wraps into range when accumulated without a check
			s, d = vk.Pick(r, []string{"18446744073709581639", "18446744073709551616", "18446744073709617151", "36893488147419103232"})+":"+pk+":d", "kind-beyond-2^64"
		case 13:
			s, d = vk.Pick(r, []string{"4294967297", "4295032831", "9223372036854775807", "9223372036854775808"})+":"+pk+":d", "kind-huge"
		case 14:
			s, d = "99999999999999999999999999999999999999:"+pk+":d", "kind-38-digits"
		case 0:
			s, d = "", "empty"
		case 1:
			s, d = "30023", "no-colon"
		case 2:
			s, d = "30023:"+pk, "one-colon"
		case 3:
			s, d = "x:"+pk+":d", "kind-not-numeric"
		case 4:
			s, d = ":"+pk+":d", "kind-empty"
		case 5:
			s, d = "65536:"+pk+":d", "kind-65536"
		case 6:
			s, d = "-1:"+pk+":d", "kind-negative"
		case 7:
			s, d = "3.5:"+pk+":d", "kind-fraction"
		case 8:
			s, d = "30023::d", "pubkey-empty"
		case 9:
			bad, bd := c11BadHex(r, pk)
			if strings.Contains(bad, ":") {
				bad, bd = pk[:63], "len-1"
			}
			s, d = "30023:"+bad+":d", "pubkey-"+bd
		case 10:
			s, d = pk+":30023:d", "swapped"
		default:
			s, d = "30023:"+pk, "d-part-missing"
		}
		c11SetElem(r, l, c11S(s))
		return d
	})
	return cs
}

// ---------------------------------------------------------------------------
// "not claimed" injectors (observe-only): outcomes are counted, never judged.

func c11Observers() []c11Class {
	var cs []c11Class
	add := func(name string, on byte, f func(r *rand.Rand, m *c11Msg) string) {
		cs = append(cs, c11Class{name, on, f})
	}
	add("null-event", 'E', func(r *rand.Rand, m *c11Msg) string { m.root.kids[1] = c11Null(); return "" })
	add("null-filter", 'F', func(r *rand.Rand, m *c11Msg) string {
		m.root.kids[2+r.IntN(len(m.filters))] = c11Null()
		return ""
	})
	add("null-subid", 'S', func(r *rand.Rand, m *c11Msg) string { m.root.kids[1] = c11Null(); return "" })
	add("since>until", 'F', func(r *rand.Rand, m *c11Msg) string {
		f := c11PickFilter(r, m)
		u := r.Int64N(1 << 40)
		d := 1 + r.Int64N(1000)
		switch r.IntN(6) {
		case 0: // the smallest possible window end: 0 is a timestamp, not "no bound"
			u = 0
		case 1: // off by exactly one
			d = 1
		case 2: // far apart, at the top of the range
			u, d = r.Int64N(1000), 1<<62+r.Int64N(1<<62)
		}
		f.put("until", c11I(u))
		f.put("since", c11I(u+d))
		return fmt.Sprintf("until=%d", min(u, 2))
	})
	add("empty-tag", 'E', func(r *rand.Rand, m *c11Msg) string { c11SetElem(r, m.event.get("tags"), c11A()); return "" })
	add("empty-tag-name", 'E', func(r *rand.Rand, m *c11Msg) string {
		t := c11A(c11S(""))
		if r.IntN(2) == 0 {
			t.kids = append(t.kids, c11S("v"))
		}
		c11SetElem(r, m.event.get("tags"), t)
		return ""
	})
	add("subid-empty", 'S', func(r *rand.Rand, m *c11Msg) string { m.root.kids[1] = c11S(""); return "" })
	add("subid-long", 'S', func(r *rand.Rand, m *c11Msg) string {
		n := vk.Pick(r, []int{65, 66, 128, 300})
		m.root.kids[1] = c11S(strings.Repeat("s", n))
		return ""
	})
	add("exponent-integer", '*', func(r *rand.Rand, m *c11Msg) string {
		switch {
		case m.event != nil:
			if r.IntN(2) == 0 {
				m.event.put("kind", c11Num(vk.Pick(r, []string{"1e0", "1E3", "3e4", "1e5"})))
				return "kind"
			}
			m.event.put("created_at", c11Num(vk.Pick(r, []string{"1e9", "17E8", "1.7e9"})))
			return "created_at"
		case len(m.filters) > 0:
			f := c11PickFilter(r, m)
			switch r.IntN(3) {
			case 0:
				f.put("limit", c11Num("1e2"))
				return "limit"
			case 1:
				f.put("since", c11Num("1e3"))
				f.del("until")
				return "since"
			default:
				f.put("kinds", c11A(c11Num("1e1")))
				return "kinds"
			}
		}
		return "n/a"
	})
	add("integer-odd-form", '*', func(r *rand.Rand, m *c11Msg) string {
		switch {
		case m.event != nil:
			m.event.put("kind", c11Num(vk.Pick(r, []string{"1.0", "-0", "0.0"})))
			return "kind"
		case len(m.filters) > 0:
			c11PickFilter(r, m).put("limit", c11Num(vk.Pick(r, []string{"1.0", "-0", "10.00"})))
			return "limit"
		}
		return "n/a"
	})
	add("escaped-label", '*', func(r *rand.Rand, m *c11Msg) string {
		l := m.label
		m.root.kids[0] = c11Raw(`"\u00` + c11Hex2(l[0]) + l[1:] + `"`)
		return ""
	})
	add("no-filter", 'F', func(r *rand.Rand, m *c11Msg) string {
		if r.IntN(3) == 0 {
			m.root.kids = m.root.kids[:1]
			return "label-only"
		}
		m.root.kids = m.root.kids[:2]
		return "label+subid"
	})
	add("duplicate-key", '*', func(r *rand.Rand, m *c11Msg) string {
		switch {
		case m.event != nil:
			good := m.event.get("kind")
			if r.IntN(2) == 0 {
				m.event.put("kind", c11I(70000))
				m.event.putDup("kind", good)
				return "event-kind-bad-then-good"
			}
			m.event.putDup("kind", c11I(70000))
			return "event-kind-good-then-bad"
		case len(m.filters) > 0:
			f := c11PickFilter(r, m)
			f.del("until")
			if r.IntN(2) == 0 {
				f.put("since", c11I(-1))
				f.putDup("since", c11I(1))
				return "filter-since-bad-then-good"
			}
			f.put("since", c11I(1))
			f.putDup("since", c11I(-1))
			return "filter-since-good-then-bad"
		}
		return "n/a"
	})
	add("created_at-negative-or-huge", 'E', func(r *rand.Rand, m *c11Msg) string {
		v := vk.Pick(r, []string{"-1", "-1700000000", "9223372036854775808", "18446744073709551616"})
		m.event.put("created_at", c11Num(v))
		return v
	})
	add("huge-stamp", 'F', func(r *rand.Rand, m *c11Msg) string {
		f := c11PickFilter(r, m)
		k := vk.Pick(r, []string{"since", "until", "limit"})
		f.del("since")
		f.del("until")
		f.put(k, c11Num("9223372036854775808"))
		return k
	})
	add("a-kind-odd-form", 'F', func(r *rand.Rand, m *c11Msg) string {
		l := c11EnsureList(r, c11PickFilter(r, m), "#a", func() *c11N { return c11S(c11Addr(r)) })
		c11SetElem(r, l, c11S(vk.Pick(r, []string{"030023:", "+1:", "-0:", "00:"})+c11Hex(r, 64)+":d"))
		return ""
	})
	add("non-ascii-letter-tag-key", 'F', func(r *rand.Rand, m *c11Msg) string {
		c11PickFilter(r, m).put(vk.Pick(r, []string{"#é", "#あ", "#Ж"}), c11A(c11S("x")))
		return ""
	})
	return cs
}

func c11Hex2(b byte) string { return string([]byte{c11HexDigits[b>>4], c11HexDigits[b&15]}) }
