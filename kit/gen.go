package verifkit

import (
	"crypto/sha256"
	"encoding/hex"
	"fmt"
	"math/rand/v2"
	"strings"
	"unicode/utf8"

	"github.com/btcsuite/btcd/btcec/v2"
	"github.com/btcsuite/btcd/btcec/v2/schnorr"
	"github.com/high-moctane/mocrelay"
)

// ---------------------------------------------------------------------------
// keys and signing

type Key struct {
	priv *btcec.PrivateKey
	Pub  string
}

// KeyN derives key number i (stable across runs; the seed picks which keys are used).
func KeyN(i int) Key {
	h := sha256.Sum256([]byte(fmt.Sprintf("verifkit signing key %d", i)))
	priv, pub := btcec.PrivKeyFromBytes(h[:])
	return Key{priv, hex.EncodeToString(schnorr.SerializePubKey(pub))}
}

// KeyFromRNG draws a fresh key.
func KeyFromRNG(r *rand.Rand) Key {
	var b [32]byte
	for i := range b {
		b[i] = byte(r.Uint32())
	}
	b[0] &= 0x7f
	b[31] |= 1
	priv, pub := btcec.PrivKeyFromBytes(b[:])
	return Key{priv, hex.EncodeToString(schnorr.SerializePubKey(pub))}
}

// Sign fills pubkey, id (from the reference canonical form) and a real BIP-340 signature.
func Sign(k Key, e *mocrelay.Event) {
	e.Pubkey = k.Pub
	h := sha256.Sum256(CanonEvent(e))
	e.ID = hex.EncodeToString(h[:])
	sig, err := schnorr.Sign(k.priv, h[:])
	if err != nil {
		panic(err)
	}
	e.Sig = hex.EncodeToString(sig.Serialize())
}

// SignHash signs an arbitrary 32-byte digest (used for "wrong canonicalisation" forgeries).
func SignHash(k Key, h []byte) string {
	sig, err := schnorr.Sign(k.priv, h)
	if err != nil {
		panic(err)
	}
	return hex.EncodeToString(sig.Serialize())
}

// FakePub is a well-formed pubkey string that is not necessarily on the curve; store
// and routing monitors do not verify signatures.
func FakePub(i int) string {
	h := sha256.Sum256([]byte(fmt.Sprintf("verifkit author %d", i)))
	return hex.EncodeToString(h[:])
}

// Seal gives an event a real id (SHA-256 of its canonical form) and a well-formed,
// deterministic, unverifiable signature string.
func Seal(e *mocrelay.Event) *mocrelay.Event {
	if e.Tags == nil {
		e.Tags = []mocrelay.Tag{}
	}
	h := sha256.Sum256(CanonEvent(e))
	e.ID = hex.EncodeToString(h[:])
	s1 := sha256.Sum256(append([]byte("sig1"), h[:]...))
	s2 := sha256.Sum256(append([]byte("sig2"), h[:]...))
	e.Sig = hex.EncodeToString(s1[:]) + hex.EncodeToString(s2[:])
	return e
}

// ---------------------------------------------------------------------------
// strings

// InterestingRunes are the code points some JSON encoder treats specially.
var InterestingRunes = []rune{
	0x00, 0x01, 0x07, 0x08, 0x09, 0x0a, 0x0b, 0x0c, 0x0d, 0x0e, 0x1b, 0x1f, 0x20, '"', '\\', '/', '<', '>', '&', '\'',
	0x7f, 0x80, 0x85, 0xa0, 0xad, 0x2028, 0x2029, 0x200b, 0x200d, 0xfeff, 0xfffd, 0xfffe, 0xffff, 0xd7ff, 0xe000,
	0x10000, 0x1f600, 0x1f4a9, 0x10ffff, 0xe9, 0x3042, 0x4e2d, 0x0301, 0x202e,
}

// HostileString draws a string of up to max runes mixing ASCII, controls, JSON/HTML
// specials, line separators and astral code points; always valid UTF-8.
func HostileString(r *rand.Rand, max int) string {
	n := r.IntN(max + 1)
	var b strings.Builder
	for i := 0; i < n; i++ {
		switch r.IntN(10) {
		case 0, 1, 2:
			b.WriteByte(byte('a' + r.IntN(26)))
		case 3:
			b.WriteByte(byte(r.IntN(0x20)))
		case 4, 5:
			b.WriteRune(InterestingRunes[r.IntN(len(InterestingRunes))])
		case 6:
			b.WriteByte(byte(0x20 + r.IntN(0x5f)))
		case 7:
			b.WriteRune(randScalar(r, 0x80, 0xffff))
		case 8:
			b.WriteRune(randScalar(r, 0x10000, 0x10ffff))
		case 9:
			// texts that look like escapes or format directives once they are encoded
			b.WriteString([]string{"\\u2028", "\\n", "<script>", "&amp;", "\\\"", "  ", "]]", "\"}", "\x00\x00",
				"\\u0026", "\\u003c", "\\u003e", "\\u0000", "\\ud800", "%s", "%d%%", "%!", "\\\\u0026"}[r.IntN(18)])
		}
	}
	s := b.String()
	if !utf8.ValidString(s) {
		panic("HostileString produced invalid UTF-8")
	}
	return s
}

func randScalar(r *rand.Rand, lo, hi int) rune {
	for {
		c := rune(lo + r.IntN(hi-lo+1))
		if c >= 0xd800 && c <= 0xdfff {
			continue
		}
		return c
	}
}

// EscapeClass tells which special classes a string exercises (for coverage accounting).
func EscapeClass(s string) string {
	var c [9]bool
	for _, r := range s {
		switch {
		case r == '\n' || r == '\r' || r == '\t' || r == '\b' || r == '\f':
			c[0] = true
		case r < 0x20:
			c[1] = true
		case r == '"' || r == '\\':
			c[2] = true
		case r == '<' || r == '>' || r == '&':
			c[3] = true
		case r == 0x7f:
			c[4] = true
		case r == 0x2028 || r == 0x2029:
			c[5] = true
		case r >= 0x10000:
			c[7] = true
		case r >= 0x80:
			c[6] = true
		}
	}
	names := []string{"short", "c0", "quote", "html", "del", "ls", "bmp", "astral"}
	var out []string
	for i, n := range names {
		if c[i] {
			out = append(out, n)
		}
	}
	return strings.Join(out, "+")
}

// ---------------------------------------------------------------------------
// small helpers shared by generators

func Pick[T any](r *rand.Rand, xs []T) T { return xs[r.IntN(len(xs))] }

func Ptr[T any](v T) *T { return &v }

// HexOf derives a well-formed 64-hex id from a label.
func HexOf(label string) string {
	h := sha256.Sum256([]byte(label))
	return hex.EncodeToString(h[:])
}

// CloneEvent deep-copies an event.
func CloneEvent(e *mocrelay.Event) *mocrelay.Event {
	if e == nil {
		return nil
	}
	c := *e
	if e.Tags != nil {
		c.Tags = make([]mocrelay.Tag, len(e.Tags))
		for i, t := range e.Tags {
			if t != nil {
				c.Tags[i] = append(mocrelay.Tag{}, t...)
			}
		}
	}
	return &c
}

// EventsEqual compares all seven fields (nil and empty tag lists are the same).
func EventsEqual(a, b *mocrelay.Event) bool {
	if a == nil || b == nil {
		return a == b
	}
	if a.ID != b.ID || a.Pubkey != b.Pubkey || a.CreatedAt != b.CreatedAt || a.Kind != b.Kind ||
		a.Content != b.Content || a.Sig != b.Sig || len(a.Tags) != len(b.Tags) {
		return false
	}
	for i := range a.Tags {
		if len(a.Tags[i]) != len(b.Tags[i]) {
			return false
		}
		for j := range a.Tags[i] {
			if a.Tags[i][j] != b.Tags[i][j] {
				return false
			}
		}
	}
	return true
}

// ShortEvent renders an event for witnesses.
func ShortEvent(e *mocrelay.Event) map[string]any {
	if e == nil {
		return nil
	}
	id := e.ID
	if len(id) > 8 {
		id = id[:8]
	}
	pk := e.Pubkey
	if len(pk) > 6 {
		pk = pk[:6]
	}
	return map[string]any{"id": id, "pk": pk, "kind": e.Kind, "at": e.CreatedAt, "tags": e.Tags}
}
