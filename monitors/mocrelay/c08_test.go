package mocrelay_test

import (
	"context"
	"fmt"
	"math"
	"math/rand/v2"
	"sort"
	"strings"
	"sync"
	"sync/atomic"
	"testing"
	"time"

	"github.com/high-moctane/mocrelay"
	vk "github.com/high-moctane/mocrelay/internal/verifkit"
)

// C08 — merged REQ: one EOSE after all children, ordered de-duplicated stream before,
// per-child FIFO after.

var c08Authors = []string{vk.FakePub(800), vk.FakePub(801)}

func c08Filters(r *rand.Rand, base int64) []*mocrelay.ReqFilter {
	mk := func() *mocrelay.ReqFilter {
		f := &mocrelay.ReqFilter{}
		switch r.IntN(7) {
		case 0:
		case 6:
			// a list that is present and empty matches nothing (it is not the same as absent)
			switch r.IntN(3) {
			case 0:
				f.IDs = []string{}
			case 1:
				f.Authors = []string{}
			default:
				f.Kinds = []int64{}
			}
		case 5:
			// two tag conditions: both must be met, however often an event meets one of them
			f.Tags = map[string][]string{"t": {"v1", "v2"}, "p": {c08Authors[0]}}
		case 1:
			f.Kinds = []int64{1}
		case 2:
			f.Authors = []string{c08Authors[0]}
		case 3:
			f.Tags = map[string][]string{"t": {"v1"}}
		case 4:
			f.Since = vk.Ptr(base + 5)
			if base == c08Wide {
				f.Since = vk.Ptr(int64(0))
			}
		}
		if r.IntN(2) == 0 {
			f.Limit = vk.Ptr(int64(r.IntN(4)))
		}
		return f
	}
	if r.IntN(3) == 0 {
		return []*mocrelay.ReqFilter{mk(), mk()}
	}
	return []*mocrelay.ReqFilter{mk()}
}

// c08Wide marks a session whose timestamps are spread over the whole int64 range (differences
// between two of them do not fit into an int64).
const c08Wide = math.MinInt64 + 77

func c08Event(r *rand.Rand, tag string, base int64) *mocrelay.Event {
	if base == c08Wide {
		base = vk.Pick(r, []int64{math.MinInt64, -5, 0, 1 << 62, math.MaxInt64 - 9})
	}
	tags := []mocrelay.Tag{{"t", vk.Pick(r, []string{"v1", "v2"})}}
	switch r.IntN(6) {
	case 0:
		tags = []mocrelay.Tag{{"t", "v1"}, {"t", "v2"}}
	case 1:
		tags = append(tags, mocrelay.Tag{"p", c08Authors[0]})
	}
	return vk.Seal(&mocrelay.Event{Kind: vk.Pick(r, []int64{1, 1, 7}), Pubkey: vk.Pick(r, c08Authors), CreatedAt: base + int64(r.IntN(10)),
		Content: tag, Tags: tags})
}

func TestVerif_C08(t *testing.T) {
	rep := vk.NewReport(t, "C08", "exploration")
	rep.Rule = "NewMergeHandler over 2-5 (one handler in sixty: 60-109) scripted children; an event shared by several children is handed out as the same object or as equal copies; per REQ each child plays a seeded script: stored events (sorted or not, matching or not, shared with other children), its EOSE, then live events carrying unique (child, sequence) marks, with seeded yields/sleeps; timestamps come from a ten-second window that usually starts at 1000 and sometimes at 0, below 0, at either end of the int64 range, or is replaced by timestamps spread over the whole range; the client issues 1-6 REQs per session, CLOSEs at seeded points (before/around/after the EOSE), re-uses a subscription id only after its EOSE; child emissions and client receipts are stamped on one logical clock and judged offline per (sub id, generation): exactly one EOSE after every child's own (none when a child had received the CLOSE before the last child EOSE was sent), pre-EOSE events are child emissions that match the filters, pairwise distinct, non-increasing in created_at, at most n for a single filter with limit n, post-EOSE emissions all arrive equal and in child order; added later: filters with two tag conditions or a present-but-empty list; one session in three has a second REQ with an id of its own pending at the same time; something due but absent after the barrier is waited for (bounded) before it is called missing; non-trivial = a generation with at least two children that emitted events; distinct = distinct (children, EOSE order, drop reasons, close class) signatures"
	defer rep.Finish()
	pc := &pointCtl{sleep: true, only: "merge."}
	mocrelay.SetVerifPoint(pc.fn)
	defer mocrelay.SetVerifPoint(nil)
	ctx := context.Background()
	n := vk.N(8000, 150000)
	vk.ParallelW(12, n, func(i int) {
		if rep.Violations() >= 3 {
			return
		}
		r := vk.RNG("C08", i)
		nch := 2 + r.IntN(4)
		if r.IntN(60) == 0 { // "all numbers of children": now and then a very wide merge
			nch = 60 + r.IntN(50)
			rep.Count("handlers_with_60_to_109_children", 1)
		}
		w := newMWorld()
		w.cntRule = func(int, string, int) uint64 { return 0 }
		h, nestedMerge := mMerge(r, mkChildren(w, nch))
		if nestedMerge {
			rep.Count("handlers_with_a_nested_merge", 1)
		}
		// several clients may share one merged handler and the same subscription ids: the
		// bookkeeping of one connection must not leak into another
		session := func(r *rand.Rand, sidx int) {
			cl := newMClient(ctx, h)
			defer func() { cl.s.Stop(); <-cl.rdDone }()
			var gens []*mGen
			free := map[string]bool{"a": true, "b": true, "c": true}
			nreq := 1 + r.IntN(6)
			evn := 0
			// the ten-second window the timestamps of this session are drawn from: usually
			// 1000.., sometimes around zero or at the ends of the int64 range
			base := vk.Pick(r, []int64{1000, 1000, 1000, 1000, 0, -4, -9, math.MinInt64, math.MaxInt64 - 9, c08Wide})
			if base != 1000 {
				rep.Count("sessions_with_boundary_timestamps", 1)
			}
			fail := func(sig, why string, g *mGen) {
				wit := map[string]any{"children": nch, "client_received": describeRecv(cl.snapshot())}
				if g != nil {
					g.mu.Lock()
					wit["generation"] = map[string]any{"sub": g.sub, "filters": g.filters, "req_call": g.reqCall, "close_call": g.closeCall, "child_emissions": describeEmits(g.emits), "close_received_by_child_at": g.closeRecv}
					g.mu.Unlock()
				}
				rep.Violation(sig, why, wit)
			}
			for q := 0; q < nreq; q++ {
				// pick a free sub id (never re-issued before its EOSE; a generation closed
				// without EOSE retires its id)
				var sub string
				for s := range free {
					if free[s] && (sub == "" || s < sub) {
						sub = s
					}
				}
				if sub == "" || r.IntN(4) == 0 {
					sub = fmt.Sprintf("s%d", q)
				}
				free[sub] = false
				build := func(sub string) (*mGen, *mocrelay.ClientReqMsg) {
					g := &mGen{sub: sub, filters: c08Filters(r, base), plans: make([]mPlan, nch), closeRecv: make([]int64, nch), closed: make([]atomic.Bool, nch)}
					// shared pool of stored events for this generation
					pool := make([]*mocrelay.Event, 2+r.IntN(6))
					for k := range pool {
						evn++
						pool[k] = c08Event(r, fmt.Sprintf("stored-%d-%d", i, evn), base)
					}
					for c := 0; c < nch; c++ {
						p := mPlan{delaySeed: r.Uint64(), ignoreClos: r.IntN(2) == 0}
						if nch <= 6 && r.IntN(14) == 0 {
							p.refuse = true // this child answers CLOSED: the merged EOSE can never be due
							g.refused = true
						}
						ns := r.IntN(6)
						for k := 0; k < ns; k++ {
							ev := vk.Pick(r, pool)
							if r.IntN(2) == 0 {
								// the same event as another Go object (each child decoded it itself)
								ev = vk.CloneEvent(ev)
							}
							p.stored = append(p.stored, ev)
						}
						if r.IntN(3) != 0 { // well-behaved child: newest first, no duplicates
							sort.SliceStable(p.stored, func(a, b int) bool { return p.stored[a].CreatedAt > p.stored[b].CreatedAt })
						}
						nl := r.IntN(5)
						for k := 0; k < nl; k++ {
							evn++
							p.live = append(p.live, c08Event(r, fmt.Sprintf("live-%d-c%d-%d", i, c, evn), base))
						}
						g.plans[c] = p
					}
					g.left.Store(int32(nch))
					req := &mocrelay.ClientReqMsg{SubscriptionID: sub, ReqFilters: g.filters}
					w.mu.Lock()
					w.gens[req] = g
					w.bySub[sub] = append(w.bySub[sub], g)
					w.mu.Unlock()
					for _, o := range gens {
						if o.sub == sub {
							g.prev = append(g.prev, o)
						}
					}
					gens = append(gens, g)
					return g, req
				}
				g, req := build(sub)
				// one time in three a second REQ with an id of its own is pending at the same time
				// in the same session (its stream is judged like any other)
				var g2 *mGen
				var req2 *mocrelay.ClientReqMsg
				if r.IntN(3) == 0 {
					g2, req2 = build(fmt.Sprintf("k%d", q))
					rep.Count("sessions_with_two_pending_reqs", 1)
				}
				g.reqCall = vk.Tick()
				if !cl.s.Put(req) {
					fail("session/stalled", "the merged handler did not take a REQ", g)
					return
				}
				if g2 != nil {
					g2.reqCall = vk.Tick()
					if !cl.s.Put(req2) {
						fail("session/stalled", "the merged handler did not take a REQ", g2)
						return
					}
				}
				closeMode := r.IntN(10) // 0,1: close early; 2: close after EOSE; else no close
				if closeMode < 2 {
					for k := r.IntN(40); k > 0; k-- {
						time.Sleep(time.Duration(r.IntN(60)) * time.Microsecond)
					}
					g.closeCall = vk.Tick()
					cl.s.Put(&mocrelay.ClientCloseMsg{SubscriptionID: sub})
				}
				// wait until the children are through with this generation
				deadline := time.Now().Add(vk.WaitBound)
				for (g.left.Load() > 0 || (g2 != nil && g2.left.Load() > 0)) && time.Now().Before(deadline) {
					time.Sleep(100 * time.Microsecond)
				}
				if g.left.Load() > 0 || (g2 != nil && g2.left.Load() > 0) {
					// a violation only with a witness: a child goroutine parked in its channel send
					blocked := ""
					for _, gr := range vk.Goroutines() {
						if strings.Contains(gr.Stack, "mChild).emit") {
							blocked = gr.Stack
						}
					}
					if blocked != "" {
						fail("session/child-blocked", "a child could not hand its output to the merged handler within the bound (client is reading): "+blocked, g)
					} else {
						rep.Inconclusive("C08: scripted children did not finish their scripts within the bound, none is blocked in a send")
					}
					return
				}
				if !cl.barrier(fmt.Sprintf("barrier-%d", q)) {
					fail("session/stalled", "barrier COUNT not answered", g)
					return
				}
				if closeMode == 2 {
					g.closeCall = vk.Tick()
					cl.s.Put(&mocrelay.ClientCloseMsg{SubscriptionID: sub})
					cl.barrier(fmt.Sprintf("barrier2-%d", q))
				}
				judgeGen := func(g *mGen) bool {
					// judge this generation now (receipts since reqCall for this sub id)
					collect := func() []rRecv {
						var mine []rRecv
						for _, x := range cl.snapshot() {
							if x.at < g.reqCall {
								continue
							}
							switch m := x.msg.(type) {
							case *mocrelay.ServerEventMsg:
								if m.SubscriptionID == g.sub {
									mine = append(mine, x)
								}
							case *mocrelay.ServerEOSEMsg:
								if m.SubscriptionID == g.sub {
									mine = append(mine, x)
								}
							}
						}
						return mine
					}
					// The COUNT barrier bounds what is in flight only if replies of different kinds
					// leave in one order, which no statement fixes. Something that is due but absent
					// is therefore waited for (the wait ends when it arrives) before it is called
					// missing; once three violations are recorded the wait is cut short.
					mine := collect()
					for grace := time.Now().Add(vk.WaitBound / 2); ; {
						dry := ""
						c08Judge(func(string, int64) {}, g, mine, nch, func(sig, _ string, _ *mGen) { dry = sig })
						if (dry != "eose/missing" && dry != "post-eose/lost") || time.Now().After(grace) || rep.Violations() >= 3 {
							break
						}
						select {
						case <-cl.notify:
						case <-time.After(time.Millisecond):
						}
						mine = collect()
					}
					rep.Eval(1)
					sig, cls := c08Judge(rep.Count, g, mine, nch, fail)
					if sig != "" {
						return false
					}
					withEvents := 0
					for _, p := range g.plans {
						if len(p.stored)+len(p.live) > 0 {
							withEvents++
						}
					}
					if withEvents >= 2 {
						// the interleaving of child emissions as the client side saw it
						g.mu.Lock()
						es := append([]mEmit{}, g.emits...)
						g.mu.Unlock()
						sort.SliceStable(es, func(a, b int) bool { return es[a].call < es[b].call })
						key := fmt.Sprintf("%d/%s/", nch, cls)
						for _, e := range es {
							if _, is := e.msg.(*mocrelay.ServerEOSEMsg); is {
								key += fmt.Sprintf("E%d", e.child)
							} else {
								key += fmt.Sprintf("e%d", e.child)
							}
						}
						rep.Nontrivial(key)
					}
					rep.Seen("generation_classes", fmt.Sprintf("%d/%s", nch, cls))
					// the id may be reused only if its EOSE was received
					for _, x := range mine {
						if _, is := x.msg.(*mocrelay.ServerEOSEMsg); is {
							free[g.sub] = true
						}
					}
					if q == 0 && rep.WantSample() {
						g.mu.Lock()
						rep.Sample(map[string]any{"children": nch, "filters": vk.JSON(g.filters), "child_emissions": describeEmits(g.emits), "client_received": describeRecv(mine)})
						g.mu.Unlock()
					}
					return true
				}
				if !judgeGen(g) || (g2 != nil && !judgeGen(g2)) {
					return
				}
			}
		}
		if i%4 == 0 {
			var swg sync.WaitGroup
			for k, nk := 0, 2+r.IntN(2); k < nk; k++ {
				swg.Add(1)
				go func(k int) {
					defer swg.Done()
					session(vk.RNG("C08/concurrent", i*8+k), k)
				}(k)
			}
			swg.Wait()
			rep.Count("handlers_shared_by_concurrent_sessions", 1)
		} else {
			session(r, 0)
		}
		rep.Count("sessions", 1)
		rep.Count(fmt.Sprintf("sessions_with_%d_children", nch), 1)
	})
	pc.report(rep)
	rep.Require(rep.Counter("sessions") >= int64(n*9/10), "sessions")
	rep.Require(rep.Counter("eose_must") > 100 && rep.Counter("eose_must_not") > 20, "EOSE classes")
	rep.Require(rep.Counter("dropped:order") > 10 && rep.Counter("dropped:duplicate") > 10 && rep.Counter("dropped:filter") > 10 && rep.Counter("dropped:limit") > 10, "pre-EOSE drop reasons not all observed")
	rep.Require(rep.Counter("post_eose_must_events") > 100, "post-EOSE events")
	rep.Require(rep.Counter("hook_hits:merge.send.out") > 100, "verifPoint merge.send.out not reached")
}

func c08EmittedEarlier(g *mGen, id string) bool {
	for _, o := range g.prev {
		o.mu.Lock()
		for _, e := range o.emits {
			if m, is := e.msg.(*mocrelay.ServerEventMsg); is && m.Event.ID == id {
				o.mu.Unlock()
				return true
			}
		}
		o.mu.Unlock()
	}
	return false
}

// c08Judge checks one generation; returns a violation signature ("" if fine) and a class key.
func c08Judge(count func(string, int64), g *mGen, mine []rRecv, nch int, fail func(sig, why string, g *mGen)) (string, string) {
	g.mu.Lock()
	emits := append([]mEmit{}, g.emits...)
	closeRecv := append([]int64{}, g.closeRecv...)
	g.mu.Unlock()
	// child EOSE stamps
	eoseCall := make([]int64, nch)
	eoseRet := make([]int64, nch)
	for _, e := range emits {
		if _, is := e.msg.(*mocrelay.ServerEOSEMsg); is {
			eoseCall[e.child], eoseRet[e.child] = e.call, e.ret
		}
	}
	allEOSE, maxCall := true, int64(0)
	lastChild := -1
	for c := 0; c < nch; c++ {
		if eoseCall[c] == 0 {
			allEOSE = false
		} else if eoseCall[c] > maxCall {
			maxCall, lastChild = eoseCall[c], c
		}
	}
	minClose := int64(0)
	for _, x := range closeRecv {
		if x != 0 && (minClose == 0 || x < minClose) {
			minClose = x
		}
	}
	// client EOSEs
	var tE int64
	nE := 0
	for _, x := range mine {
		if _, is := x.msg.(*mocrelay.ServerEOSEMsg); is {
			nE++
			if tE == 0 {
				tE = x.at
			}
		}
	}
	cls := fmt.Sprintf("last%d", lastChild)
	if nE > 1 {
		fail("eose/duplicate", fmt.Sprintf("%d EOSE messages for one REQ of subscription %q", nE, g.sub), g)
		return "x", cls
	}
	if nE == 1 {
		for c := 0; c < nch; c++ {
			if eoseCall[c] == 0 || tE < eoseCall[c] {
				fail("eose/early", fmt.Sprintf("the client received EOSE for %q at t=%d before child %d had sent its own EOSE", g.sub, tE, c), g)
				return "x", cls
			}
		}
	}
	switch {
	case g.refused:
		// a child that refused the REQ never sends its EOSE: no merged EOSE is ever due
		count("eose_must_not_a_child_refused", 1)
		cls += "/child-refused"
		if nE != 0 {
			fail("eose/early", fmt.Sprintf("the client received EOSE for %q although a child answered the REQ with CLOSED and never sent an EOSE", g.sub), g)
			return "x", cls
		}
	case g.closeCall == 0:
		count("eose_must", 1)
		cls += "/noclose"
		if !allEOSE {
			fail("harness/child-did-not-finish", "a child did not emit its EOSE although nothing was closed", g)
			return "x", cls
		}
		if nE != 1 {
			fail("eose/missing", fmt.Sprintf("every child sent its EOSE for %q but the client received %d", g.sub, nE), g)
			return "x", cls
		}
	case !allEOSE || (minClose != 0 && minClose < maxCall):
		count("eose_must_not", 1)
		cls += "/closed-before-last-eose"
		if nE != 0 {
			fail("eose/after-close", fmt.Sprintf("subscription %q was closed (a child had received the CLOSE at t=%d, before the last child EOSE was sent at t=%d) but the client still received an EOSE", g.sub, minClose, maxCall), g)
			return "x", cls
		}
	default:
		count("eose_may", 1)
		cls += "/close-raced"
	}
	// events
	emittedBy := map[string][]mEmit{} // event id -> emissions
	for _, e := range emits {
		if m, is := e.msg.(*mocrelay.ServerEventMsg); is {
			emittedBy[m.Event.ID] = append(emittedBy[m.Event.ID], e)
		}
	}
	var limit *int64
	if len(g.filters) == 1 {
		limit = g.filters[0].Limit
	}
	seen := map[string]bool{}
	var lastAt int64 = math.MaxInt64
	pre := 0
	for _, x := range mine {
		m, is := x.msg.(*mocrelay.ServerEventMsg)
		if !is {
			continue
		}
		es := emittedBy[m.Event.ID]
		if len(es) == 0 && c08EmittedEarlier(g, m.Event.ID) {
			// a straggler of an earlier REQ with this subscription id (something a child emitted
			// after its EOSE or around the CLOSE): not part of this REQ's stream
			count("stragglers_of_an_earlier_req_with_the_same_id", 1)
			continue
		}
		if len(es) == 0 {
			fail("event/not-emitted-by-any-child", fmt.Sprintf("the client received event %.8s labelled %q that no child emitted for this subscription", m.Event.ID, g.sub), g)
			return "x", cls
		}
		if !vk.EventsEqual(es[0].msg.(*mocrelay.ServerEventMsg).Event, m.Event) {
			fail("event/altered", "a forwarded event differs from what the child emitted", g)
			return "x", cls
		}
		isPre := (tE != 0 && x.at < tE) || (tE == 0 && g.closeCall != 0 && x.at < g.closeCall) || (tE == 0 && g.closeCall == 0)
		if !isPre {
			continue
		}
		pre++
		if !vk.RefMatchAny(g.filters, m.Event) {
			fail("pre-eose/non-matching", fmt.Sprintf("event %.8s forwarded before the EOSE does not match the REQ's filters", m.Event.ID), g)
			return "x", cls
		}
		if seen[m.Event.ID] {
			fail("pre-eose/duplicate", fmt.Sprintf("event %.8s forwarded twice before the EOSE", m.Event.ID), g)
			return "x", cls
		}
		seen[m.Event.ID] = true
		if m.Event.CreatedAt > lastAt {
			fail("pre-eose/order", fmt.Sprintf("created_at increases (%d after %d) before the EOSE", m.Event.CreatedAt, lastAt), g)
			return "x", cls
		}
		lastAt = m.Event.CreatedAt
		if limit != nil && int64(pre) > *limit {
			fail("pre-eose/over-limit", fmt.Sprintf("%d events before the EOSE for a single filter with limit %d", pre, *limit), g)
			return "x", cls
		}
	}
	// what the children offered before their EOSE and why it could be dropped (coverage)
	{
		offeredSeen := map[string]bool{}
		var last int64 = math.MaxInt64
		cnt := int64(0)
		sort.SliceStable(emits, func(a, b int) bool { return emits[a].call < emits[b].call })
		for _, e := range emits {
			m, is := e.msg.(*mocrelay.ServerEventMsg)
			if !is || (eoseCall[e.child] != 0 && e.call > eoseCall[e.child]) {
				continue
			}
			switch {
			case m.Event.CreatedAt > last:
				count("dropped:order", 1)
			case offeredSeen[m.Event.ID]:
				count("dropped:duplicate", 1)
			case !vk.RefMatchAny(g.filters, m.Event):
				count("dropped:filter", 1)
			case limit != nil && cnt >= *limit:
				count("dropped:limit", 1)
			default:
				cnt++
			}
			offeredSeen[m.Event.ID] = true
			if m.Event.CreatedAt < last {
				last = m.Event.CreatedAt
			}
		}
	}
	// post-EOSE: per child, everything emitted after the client had the merged EOSE (and
	// before the client closed) must arrive, equal, in that child's order
	if tE != 0 {
		var post []rRecv
		for _, x := range mine {
			if _, is := x.msg.(*mocrelay.ServerEventMsg); is && x.at > tE {
				post = append(post, x)
			}
		}
		for c := 0; c < nch; c++ {
			var must []string
			for _, e := range emits {
				m, is := e.msg.(*mocrelay.ServerEventMsg)
				if is && e.child == c && e.call > tE && (g.closeCall == 0 || e.ret < g.closeCall) {
					must = append(must, m.Event.ID)
				}
			}
			count("post_eose_must_events", int64(len(must)))
			// child c's marks in arrival order
			pos := map[string]int{}
			for k, x := range post {
				id := x.msg.(*mocrelay.ServerEventMsg).Event.ID
				if _, dup := pos[id]; dup {
					for _, mid := range must {
						if mid == id {
							fail("post-eose/duplicate", fmt.Sprintf("live event %.8s of child %d forwarded twice", id, c), g)
							return "x", cls
						}
					}
				}
				pos[id] = k
			}
			lastPos := -1
			for _, id := range must {
				p, got := pos[id]
				if !got {
					fail("post-eose/lost", fmt.Sprintf("child %d emitted event %.8s after the merged EOSE had reached the client, but it was never forwarded", c, id), g)
					return "x", cls
				}
				if p < lastPos {
					fail("post-eose/reordered", fmt.Sprintf("events of child %d arrive out of the child's order after the EOSE", c), g)
					return "x", cls
				}
				lastPos = p
			}
		}
	}
	return "", cls
}
