#!/bin/sh
# tryvar.sh [ID...] : run the quick checks against the stored property-preserving variations
# (seeded/variations/<ID>-v<k>.diff; VK=<glob> restricts k); expected outcome: OK for every one (no false alarm).
VH=$(cd "$(dirname "$0")/.." && pwd)
cross() { case $1 in C01) echo "C01 C12";; C02) echo "C02 C07";; C03) echo "C03 C15";; C04) echo "C04 C05 C15";; C13) echo "C13 C07 C12 C19";; C14) echo "C14 C06";; C15) echo "C15 C03 C04";; C16) echo "C16 C15";; *) echo $1;; esac; }
IDS=${@:-C01 C02 C03 C04 C05 C06 C07 C08 C09 C10 C11 C12 C13 C14 C15 C16 C17 C18 C19 C20}
for ID in $IDS; do
  for p in $VH/seeded/variations/$ID-v${VK:-*}.diff; do
    [ -f "$p" ] || continue
    for c in $(cross $ID); do
      r=$($VH/tools/trymut.sh $p $c 2>&1 | grep -v conda | grep "signature=\|^OK\|HARNESS\|INCONCLUSIVE\|patch does not" | head -3 | cut -c1-200 | tr '\n' ' ')
      echo "$(basename $p .diff) -> $c: $r"
    done
  done
done
