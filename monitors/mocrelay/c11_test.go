package mocrelay_test

import (
	"context"
	"encoding/json"
	"fmt"
	"math/rand/v2"
	"net/http/httptest"
	"os"
	"sort"
	"strings"
	"sync"
	"testing"
	"time"

	"github.com/coder/websocket"
	"github.com/high-moctane/mocrelay"
	vk "github.com/high-moctane/mocrelay/internal/verifkit"
)

// C11 — admission: well-formed client messages are parsed and judged valid; what is
// judged valid is sound. Observed at ParseClientMsg + ValidClientMsg and, for a
// smaller stream, at the gate behind Relay.ServeHTTP (forwarded vs NOTICE).

// ---------------------------------------------------------------------------
// observation of the real gate

type c11Outcome struct {
	accepted bool
	stage    string // accepted | parse | valid | panic
	err      string
	msg      mocrelay.ClientMsg
}

func c11Gate(text string) (o c11Outcome) {
	defer func() {
		if p := recover(); p != nil {
			o = c11Outcome{stage: "panic", err: fmt.Sprint(p)}
		}
	}()
	msg, err := mocrelay.ParseClientMsg([]byte(text))
	if err != nil {
		return c11Outcome{stage: "parse", err: err.Error()}
	}
	if !mocrelay.ValidClientMsg(msg) {
		return c11Outcome{stage: "valid", msg: msg}
	}
	return c11Outcome{accepted: true, stage: "accepted", msg: msg}
}

// per-chunk accumulator (keeps the report's mutex out of the inner loop)
type c11Acc struct {
	counts map[string]int64
	seen   map[string]map[string]struct{}
	keys   []string
	evals  int
}

func newC11Acc() *c11Acc {
	return &c11Acc{counts: map[string]int64{}, seen: map[string]map[string]struct{}{}}
}
func (a *c11Acc) count(k string) { a.counts[k]++ }
func (a *c11Acc) see(set, m string) {
	s := a.seen[set]
	if s == nil {
		s = map[string]struct{}{}
		a.seen[set] = s
	}
	s[m] = struct{}{}
}
func (a *c11Acc) flush(rep *vk.Report) {
	for k, n := range a.counts {
		rep.Count(k, n)
	}
	for set, ms := range a.seen {
		for m := range ms {
			rep.Seen(set, m)
		}
	}
	for _, k := range a.keys {
		rep.Nontrivial(k)
	}
	rep.Eval(a.evals)
}

func c11Short(s string, n int) string {
	if len(s) > n {
		return s[:n] + "..."
	}
	return s
}

func c11Witness(stream string, idx int, text string, o c11Outcome, extra map[string]any) map[string]any {
	w := map[string]any{"stream": stream, "case": idx, "text": text, "stage": o.stage, "error": o.err}
	if o.msg != nil {
		w["parsed"] = vk.JSON(c11ValueTree(o.msg))
	}
	for k, v := range extra {
		w[k] = v
	}
	return w
}

// c11Diagnose names the part of a wrongly rejected well-formed text that the gate
// objects to, by probing reduced variants against the same gate (classification of the
// witness only; the verdict was already reached).
func c11Diagnose(text string, tree any) string {
	const wsp = " \t\n\r"
	if c11Gate(c11Compact(tree)).accepted {
		if t := strings.TrimLeft(text, wsp); t != text && c11Gate(t).accepted {
			if len(text)-len(t) >= 16 && c11Gate(" \t\n\r"+t).accepted {
				return "long-leading-whitespace"
			}
			return "leading-whitespace"
		}
		if t := strings.TrimLeft(text, wsp); strings.HasPrefix(t, "[") {
			lead := text[:len(text)-len(t)]
			rest := strings.TrimLeft(t[1:], wsp)
			if gap := len(t) - 1 - len(rest); gap > 0 && c11Gate(lead+"["+rest).accepted {
				if gap >= 16 && c11Gate(lead+"[ \t\n\r"+rest).accepted {
					return "long-whitespace-before-label"
				}
				return "whitespace-before-label"
			}
		}
		if t := strings.TrimRight(text, wsp); t != text && c11Gate(t).accepted {
			return "trailing-whitespace"
		}
		return "whitespace-or-escapes"
	}
	arr, _ := tree.([]any)
	if len(arr) < 2 {
		return "content"
	}
	label, _ := arr[0].(string)
	if ev, ok := arr[1].(map[string]any); ok {
		good := map[string]any{"id": strings.Repeat("0a", 32), "pubkey": strings.Repeat("1b", 32), "sig": strings.Repeat("2c", 64),
			"kind": json.Number("1"), "created_at": json.Number("1"), "tags": []any{}, "content": ""}
		for _, k := range []string{"kind", "created_at", "tags", "content", "id", "pubkey", "sig"} {
			v := map[string]any{}
			for kk, x := range ev {
				v[kk] = x
			}
			v[k] = good[k]
			if c11Gate(c11Compact([]any{label, v})).accepted {
				return "event-" + k
			}
		}
		return "event"
	}
	if len(arr) >= 3 {
		if !c11Gate(c11Compact([]any{label, "s", map[string]any{}})).accepted {
			if c11Gate(c11Compact([]any{label, arr[1], map[string]any{}})).accepted {
				return "envelope"
			}
			return "empty-filter"
		}
		if !c11Gate(c11Compact([]any{label, arr[1], map[string]any{}})).accepted {
			return "subscription-id"
		}
		for _, f := range arr[2:] {
			fo, _ := f.(map[string]any)
			keys := make([]string, 0, len(fo))
			for k := range fo {
				keys = append(keys, k)
			}
			sort.Strings(keys)
			for _, k := range keys {
				if c11Gate(c11Compact([]any{label, "s", map[string]any{k: fo[k]}})).accepted {
					continue
				}
				kc := k
				if strings.HasPrefix(k, "#") && k != "#e" && k != "#p" && k != "#a" {
					kc = "#x"
				}
				if l, ok := fo[k].([]any); ok {
					if len(l) == 0 {
						return "filter-" + kc + "-empty-list"
					}
					if k == "#a" {
						for _, a := range l {
							s, _ := a.(string)
							if strings.Count(s, ":") > 2 && !c11Gate(c11Compact([]any{label, "s", map[string]any{k: []any{a}}})).accepted {
								return "filter-#a-d-with-colon"
							}
						}
					}
				}
				return "filter-" + kc
			}
		}
		if len(arr) > 3 {
			return "several-filters"
		}
		return "filter-combination"
	}
	if len(arr) == 2 {
		return "subscription-id"
	}
	return "content"
}

// c11JudgeAccepted: soundness on the output, for every accepted text of every stream.
func c11JudgeAccepted(rep *vk.Report, stream string, idx int, text string, o c11Outcome, extra map[string]any) {
	if bad := c11CheckValue(o.msg); len(bad) > 0 {
		rep.Violation("accepted/unsound-value/"+bad[0],
			fmt.Sprintf("the message judged valid carries a value that breaks %v", bad),
			c11Witness(stream, idx, text, o, extra))
	}
}

// ---------------------------------------------------------------------------

type c11Frame struct {
	text   string
	expect string // accept | reject
	class  string
	tree   any
}

// c11MakeCorrupted builds one single-point corruption; ok=false when the reference
// validator does not call the result broken (the case is then skipped and counted).
func c11MakeCorrupted(i int, stream string, cat []c11Class, signed bool) (f c11Frame, label, detail string, ok bool, v *c11Verdict) {
	r := vk.RNG(stream, i)
	cl := cat[i%len(cat)]
	labels := c11LabelsFor(cl.on)
	label = labels[(i/len(cat))%len(labels)]
	m := c11GenMsg(r, label, signed)
	detail = cl.apply(r, m)
	ws, esc, _ := c11Style(r)
	f.text = c11Text(r, m.root, ws, esc)
	f.class = cl.name
	f.expect = "reject"
	tree, err := c11Decode(f.text)
	if err != nil {
		return f, label, detail, false, nil
	}
	f.tree = tree
	v = c11RefValid(tree)
	return f, label, detail, v.Class() == "bad", v
}

func TestVerif_C11(t *testing.T) {
	rep := vk.NewReport(t, "C11", "exploration")
	rep.Rule = "JSON texts rendered from generated trees (random space/tab/LF/CR at every token boundary incl. before the first and after the last token; a quarter of the texts with a 20-300 byte run before '[', between '[' and the label, at both or elsewhere; random \\u escapes outside the label): (wf) well-formed EVENT/REQ/CLOSE/AUTH/COUNT with every optional part absent/empty/single/several, all 52 tag-filter letters, a-addresses whose d contains ':' -> must be accepted and denote the same message; (corrupt) one catalogue corruption of such a message (envelope, event member, filter member classes) -> must be rejected; (mix) 0-3 corruptions and undecided features combined, judged by the reference validator on the decoded text; (observe) sub-cases the statement leaves open, only counted; (e2e) the same kinds of frames through Relay.ServeHTTP: forwarded vs NOTICE. Every accepted text of every stream: the accepted value must satisfy the statement's constraints. non-trivial = every case except compact well-formed texts; distinct = distinct (stream, label, text style, optional-part shape | corruption class and sub-class | verdict reasons)"
	defer rep.Finish()

	if p := os.Getenv("VERIF_REPLAY"); p != "" {
		c11Replay(rep, p)
		return
	}

	cat := c11Catalogue()
	obs := c11Observers()
	chunk := 500
	t0 := time.Now()
	lap := func(what string) {
		fmt.Printf("C11 %s done at %.1fs\n", what, time.Since(t0).Seconds())
	}

	// ---- (wf) well-formed texts must be accepted
	nWF := vk.N(50_000, 700_000)
	vk.Parallel(nWF/chunk, func(ci int) {
		acc := newC11Acc()
		defer acc.flush(rep)
		for k := 0; k < chunk; k++ {
			i := ci*chunk + k
			r := vk.RNG("C11/wf", i)
			label := c11Labels[i%len(c11Labels)]
			m := c11GenMsg(r, label, false)
			ws, esc, style := c11Style(r)
			text, plan := c11TextPlan(r, m.root, ws, esc)
			if plan != "short" {
				style += "/" + plan
				acc.count("wf:" + plan)
			}
			tree, err := c11Decode(text)
			if err != nil {
				acc.count("harness:text-not-json")
				continue
			}
			if v := c11RefValid(tree); v.Class() != "wf" {
				acc.count("harness:generator-oracle-disagree")
				rep.Sample(map[string]any{"harness_disagreement": text, "bad": v.bad, "open": v.open})
				continue
			}
			acc.evals++
			acc.count("wf:" + label)
			acc.see("wf_styles", style)
			if style != "compact" {
				acc.keys = append(acc.keys, "wf/"+label+"/"+style+"/"+c11Shape(m))
			}
			if strings.ContainsAny(text[:1], " \t\n\r") {
				acc.count("wf:leading-whitespace")
			}
			if strings.ContainsAny(text[len(text)-1:], " \t\n\r") {
				acc.count("wf:trailing-whitespace")
			}
			for _, f := range m.filters {
				for j, key := range f.keys {
					acc.see("wf_filter_keys", key)
					if len(f.kids[j].kids) == 0 && f.kids[j].kind == 'a' {
						acc.see("wf_empty_lists", key[:1])
					}
					if key == "#a" {
						for _, a := range f.kids[j].kids {
							if strings.Count(a.s, ":") > 2 {
								acc.count("wf:a-address-d-with-colon")
							}
						}
					}
				}
				if len(f.keys) == 0 {
					acc.count("wf:empty-filter")
				}
				if s, u := f.get("since"), f.get("until"); s != nil && u != nil && s.s == u.s {
					acc.count("wf:since=until")
				}
			}
			if len(m.filters) > 1 {
				acc.count("wf:several-filters")
			}
			if m.event != nil {
				if kd := m.event.get("kind").s; kd == "0" || kd == "65535" {
					acc.count("wf:kind-boundary")
				}
			}
			o := c11Gate(text)
			if ci < 2 && k < 2 {
				rep.Sample(map[string]any{"stream": "wf", "text": c11Short(text, 400), "outcome": o.stage})
			}
			if !o.accepted {
				why := c11Diagnose(text, tree)
				rep.Violation("rejected/should-accept/"+label+"/"+o.stage+"/"+why,
					fmt.Sprintf("a well-formed %s message was not admitted (stage %s: %s); the gate objects to: %s", label, o.stage, o.err, why),
					c11Witness("wf", i, text, o, map[string]any{"expect": "accept", "style": style}))
				continue
			}
			acc.count("accepted")
			c11JudgeAccepted(rep, "wf", i, text, o, map[string]any{"expect": "accept"})
			if !c11SameMessage(tree, o.msg) {
				rep.Violation("parsed/differs-from-text/"+label,
					"the value handed on for a well-formed text does not denote the message the text denotes",
					c11Witness("wf", i, text, o, map[string]any{"expect": "accept", "text_tree": c11Compact(tree)}))
			}
		}
	})

	lap("wf")

	// ---- (corrupt) every single-point corruption must be rejected
	nBad := vk.N(60_000, 800_000)
	vk.Parallel(nBad/chunk, func(ci int) {
		acc := newC11Acc()
		defer acc.flush(rep)
		for k := 0; k < chunk; k++ {
			i := ci*chunk + k
			f, label, detail, ok, v := c11MakeCorrupted(i, "C11/corrupt", cat, false)
			if !ok {
				acc.count("corruption-ineffective")
				acc.see("ineffective_classes", f.class+"/"+detail)
				continue
			}
			acc.evals++
			acc.count("corrupt:" + f.class)
			acc.see("corruption_subclasses", f.class+"/"+detail)
			acc.keys = append(acc.keys, "corrupt/"+f.class+"/"+detail+"/"+label)
			o := c11Gate(f.text)
			acc.count("corrupt-rejected-at:" + o.stage)
			if ci < 2 && k < 1 {
				rep.Sample(map[string]any{"stream": "corrupt", "class": f.class + "/" + detail, "text": c11Short(f.text, 400), "outcome": o.stage})
			}
			if o.stage == "panic" {
				rep.Violation("panic/"+f.class, "the gate panicked on a corrupted message: "+o.err,
					c11Witness("corrupt", i, f.text, o, map[string]any{"expect": "reject", "class": f.class, "detail": detail}))
				continue
			}
			if o.accepted {
				rep.Violation("accepted/should-reject/"+f.class,
					fmt.Sprintf("a %s message with the single corruption %s (%s) was judged valid; broken constraints: %v", label, f.class, detail, v.bad),
					c11Witness("corrupt", i, f.text, o, map[string]any{"expect": "reject", "class": f.class, "detail": detail}))
				c11JudgeAccepted(rep, "corrupt", i, f.text, o, map[string]any{"expect": "reject"})
			}
		}
	})

	lap("corrupt")

	// ---- (mix) several deviations at once, judged by the reference validator
	var inner, outer []c11Class
	isOuter := map[string]bool{"null-event": true, "null-filter": true, "null-subid": true, "subid-empty": true, "subid-long": true, "no-filter": true}
	for _, c := range cat {
		if strings.HasPrefix(c.name, "envelope/") {
			outer = append(outer, c)
		} else {
			inner = append(inner, c)
		}
	}
	for _, c := range obs {
		switch {
		case c.name == "escaped-label" || c.name == "duplicate-key": // invisible in the decoded tree: never judged
		case isOuter[c.name]:
			outer = append(outer, c)
		default:
			inner = append(inner, c)
		}
	}
	applies := func(c c11Class, label string) bool {
		for _, l := range c11LabelsFor(c.on) {
			if l == label {
				return true
			}
		}
		return false
	}
	nMix := vk.N(30_000, 400_000)
	vk.Parallel(nMix/chunk, func(ci int) {
		acc := newC11Acc()
		defer acc.flush(rep)
		for k := 0; k < chunk; k++ {
			i := ci*chunk + k
			r := vk.RNG("C11/mix", i)
			label := c11Labels[i%len(c11Labels)]
			m := c11GenMsg(r, label, false)
			var ops []string
			for n := r.IntN(4); n > 0; n-- {
				if c := vk.Pick(r, inner); applies(c, label) && c11TryApply(c, r, m) {
					ops = append(ops, c.name)
				}
			}
			if r.IntN(4) == 0 {
				if c := vk.Pick(r, outer); applies(c, label) && c11TryApply(c, r, m) {
					ops = append(ops, c.name)
				}
			}
			ws, esc, style := c11Style(r)
			text := c11Text(r, m.root, ws, esc)
			tree, err := c11Decode(text)
			if err != nil {
				acc.count("harness:text-not-json")
				continue
			}
			v := c11RefValid(tree)
			cls := v.Class()
			acc.evals++
			acc.count("mix:" + cls)
			reasons := append(append([]string{}, v.bad...), v.open...)
			sort.Strings(reasons)
			acc.keys = append(acc.keys, "mix/"+label+"/"+strings.Join(reasons, ","))
			o := c11Gate(text)
			acc.count("mix:" + cls + ":" + o.stage)
			extra := map[string]any{"ops": ops, "style": style, "reference_bad": v.bad, "reference_open": v.open}
			switch {
			case o.stage == "panic":
				rep.Violation("panic/mix", "the gate panicked: "+o.err, c11Witness("mix", i, text, o, extra))
				continue
			case cls == "bad" && o.accepted:
				extra["expect"] = "reject"
				rep.Violation("accepted/should-reject/mix/"+v.bad[0],
					fmt.Sprintf("a %s message breaking %v was judged valid", label, v.bad), c11Witness("mix", i, text, o, extra))
			case cls == "wf" && !o.accepted:
				extra["expect"] = "accept"
				why := c11Diagnose(text, tree)
				rep.Violation("rejected/should-accept/"+label+"/"+o.stage+"/"+why,
					fmt.Sprintf("a well-formed %s message was not admitted (stage %s: %s); the gate objects to: %s", label, o.stage, o.err, why),
					c11Witness("mix", i, text, o, extra))
			}
			if o.accepted {
				c11JudgeAccepted(rep, "mix", i, text, o, extra)
			}
		}
	})

	lap("mix")

	// ---- (observe) sub-cases the statement leaves open: counted, never judged by the text
	nObs := vk.N(10_000, 100_000)
	vk.Parallel(nObs/chunk, func(ci int) {
		acc := newC11Acc()
		defer acc.flush(rep)
		for k := 0; k < chunk; k++ {
			i := ci*chunk + k
			r := vk.RNG("C11/observe", i)
			c := obs[i%len(obs)]
			labels := c11LabelsFor(c.on)
			label := labels[(i/len(obs))%len(labels)]
			m := c11GenMsg(r, label, false)
			detail := c.apply(r, m)
			ws, esc, _ := c11Style(r)
			text := c11Text(r, m.root, ws, esc)
			o := c11Gate(text)
			acc.evals++
			acc.keys = append(acc.keys, "observe/"+c.name+"/"+detail+"/"+label+"/"+o.stage)
			if o.accepted {
				acc.count("observe:" + c.name + ":accepted")
				c11JudgeAccepted(rep, "observe", i, text, o, map[string]any{"class": c.name, "detail": detail})
			} else {
				acc.count("observe:" + c.name + ":not-accepted")
			}
			if o.stage == "panic" {
				rep.Violation("panic/observe", "the gate panicked: "+o.err, c11Witness("observe", i, text, o, map[string]any{"class": c.name}))
			}
		}
	})

	lap("observe")

	// ---- (e2e) behind Relay.ServeHTTP
	c11EndToEnd(rep, cat)
	lap("e2e")

	// ---- sanity gates
	rep.Require(rep.Counter("harness:text-not-json") == 0, "the generator wrote a text that is not JSON")
	rep.Require(rep.Counter("harness:generator-oracle-disagree") == 0, "generator and reference validator disagree on a well-formed text")
	for _, l := range c11Labels {
		rep.Require(rep.Counter("wf:"+l) >= int64(nWF/5*9/10), "too few well-formed "+l+" texts")
	}
	rep.Require(rep.Counter("wf:leading-whitespace") >= int64(nWF/20), "too few texts with leading whitespace")
	for _, pl := range []string{"long-leading", "long-before-label", "long-leading+before-label", "long-elsewhere"} {
		rep.Require(rep.Counter("wf:"+pl) >= int64(nWF/40), "too few well-formed texts with whitespace plan "+pl)
	}
	rep.Require(rep.Counter("e2e:long-leading")+rep.Counter("e2e:long-leading+before-label") >= 10 &&
		rep.Counter("e2e:long-before-label")+rep.Counter("e2e:long-leading+before-label") >= 10, "too few end-to-end frames with long whitespace before '[' / before the label")
	rep.Require(rep.Counter("wf:trailing-whitespace") >= int64(nWF/20), "too few texts with trailing whitespace")
	rep.Require(rep.Counter("wf:a-address-d-with-colon") >= int64(nWF/500), "too few a-addresses with ':' in d")
	rep.Require(rep.Counter("wf:empty-filter") >= int64(nWF/500), "too few empty filters")
	rep.Require(rep.Counter("wf:since=until") >= 20, "too few since=until filters")
	rep.Require(rep.Counter("wf:kind-boundary") >= 50, "too few events with kind 0 / 65535")
	rep.Require(rep.SetSize("wf_filter_keys") >= 6+52, "not every filter member / tag letter was generated")
	perClass := int64(nBad / len(cat) / 2)
	for _, c := range cat {
		rep.Require(rep.Counter("corrupt:"+c.name) >= perClass, "corruption class "+c.name+" exercised too rarely")
	}
	rep.Require(rep.Counter("corruption-ineffective") <= int64(nBad/50), "too many corruptions that the reference validator does not call broken")
	rep.Require(rep.Counter("mix:wf") >= int64(nMix/20) && rep.Counter("mix:bad") >= int64(nMix/4) && rep.Counter("mix:open") >= int64(nMix/50),
		"mixed stream lacks one of the verdict classes")
	rep.Set("catalogue_classes", len(cat))
	rep.Set("observe_only_classes", len(obs))
}

// c11TryApply applies an operation in the mixed stream; an operation whose target an
// earlier operation removed is skipped.
func c11TryApply(c c11Class, r *rand.Rand, m *c11Msg) (ok bool) {
	defer func() {
		if recover() != nil {
			ok = false
		}
	}()
	c.apply(r, m)
	return true
}

// ---------------------------------------------------------------------------
// end to end

const c11Marker = "C11-FORWARDED"

type c11Recorder struct {
	mu  sync.Mutex
	got []mocrelay.ClientMsg
}

func (rc *c11Recorder) ServeNostr(ctx context.Context, send chan<- mocrelay.ServerMsg, recv <-chan mocrelay.ClientMsg) error {
	for {
		select {
		case <-ctx.Done():
			return ctx.Err()
		case msg, ok := <-recv:
			if !ok {
				return nil
			}
			rc.mu.Lock()
			rc.got = append(rc.got, msg)
			rc.mu.Unlock()
			select {
			case send <- mocrelay.NewServerNoticeMsg(c11Marker):
			case <-ctx.Done():
				return ctx.Err()
			}
		}
	}
}

func c11EndToEnd(rep *vk.Report, cat []c11Class) {
	nConn := vk.N(8, 64)
	nFrames := vk.N(150, 400)
	const bound = 20 * time.Second
	vk.ParallelW(8, nConn, func(c int) {
		rc := &c11Recorder{}
		opt := mocrelay.NewDefaultRelayOption()
		opt.RecvRateLimitRate = 1e9
		opt.RecvRateLimitBurst = 1 << 30
		opt.MaxMessageLength = 1 << 20
		relay := mocrelay.NewRelay(rc, opt)
		srv := httptest.NewServer(relay)
		defer srv.Close()
		ctx, cancel := context.WithCancel(context.Background())
		defer cancel()
		dctx, dcancel := context.WithTimeout(ctx, bound)
		conn, _, err := websocket.Dial(dctx, "ws"+strings.TrimPrefix(srv.URL, "http"), nil)
		dcancel()
		if err != nil {
			rep.Inconclusive(fmt.Sprintf("e2e connection %d: dial failed: %v", c, err))
			return
		}
		defer conn.CloseNow()
		conn.SetReadLimit(8 << 20)
		acc := newC11Acc()
		defer acc.flush(rep)
		for k := 0; k < nFrames; k++ {
			i := c*nFrames + k
			var fr c11Frame
			var label string
			if k%2 == 0 {
				r := vk.RNG("C11/e2e-wf", i)
				label = c11Labels[(i/2)%len(c11Labels)]
				m := c11GenMsg(r, label, true)
				ws, esc, _ := c11Style(r)
				text, plan := c11TextPlan(r, m.root, ws, esc)
				if plan != "short" {
					acc.count("e2e:" + plan)
				}
				fr = c11Frame{text: text, expect: "accept", class: "wf"}
				fr.tree, err = c11Decode(fr.text)
				if err != nil || c11RefValid(fr.tree).Class() != "wf" {
					acc.count("harness:generator-oracle-disagree")
					continue
				}
			} else {
				var ok bool
				fr, label, _, ok, _ = c11MakeCorrupted(i, "C11/e2e-corrupt", cat, true)
				if !ok {
					continue
				}
			}
			rc.mu.Lock()
			before := len(rc.got)
			rc.mu.Unlock()
			fctx, fcancel := context.WithTimeout(ctx, bound)
			err := conn.Write(fctx, websocket.MessageText, []byte(fr.text))
			var reply []byte
			if err == nil {
				_, reply, err = conn.Read(fctx)
			}
			fcancel()
			if err != nil {
				rep.Inconclusive(fmt.Sprintf("e2e connection %d frame %d (%s): no reply within %v or connection lost: %v", c, k, fr.class, bound, err))
				return
			}
			var arr []any
			json.Unmarshal(reply, &arr)
			forwarded := len(arr) == 2 && arr[0] == "NOTICE" && arr[1] == c11Marker
			rc.mu.Lock()
			after := len(rc.got)
			var last mocrelay.ClientMsg
			if after > 0 {
				last = rc.got[after-1]
			}
			rc.mu.Unlock()
			acc.evals++
			acc.keys = append(acc.keys, "e2e/"+fr.class+"/"+label)
			w := map[string]any{"stream": "e2e", "connection": c, "frame": k, "text": fr.text, "expect": fr.expect, "class": fr.class, "reply": c11Short(string(reply), 300)}
			switch {
			case fr.expect == "accept" && (!forwarded || after != before+1):
				rep.Violation("e2e/not-forwarded/"+label, "a well-formed "+label+" frame did not reach the handler behind Relay.ServeHTTP", w)
			case fr.expect == "accept":
				acc.count("e2e:forwarded")
				if !c11SameMessage(fr.tree, last) {
					w["handler_got"] = vk.JSON(c11ValueTree(last))
					rep.Violation("e2e/forwarded-differs/"+label, "the handler received a message other than the one the frame denotes", w)
				}
			case forwarded || after != before:
				if last != nil {
					w["handler_got"] = vk.JSON(c11ValueTree(last))
				}
				rep.Violation("e2e/forwarded/should-reject/"+fr.class, "a corrupted frame reached the handler behind Relay.ServeHTTP", w)
			default:
				acc.count("e2e:rejected")
				if len(arr) != 2 || arr[0] != "NOTICE" {
					acc.count("e2e:rejected-without-notice")
				}
			}
			if after != before && last != nil {
				c11JudgeAccepted(rep, "e2e", i, fr.text, c11Outcome{accepted: true, stage: "accepted", msg: last}, nil)
			}
		}
		conn.Close(websocket.StatusNormalClosure, "")
	})
	want := int64(nConn * nFrames / 4)
	rep.Require(rep.Counter("e2e:forwarded") >= want, "too few frames forwarded end to end")
	rep.Require(rep.Counter("e2e:rejected") >= want, "too few frames rejected end to end")
}

// ---------------------------------------------------------------------------
// replay of one witness file

func c11Replay(rep *vk.Report, path string) {
	b, err := os.ReadFile(path)
	if err != nil {
		rep.Inconclusive("replay file unreadable: " + err.Error())
		return
	}
	var doc struct {
		Witness struct {
			Text   string `json:"text"`
			Expect string `json:"expect"`
		} `json:"witness"`
	}
	if err := json.Unmarshal(b, &doc); err != nil || doc.Witness.Text == "" {
		rep.Inconclusive("replay file has no witness.text")
		return
	}
	text := doc.Witness.Text
	o := c11Gate(text)
	rep.Eval(1)
	rep.Nontrivial("replay/1")
	rep.Nontrivial("replay/2")
	rep.Sample(map[string]any{"replayed_text": text, "outcome": o.stage, "error": o.err})
	tree, derr := c11Decode(text)
	cls := "undecodable"
	var v *c11Verdict
	if derr == nil {
		v = c11RefValid(tree)
		cls = v.Class()
	}
	expect := doc.Witness.Expect
	if expect == "" {
		expect = map[string]string{"wf": "accept", "bad": "reject"}[cls]
	}
	fmt.Printf("C11 replay: reference=%s expect=%s observed=%s %s\n", cls, expect, o.stage, o.err)
	switch {
	case expect == "accept" && !o.accepted:
		rep.Violation("replay/rejected/should-accept", "replayed text is still not admitted: "+o.err, c11Witness("replay", 0, text, o, nil))
	case expect == "reject" && o.accepted:
		rep.Violation("replay/accepted/should-reject", "replayed text is still judged valid", c11Witness("replay", 0, text, o, nil))
	}
	if o.accepted {
		c11JudgeAccepted(rep, "replay", 0, text, o, nil)
		if expect == "accept" && derr == nil && !c11SameMessage(tree, o.msg) {
			rep.Violation("replay/parsed-differs", "replayed text is parsed into a different message", c11Witness("replay", 0, text, o, nil))
		}
	}
}
