package verifkit

import (
	"github.com/high-moctane/mocrelay"
)

// SQLModel is the specification state of the SQLite store, written from the statement
// of C06: stored = every non-ephemeral event inserted, newest version per replaceable /
// addressable address; deleted = referenced (by id or address) by any inserted deletion
// request of the same author, whichever arrived first; ephemeral events never stored.
//
// Not modelled because the statements leave them open (and therefore never generated in
// judged streams): two versions of one address with equal created_at, addressable events
// without a d tag, a-tag references to plain replaceable kinds.
type SQLModel struct {
	byKey   map[string]*mocrelay.Event // id (regular) or address -> stored event
	reqs    []*mocrelay.Event          // every inserted deletion request
	Applied int
}

func NewSQLModel() *SQLModel {
	return &SQLModel{byKey: map[string]*mocrelay.Event{}}
}

func (m *SQLModel) Clone() *SQLModel {
	c := NewSQLModel()
	for k, v := range m.byKey {
		c.byKey[k] = v
	}
	c.reqs = append(c.reqs, m.reqs...)
	c.Applied = m.Applied
	return c
}

// LogicalKey is the identity under which an event is stored.
func LogicalKey(e *mocrelay.Event) (string, bool) {
	switch ClassOf(e.Kind) {
	case Ephemeral:
		return "", false
	case Regular:
		return "id:" + e.ID, true
	default:
		return "addr:" + Address(e), true
	}
}

// Insert applies one event.
func (m *SQLModel) Insert(e *mocrelay.Event) {
	k, ok := LogicalKey(e)
	if !ok {
		return
	}
	cur := m.byKey[k]
	if cur != nil {
		if cur.ID == e.ID || cur.CreatedAt >= e.CreatedAt {
			return // duplicate or not newer
		}
	}
	m.byKey[k] = e
	if e.Kind == 5 {
		m.reqs = append(m.reqs, e)
	}
}

// InsertBatch applies a batch in order.
func (m *SQLModel) InsertBatch(es []*mocrelay.Event) {
	for _, e := range es {
		m.Insert(e)
	}
	m.Applied++
}

// Deleted tells whether some inserted deletion request of x's author references x.
func (m *SQLModel) Deleted(x *mocrelay.Event) bool {
	for _, k := range m.reqs {
		if k.Pubkey == x.Pubkey && References(k, x) {
			return true
		}
	}
	return false
}

// Live lists the stored events that are not deleted.
func (m *SQLModel) Live() []*mocrelay.Event {
	var out []*mocrelay.Event
	for _, e := range m.byKey {
		if !m.Deleted(e) {
			out = append(out, e)
		}
	}
	return out
}

// Stored lists everything stored (deleted or not).
func (m *SQLModel) Stored() []*mocrelay.Event {
	var out []*mocrelay.Event
	for _, e := range m.byKey {
		out = append(out, e)
	}
	return out
}
