package prometheus

// C19, two further scenarios that the group engine of c19_test.go does not build:
// one middleware instance serving several sessions that belong to one connection (both
// children of a merge, or the same instance twice in one stack, possibly below another
// instance), and one instance that sees more distinct event kinds than any small table holds.

import (
	"context"
	"fmt"
	"strconv"
	"sync/atomic"
	"time"

	"github.com/high-moctane/mocrelay"
	vk "github.com/high-moctane/mocrelay/internal/verifkit"
	prom "github.com/prometheus/client_golang/prometheus"
)

// c19CountingSink takes client messages, counts them and answers every REQ with its EOSE.
func c19CountingSink(n *atomic.Int64) mocrelay.Handler {
	return mocrelay.HandlerFunc(func(ctx context.Context, send chan<- mocrelay.ServerMsg, recv <-chan mocrelay.ClientMsg) error {
		for {
			select {
			case <-ctx.Done():
				return ctx.Err()
			case m, ok := <-recv:
				if !ok {
					return mocrelay.ErrRecvClosed
				}
				n.Add(1)
				if rq, is := m.(*mocrelay.ClientReqMsg); is {
					select {
					case send <- mocrelay.NewServerEOSEMsg(rq.SubscriptionID):
					case <-ctx.Done():
						return ctx.Err()
					}
				}
			}
		}
	})
}

// c19Eventually polls pred (a quiescent point is reached when the last hand-over has been
// metered; that is microseconds after the far sides have the message) for at most 5 s.
func c19Eventually(pred func() string) string {
	deadline := time.Now().Add(5 * time.Second)
	for {
		why := pred()
		if why == "" || time.Now().After(deadline) {
			return why
		}
		time.Sleep(200 * time.Microsecond)
	}
}

// c19Compositions: every message of the one client session crosses the instance `back`
// exactly twice, in two sessions of that instance. Its registry must show two live
// sessions, each open subscription twice and every counter at twice the client's count.
func c19Compositions(rep *vk.Report, i int) {
	r := vk.RNG("C19/compositions", i)
	backReg := prom.NewRegistry()
	back := mocrelay.Middleware(NewPrometheusMiddleware(backReg))
	front := mocrelay.Middleware(NewPrometheusMiddleware(prom.NewRegistry()))
	var got [2]atomic.Int64
	nSinks := 1
	var h mocrelay.Handler
	shape := []string{"front(merge(back(sink),back(sink)))", "back(back(sink))", "back(front(back(sink)))", "merge(back(sink),back(sink))"}[i%4]
	switch i % 4 {
	case 0:
		nSinks = 2
		h = front(mocrelay.NewMergeHandler(back(c19CountingSink(&got[0])), back(c19CountingSink(&got[1]))))
	case 1:
		h = back(back(c19CountingSink(&got[0])))
	case 2:
		h = back(front(back(c19CountingSink(&got[0]))))
	default:
		nSinks = 2
		h = mocrelay.NewMergeHandler(back(c19CountingSink(&got[0])), back(c19CountingSink(&got[1])))
	}
	s := vk.StartSession(context.Background(), h, 256)
	defer s.Stop()
	open := map[string]bool{}
	cnt := map[string]float64{}
	var log []string
	sent := int64(0)
	compare := func(conns float64) string {
		return c19Eventually(func() string {
			snap, err := c19Gather(backReg)
			if err != nil {
				return "gather: " + err.Error()
			}
			if g := snap.gauges["mocrelay_connection_count"]; g != conns {
				return fmt.Sprintf("connection gauge %v, %v sessions of this instance are live", g, conns)
			}
			want := float64(0)
			if conns > 0 {
				want = 2 * float64(len(open))
			}
			if g := snap.gauges["mocrelay_req_count"]; g != want {
				return fmt.Sprintf("subscription gauge %v, the two sessions of this instance hold %v open subscriptions", g, want)
			}
			for k, v := range cnt {
				if snap.counters[k] != 2*v {
					return fmt.Sprintf("counter %s = %v, %v such messages crossed the instance", k, snap.counters[k], 2*v)
				}
			}
			for k, v := range snap.counters {
				if _, known := cnt[k]; !known && v != 0 {
					return fmt.Sprintf("counter %s = %v for messages that never crossed the instance", k, v)
				}
			}
			return ""
		})
	}
	fail := func(sig, why string) {
		rep.Violation("composition/"+sig, fmt.Sprintf("%s: %s", shape, why), map[string]any{"composition": shape, "client_messages": log})
	}
	nOps := 4 + r.IntN(12)
	for k := 0; k < nOps; k++ {
		sub := vk.Pick(r, []string{"a", "b", "c"})
		var msg mocrelay.ClientMsg
		switch c := r.IntN(10); {
		case c < 5:
			msg = &mocrelay.ClientReqMsg{SubscriptionID: sub, ReqFilters: []*mocrelay.ReqFilter{{}}}
			open[sub] = true
			cnt["recv_msg_total|REQ"]++
			cnt["send_msg_total|EOSE"]++
		case c < 8:
			msg = &mocrelay.ClientCloseMsg{SubscriptionID: sub}
			delete(open, sub)
			cnt["recv_msg_total|CLOSE"]++
		default:
			kind := vk.Pick(r, []int64{1, 1, 7, 30023})
			msg = &mocrelay.ClientEventMsg{Event: vk.Seal(&mocrelay.Event{Kind: kind, Pubkey: vk.FakePub(1), CreatedAt: int64(1000 + k), Content: fmt.Sprintf("c19 composition %d/%d", i, k)})}
			cnt["recv_msg_total|EVENT"]++
			cnt["recv_event_total|"+strconv.FormatInt(kind, 10)]++
		}
		log = append(log, vk.DescribeClientMsg(msg))
		if !s.Put(msg) {
			rep.Inconclusive("C19: composition scenario: a client message was not taken")
			return
		}
		sent++
		// far sides: every sink has the message, and the client has the EOSE of a REQ
		if _, isReq := msg.(*mocrelay.ClientReqMsg); isReq {
			for {
				m, ok := s.Get()
				if !ok {
					rep.Inconclusive("C19: composition scenario: no EOSE for a REQ")
					return
				}
				if e, is := m.(*mocrelay.ServerEOSEMsg); is && e.SubscriptionID == sub {
					break
				}
			}
		}
		deadline := time.Now().Add(vk.WaitBound)
		for sk := 0; sk < nSinks; sk++ {
			for got[sk].Load() < sent {
				if time.Now().After(deadline) {
					rep.Inconclusive("C19: composition scenario: a sink did not receive a client message")
					return
				}
				time.Sleep(50 * time.Microsecond)
			}
		}
		rep.Eval(1)
		if why := compare(2); why != "" {
			fail("metrics-differ", why)
			return
		}
	}
	if !s.Stop() {
		rep.Inconclusive("C19: composition scenario: the session did not end")
		return
	}
	rep.Eval(1)
	if why := compare(0); why != "" {
		fail("metrics-differ-after-end", why)
		return
	}
	rep.Count("composition_sessions", 1)
	rep.Nontrivial(fmt.Sprintf("composition/%d/%d", i%4, len(log)))
}

// c19ManyKinds: one instance, one session, several thousand EVENTs of pairwise distinct kinds
// (every kind is a legal one) and a few repeats: one series per kind, each with its own count.
func c19ManyKinds(rep *vk.Report) {
	reg := prom.NewRegistry()
	var got atomic.Int64
	h := mocrelay.Middleware(NewPrometheusMiddleware(reg))(c19CountingSink(&got))
	s := vk.StartSession(context.Background(), h, 16)
	defer s.Stop()
	n := vk.N(6000, 40000)
	want := map[int64]float64{}
	sent := int64(0)
	put := func(kind int64) bool {
		e := &mocrelay.Event{ID: vk.HexOf(fmt.Sprint("c19 kinds ", sent)), Pubkey: vk.FakePub(2), Kind: kind, CreatedAt: 1000, Content: "", Tags: []mocrelay.Tag{}, Sig: fmt.Sprintf("%0128x", sent)}
		if !s.Put(&mocrelay.ClientEventMsg{Event: e}) {
			return false
		}
		sent++
		want[kind]++
		return true
	}
	for k := 0; k < n; k++ {
		kind := int64(k)
		if k%3 == 2 {
			kind = int64(65535 - k) // from the top of the range as well
		}
		if !put(kind) {
			rep.Inconclusive("C19: many-kinds scenario: an EVENT was not taken")
			return
		}
		if k%500 == 499 { // come back to early and recent kinds
			for _, again := range []int64{0, 1, int64(k), int64(k / 2)} {
				if _, seen := want[again]; seen && !put(again) {
					rep.Inconclusive("C19: many-kinds scenario: an EVENT was not taken")
					return
				}
			}
		}
	}
	deadline := time.Now().Add(vk.WaitBound)
	for got.Load() < sent {
		if time.Now().After(deadline) {
			rep.Inconclusive("C19: many-kinds scenario: the handler did not receive every EVENT")
			return
		}
		time.Sleep(100 * time.Microsecond)
	}
	rep.Eval(1)
	why := c19Eventually(func() string {
		snap, err := c19Gather(reg)
		if err != nil {
			return "gather: " + err.Error()
		}
		if v := snap.counters["recv_msg_total|EVENT"]; v != float64(sent) {
			return fmt.Sprintf("EVENT counter %v, %d EVENTs crossed", v, sent)
		}
		series := 0
		for k, v := range snap.counters {
			const p = "recv_event_total|"
			if len(k) < len(p) || k[:len(p)] != p {
				continue
			}
			series++
			kind, err := strconv.ParseInt(k[len(p):], 10, 64)
			if err != nil {
				return fmt.Sprintf("per-kind series %q = %v: no EVENT of such a kind crossed", k[len(p):], v)
			}
			if want[kind] != v {
				return fmt.Sprintf("per-kind counter of kind %d = %v, %v EVENTs of that kind crossed", kind, v, want[kind])
			}
		}
		if series != len(want) {
			return fmt.Sprintf("%d per-kind series, EVENTs of %d distinct kinds crossed", series, len(want))
		}
		return ""
	})
	if why != "" {
		rep.Violation("many-kinds/per-kind-counter", fmt.Sprintf("after %d EVENTs of %d distinct kinds through one instance: %s", sent, len(want), why), map[string]any{"events": sent, "distinct_kinds": len(want)})
		return
	}
	rep.Count("distinct_kinds_through_one_instance", int64(len(want)))
}
