#!/bin/sh
# Warm the Go build cache for the monitors (race-instrumented std, go-sqlite3 cgo, deps).
# Offline: everything comes from the module cache on disk.
set -e
cd "$(dirname "$0")"
export GOFLAGS=-mod=mod GOPROXY=off GOSUMDB=off GOTOOLCHAIN=local
REPO=${VERIF_REPO:-/repo}
B=/verif/build/setup.$$
python3 - "$REPO" "$B" <<'PY'
import sys, importlib.machinery, importlib.util
loader = importlib.machinery.SourceFileLoader("check", "/verif/check")
spec = importlib.util.spec_from_loader("check", loader)
m = importlib.util.module_from_spec(spec); loader.exec_module(m)
m.make_build(sys.argv[1], sys.argv[2])
PY
cd "$REPO"
go test -race -tags verif -vet=off -overlay "$B/overlay.json" -modfile "$B/go.verif.mod" -run '^$' -count=1 . ./handler/sqlite ./middleware/prometheus >/dev/null
rm -rf "$B"
echo "setup ok"
