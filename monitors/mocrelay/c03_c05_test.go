package mocrelay_test

import (
	"fmt"
	"math/rand/v2"
	"sort"
	"sync"
	"testing"

	"github.com/high-moctane/mocrelay"
	vk "github.com/high-moctane/mocrelay/internal/verifkit"
)

// C03, C04, C05 — the in-memory store against the retention / deletion / query
// specification, step by step over generated insertion histories.

var matchAll = []*mocrelay.ReqFilter{{}}

type histStep struct {
	Event *mocrelay.Event `json:"event"`
	Flag  bool            `json:"added"`
	After []string        `json:"retained_after"`
}

func shortIDs(R []*mocrelay.Event) []string {
	s := make([]string, len(R))
	for i, e := range R {
		s[i] = fmt.Sprintf("%.8s/k%d/%.4s/@%d", e.ID, e.Kind, e.Pubkey, e.CreatedAt)
	}
	return s
}

func histWitness(capacity int, steps []histStep) map[string]any {
	return map[string]any{"capacity": capacity, "history": steps}
}

// runCacheHistory drives one history and calls onStep after every insertion.
func runCacheHistory(g *vk.StoreGen, capacity, n int, onStep func(c *mocrelay.EventCache, before []*mocrelay.Event, e *mocrelay.Event, flag bool, after []*mocrelay.Event, steps []histStep) bool) {
	c := mocrelay.NewEventCache(capacity)
	var steps []histStep
	before := c.Find(matchAll)
	for i := 0; i < n; i++ {
		e := g.Next()
		flag := c.Add(e)
		after := c.Find(matchAll)
		steps = append(steps, histStep{e, flag, shortIDs(after)})
		if !onStep(c, before, e, flag, after, steps) {
			return
		}
		before = after
	}
}

// concurrentDeletionPairs is the concurrent reading of the retention rules: an event and
// a deletion request of its author that references it are inserted at the same time
// (with a delay injected between the phases of Add); whatever the order, the quiescent
// store may never hold the event together with the retained request, and the reported
// flags must fit one of the two sequential orders.
func concurrentDeletionPairs(rep *vk.Report, stream string, rounds int) {
	pc := &pointCtl{sleep: true, only: "cache.add"}
	mocrelay.SetVerifPoint(pc.fn)
	defer mocrelay.SetVerifPoint(nil)
	vk.ParallelW(4, rounds, func(i int) {
		if rep.Violations() >= 3 {
			return
		}
		r := vk.RNG(stream, i)
		author := vk.FakePub(3000 + r.IntN(3))
		kind := vk.Pick(r, []int64{1, 0, 10002, 30000})
		e := &mocrelay.Event{Kind: kind, Pubkey: author, CreatedAt: int64(1000 + r.IntN(50)), Content: fmt.Sprintf("%s-e-%d", stream, i), Tags: []mocrelay.Tag{}}
		if kind == 30000 {
			e.Tags = append(e.Tags, mocrelay.Tag{"d", "x"})
		}
		vk.Seal(e)
		ref := mocrelay.Tag{"e", e.ID}
		if kind == 30000 && r.IntN(2) == 0 {
			ref = mocrelay.Tag{"a", vk.AddrTag(e)}
		}
		k := vk.Seal(&mocrelay.Event{Kind: 5, Pubkey: author, CreatedAt: int64(1100 + r.IntN(50)), Content: fmt.Sprintf("%s-k-%d", stream, i), Tags: []mocrelay.Tag{ref}})
		capacity := 4 + r.IntN(8)
		c := mocrelay.NewEventCache(capacity)
		for j, n := 0, r.IntN(4); j < n; j++ {
			c.Add(vk.Seal(&mocrelay.Event{Kind: 1, Pubkey: vk.FakePub(3100 + j), CreatedAt: int64(2000 + j), Content: fmt.Sprintf("%s-bg-%d-%d", stream, i, j), Tags: []mocrelay.Tag{}}))
		}
		var fe, fk bool
		var wg sync.WaitGroup
		start := make(chan struct{})
		wg.Add(2)
		go func() { defer wg.Done(); <-start; fe = c.Add(e) }()
		go func() { defer wg.Done(); <-start; fk = c.Add(k) }()
		close(start)
		wg.Wait()
		R := c.Find(matchAll)
		rep.Eval(1)
		rep.Count("concurrent_deletion_pairs", 1)
		hasE, hasK := false, false
		for _, x := range R {
			hasE = hasE || x.ID == e.ID
			hasK = hasK || x.ID == k.ID
		}
		wit := map[string]any{"event": vk.ShortEvent(e), "deletion_request": vk.ShortEvent(k), "add_event_reported": fe, "add_request_reported": fk, "retained": shortIDs(R)}
		if sig, why := vk.CheckInvariants(capacity, R); sig != "" {
			if stream == "C05/pairs" && sig != "invariant/deleted-yet-retained" {
				rep.Count("steps_breaking_only_clauses_of_C04", 1)
				return
			}
			rep.Violation("concurrent/"+sig, "after Add(event) and Add(deletion request) ran concurrently: "+why, wit)
			return
		}
		// sequential orders: E then K -> (true,true), only K retained; K then E -> (false,true), only K retained
		if !fk || !hasK || hasE {
			rep.Violation("concurrent/deletion-request-outcome", fmt.Sprintf("no sequential order gives request reported=%v retained=%v, event retained=%v", fk, hasK, hasE), wit)
		}
	})
	pc.report(rep)
}

func capFor(r *rand.Rand) int {
	switch r.IntN(6) {
	case 0:
		return 1
	case 1:
		return 2
	case 2:
		return 100
	default:
		return 2 + r.IntN(11)
	}
}

func TestVerif_C04(t *testing.T) {
	rep := vk.NewReport(t, "C04", "exploration")
	rep.Rule = "insertion histories of 1-60 events (3 authors; regular, replaceable, addressable, ephemeral and deletion events; duplicates, re-offers after eviction/deletion, older-after-newer, equal timestamps; capacities 1..12 and 100); every step (retained set before, event, reported flag, retained set after) is judged against the retention transition relation, plus the global invariants and Len(); non-trivial = a step whose class is not a plain insertion into a store with room; distinct = distinct (transition class, capacity, retained-set size, event kind) tuples"
	defer rep.Finish()
	n := vk.N(5000, 100000)
	vk.Parallel(n, func(i int) {
		r := vk.RNG("C04", i)
		tr := int64(5)
		if r.IntN(2) == 0 {
			tr = 1000
		}
		g := vk.NewStoreGen(r, 3, tr)
		capacity := capFor(r)
		steps := 1 + r.IntN(60)
		runCacheHistory(g, capacity, steps, func(c *mocrelay.EventCache, before []*mocrelay.Event, e *mocrelay.Event, flag bool, after []*mocrelay.Event, hs []histStep) bool {
			rep.Eval(1)
			v := vk.CheckCacheStep(capacity, before, e, flag, after)
			rep.Seen("transition_classes", v.Class)
			rep.Count("class:"+v.Class, 1)
			if v.Class != "new" {
				rep.Nontrivial(fmt.Sprintf("%s/%d/%d/%d", v.Class, capacity, len(before), e.Kind))
			}
			if !v.OK {
				rep.Violation(v.Sig, v.Why, histWitness(capacity, hs))
				return false
			}
			if sig, why := vk.CheckInvariants(capacity, after); sig != "" {
				rep.Violation(sig, why, histWitness(capacity, hs))
				return false
			}
			if l := c.Len(); l != len(after) {
				rep.Violation("invariant/len", fmt.Sprintf("Len()=%d but the match-everything query lists %d events", l, len(after)), histWitness(capacity, hs))
				return false
			}
			if len(hs) == 8 && rep.WantSample() {
				rep.Sample(histWitness(capacity, hs))
			}
			return true
		})
	})
	concurrentDeletionPairs(rep, "C04/pairs", vk.N(1500, 30000))
	rep.Require(rep.Counter("hook_hits:cache.add.checked") > 500, "verifPoint cache.add.checked not reached")
	for _, c := range []string{"new", "duplicate", "older", "suppressed", "replace", "delete-1", "new+evict", "evict-self", "ephemeral", "tie-kept"} {
		rep.Require(rep.Counter("class:"+c) >= 5, "transition class "+c+" seen fewer than 5 times")
	}
}

// isolationStep is the loose judgement used for histories containing addressable events
// without a d tag (whose address the statement does not define): only the global
// invariants that do not depend on addressing, and author isolation.
func isolationStep(capacity int, before []*mocrelay.Event, e *mocrelay.Event, after []*mocrelay.Event) (sig, why string) {
	if len(after) > capacity {
		return "invariant/over-capacity", fmt.Sprintf("%d events retained, capacity %d", len(after), capacity)
	}
	ids := map[string]bool{}
	for _, x := range after {
		if ids[x.ID] {
			return "invariant/duplicate-id", "id listed twice"
		}
		ids[x.ID] = true
		if vk.ClassOf(x.Kind) == vk.Ephemeral {
			return "invariant/ephemeral-served", "ephemeral event served from storage"
		}
	}
	minAt := e.CreatedAt
	known := map[string]bool{e.ID: true}
	for _, x := range before {
		known[x.ID] = true
		if x.CreatedAt < minAt {
			minAt = x.CreatedAt
		}
	}
	for _, x := range after {
		if !known[x.ID] {
			return "step/unknown-event-appeared", "event " + x.ID + " appeared from nowhere"
		}
	}
	foreignGone := 0
	for _, x := range before {
		if ids[x.ID] || x.Pubkey == e.Pubkey {
			continue
		}
		// an event of another author disappeared: only the eviction victim may
		if x.CreatedAt != minAt || len(before) < capacity {
			return "step/foreign-event-removed", fmt.Sprintf("event %.8s of author %.6s disappeared when author %.6s inserted %.8s (kind %d)", x.ID, x.Pubkey, e.Pubkey, e.ID, e.Kind)
		}
		foreignGone++
	}
	if foreignGone > 1 {
		return "step/foreign-event-removed", "more than one event of other authors disappeared in one step"
	}
	return "", ""
}

// c05Concern tells whether a step that the full retention relation rejects breaks a clause
// C05 itself states: what a deletion request removes and blocks, that it is kept, and that
// authors are isolated. The remaining clauses of the relation (capacity, duplicates,
// versions, the exact conditions of "reported as new") are C04's and are reported by its
// check. An unexplained refusal is C05's business when a deletion request submitted earlier
// names the event (it is not retained any more, or is another author's), or when another
// author's events caused it, which is decided by a counterfactual run of the real code on
// the same history without the other authors (only while eviction cannot have played a part).
func c05Concern(sig string, capacity int, e *mocrelay.Event, hs []histStep, full bool) bool {
	switch sig {
	case "step/suppressed-inserted", "step/suppressed-flag", "step/foreign-event-removed", "step/deletion-target-kept", "invariant/deleted-yet-retained":
		return true
	case "step/own-event-removed", "step/inserted-event-missing":
		return e.Kind == 5
	case "step/new-reported-old":
		// a block that no retained request of the author explains: C05's when a deletion
		// request that is gone (or belongs to someone else) names the event, since the
		// block lasts as long as the request is retained and binds its author only
		for _, s := range hs[:len(hs)-1] {
			if s.Event.Kind == 5 && s.Event.ID != e.ID && vk.References(s.Event, e) {
				return true
			}
		}
		if full {
			return false
		}
		c := mocrelay.NewEventCache(capacity)
		for _, s := range hs[:len(hs)-1] {
			if s.Event.Pubkey == e.Pubkey {
				c.Add(s.Event)
			}
		}
		return c.Add(e)
	}
	return false
}

func TestVerif_C05(t *testing.T) {
	rep := vk.NewReport(t, "C05", "exploration")
	rep.Rule = "histories of 1-50 events by 2-4 authors with many deletion requests (before/after their targets, by id and by kind:pubkey:d address, with relay hints, referencing other deletion requests and other authors' events, later evicted or deleted themselves); every step judged by the retention/deletion transition relation (author isolation is part of it); histories that contain addressable events without a d tag are judged only on isolation and address-independent invariants; added later: after a deletion request every removed event is also asked for by id, by author and kind and by each of its single-letter tags; the check reports only steps that break a clause C05 states; non-trivial = a step involving a deletion request, a suppressed event or a removal; distinct = distinct (transition class, #authors, capacity, kind, whether the target is foreign)"
	rep.Assume("self-referencing deletion requests cannot be built with real SHA-256 ids and are not generated")
	defer rep.Finish()
	n := vk.N(5000, 100000)
	vk.Parallel(n, func(i int) {
		r := vk.RNG("C05", i)
		tr := int64(8)
		if r.IntN(3) == 0 {
			tr = 500
		}
		g := vk.NewStoreGen(r, 2+r.IntN(3), tr)
		loose := r.IntN(5) == 0
		g.AllowDless = loose
		g.SelfRef = true // requests that also name themselves, among other targets
		capacity := capFor(r)
		if r.IntN(2) == 0 {
			capacity = 4 + r.IntN(20)
		}
		steps := 1 + r.IntN(50)
		full := false // the store has been full at an insertion: eviction may have played a part since
		runCacheHistory(g, capacity, steps, func(c *mocrelay.EventCache, before []*mocrelay.Event, e *mocrelay.Event, flag bool, after []*mocrelay.Event, hs []histStep) bool {
			rep.Eval(1)
			if loose {
				rep.Count("loose_steps", 1)
				if sig, why := isolationStep(capacity, before, e, after); sig != "" {
					if sig != "step/foreign-event-removed" {
						rep.Count("steps_breaking_only_clauses_of_C04", 1)
						return true
					}
					rep.Violation(sig, why, histWitness(capacity, hs))
					return false
				}
				if e.Kind == 5 {
					rep.Nontrivial(fmt.Sprintf("loose/%d/%d", capacity, len(before)))
				}
				return true
			}
			v := vk.CheckCacheStep(capacity, before, e, flag, after)
			rep.Count("class:"+v.Class, 1)
			foreign := false
			if e.Kind == 5 {
				ids, addrs := vk.DeletionRefs(e)
				for _, x := range before {
					if x.Pubkey != e.Pubkey {
						for _, id := range ids {
							if id == x.ID {
								foreign = true
							}
						}
						for _, a := range addrs {
							if a == vk.Address(x) {
								foreign = true
							}
						}
					}
				}
				if foreign {
					rep.Count("deletion_requests_naming_retained_foreign_events", 1)
				}
			}
			if e.Kind == 5 || v.Class == "suppressed" || len(after) < len(before) {
				rep.Nontrivial(fmt.Sprintf("%s/%d/%d/%d/%v", v.Class, len(g.Authors), capacity, e.Kind, foreign))
			}
			if len(before) >= capacity {
				full = true
			}
			if !v.OK {
				if c05Concern(v.Sig, capacity, e, hs, full) {
					rep.Violation(v.Sig, v.Why, histWitness(capacity, hs))
					return false
				}
				// the step breaks the retention relation in a clause C05 does not state
				// (C04 judges those); the following steps are judged from the observed state
				rep.Count("steps_breaking_only_clauses_of_C04", 1)
				return true
			}
			if sig, why := vk.CheckInvariants(capacity, after); sig != "" {
				if c05Concern(sig, capacity, e, hs, full) {
					rep.Violation(sig, why, histWitness(capacity, hs))
					return false
				}
				rep.Count("steps_breaking_only_clauses_of_C04", 1)
				return true
			}
			// what a deletion request removed is gone for every query, not only for the listing:
			// asked for by id, by author and kind, and by each of its single-letter tags
			if e.Kind == 5 && len(after) < len(before)+1 {
				still := map[string]bool{}
				for _, x := range after {
					still[x.ID] = true
				}
				for _, x := range before {
					if still[x.ID] {
						continue
					}
					fs := []*mocrelay.ReqFilter{{IDs: []string{x.ID}}, {Authors: []string{x.Pubkey}, Kinds: []int64{x.Kind}}}
					for _, t := range x.Tags {
						if len(t) >= 1 && len(t[0]) == 1 {
							v := ""
							if len(t) >= 2 {
								v = t[1]
							}
							fs = append(fs, &mocrelay.ReqFilter{Tags: map[string][]string{t[0]: {v}}})
						}
					}
					for _, f := range fs {
						for _, y := range c.Find([]*mocrelay.ReqFilter{f}) {
							if y.ID == x.ID {
								rep.Violation("query/removed-event-still-served", fmt.Sprintf("event %.8s left the store when deletion request %.8s was inserted, but the query %s still returns it", x.ID, e.ID, vk.JSON(f)), histWitness(capacity, hs))
								return false
							}
						}
					}
					rep.Count("removed_events_asked_for_by_id_author_and_tags", 1)
				}
			}
			// a retained deletion request is served like a regular event: a kinds=[5]
			// query must list exactly the retained kind 5 events
			if e.Kind == 5 {
				got := c.Find([]*mocrelay.ReqFilter{{Kinds: []int64{5}}})
				want := 0
				for _, x := range after {
					if x.Kind == 5 {
						want++
					}
				}
				if len(got) != want {
					rep.Violation("query/deletion-requests-not-served", fmt.Sprintf("kinds=[5] lists %d events, %d deletion requests are retained", len(got), want), histWitness(capacity, hs))
					return false
				}
			}
			if len(hs) == 8 && rep.WantSample() {
				rep.Sample(histWitness(capacity, hs))
			}
			return true
		})
	})
	concurrentDeletionPairs(rep, "C05/pairs", vk.N(1500, 30000))
	for _, c := range []string{"suppressed", "delete-1", "delete-2", "deletion-request"} {
		rep.Require(rep.Counter("class:"+c) >= 20, "transition class "+c+" seen fewer than 20 times")
	}
	rep.Require(rep.Counter("deletion_requests_naming_retained_foreign_events") >= 20, "too few deletion requests naming other authors' retained events")
	rep.Require(rep.Counter("loose_steps") > 0, "no d-less histories")
}

func TestVerif_C03(t *testing.T) {
	rep := vk.NewReport(t, "C03", "exploration")
	rep.Rule = "insertion histories of 1-40 events (3 authors, all event classes, capacities 1..12/100, tie-prone and wide timestamp ranges); after every insertion the retained set R = Find([{}]) is read and a panel of filter lists (selective/non-selective, limit 0..3/1000/none, since/until, several #x, overlapping filters, empty lists of ids/authors/kinds) is queried; each answer must be an allowed answer of the query specification over R (tie-aware); each list is also asked in an access-path-flipped form (scan-served filters get authors=all authors of R, index-served ones get kinds=all kinds of R) which must be acceptable for the same specification; non-trivial = a query issued after at least one event left the store, or one with a limit that cuts the matches; distinct = distinct (condition presence mask of each filter, #matches, limit cut?, retained size)"
	defer rep.Finish()
	n := vk.N(1500, 30000)
	panel := 8
	vk.Parallel(n, func(i int) {
		r := vk.RNG("C03", i)
		tr := int64(5)
		if r.IntN(2) == 0 {
			tr = 200
		}
		g := vk.NewStoreGen(r, 3, tr)
		capacity := capFor(r)
		steps := 1 + r.IntN(40)
		removed := 0
		runCacheHistory(g, capacity, steps, func(c *mocrelay.EventCache, before []*mocrelay.Event, e *mocrelay.Event, flag bool, R []*mocrelay.Event, hs []histStep) bool {
			inR := map[string]bool{}
			for _, x := range R {
				inR[x.ID] = true
			}
			for _, x := range before {
				if !inR[x.ID] {
					removed++
				}
			}
			// the listing itself must be ordered and duplicate free
			if v := vk.CheckQuery(R, matchAll, R); !v.OK {
				rep.Violation("listing/"+v.Sig, v.Why, histWitness(capacity, hs))
				return false
			}
			authors, kinds := allAuthorsKinds(R)
			fg := &vk.FilterGen{R: r, Events: g.Offered, Authors: g.Authors, TimeLo: g.TimeBase, TimeHi: g.TimeBase + tr}
			for q := 0; q < panel; q++ {
				fs := fg.Filters(3)
				ans := c.Find(fs)
				rep.Eval(1)
				v := vk.CheckQuery(R, fs, ans)
				scan, index := 0, 0
				key := fmt.Sprintf("%d|%d|", len(R), v.Ties)
				for _, f := range fs {
					if vk.IsScanFilter(f) {
						scan++
					} else {
						index++
					}
					key += fmt.Sprintf("%x,", filterShape(f))
				}
				rep.Count("filters_scan_served", int64(scan))
				rep.Count("filters_index_served", int64(index))
				if v.Ties > 0 {
					rep.Count("queries_with_tie_at_limit", 1)
				}
				if removed > 0 {
					rep.Count("queries_after_removal", 1)
					rep.Nontrivial(key + fmt.Sprint(len(ans)))
				}
				if !v.OK {
					rep.Violation(v.Sig, v.Why, map[string]any{"capacity": capacity, "history": hs, "filters": fs, "answer": shortIDs(ans), "retained": shortIDs(R)})
					return false
				}
				// access-path flip
				if len(R) > 0 {
					fs2 := make([]*mocrelay.ReqFilter, len(fs))
					for k, f := range fs {
						f2 := vk.CloneFilter(f)
						if vk.IsScanFilter(f) {
							f2.Authors = authors
						} else if f.Kinds == nil {
							f2.Kinds = kinds
						} else if f.Authors == nil {
							f2.Authors = authors
						}
						fs2[k] = f2
					}
					ans2 := c.Find(fs2)
					rep.Eval(1)
					v2 := vk.CheckQuery(R, fs, ans2)
					if !v2.OK {
						rep.Violation("path/"+v2.Sig, "access-path-flipped form of the query: "+v2.Why, map[string]any{"capacity": capacity, "history": hs, "filters": fs, "flipped": fs2, "answer": shortIDs(ans2), "retained": shortIDs(R)})
						return false
					}
					if !sameOrder(ans, ans2) {
						rep.Count("path_pairs_with_different_literal_answers", 1)
						if v.Ties == 0 {
							rep.Violation("path/differs-without-tie", "index-served and scan-served forms of the same query return different answers although no limit cuts through equal timestamps", map[string]any{"capacity": capacity, "history": hs, "filters": fs, "flipped": fs2, "a": shortIDs(ans), "b": shortIDs(ans2)})
							return false
						}
					}
				}
				if q == 1 && len(R) >= 2 && rep.WantSample() {
					rep.Sample(map[string]any{"retained": shortIDs(R), "filters": vk.JSON(fs), "answer": shortIDs(ans)})
				}
			}
			return true
		})
	})
	rep.Require(rep.Counter("queries_after_removal") > int64(n), "too few queries after removals")
	rep.Require(rep.Counter("filters_scan_served") > 100 && rep.Counter("filters_index_served") > 100, "both access paths must be exercised")
	rep.Require(rep.Counter("queries_with_tie_at_limit") > 10, "no tie situations at a limit")
}

func allAuthorsKinds(R []*mocrelay.Event) ([]string, []int64) {
	am, km := map[string]bool{}, map[int64]bool{}
	for _, e := range R {
		am[e.Pubkey] = true
		km[e.Kind] = true
	}
	var a []string
	var k []int64
	for x := range am {
		a = append(a, x)
	}
	for x := range km {
		k = append(k, x)
	}
	sort.Strings(a)
	sort.Slice(k, func(i, j int) bool { return k[i] < k[j] })
	return a, k
}

func filterShape(f *mocrelay.ReqFilter) int {
	m := 0
	if f.IDs != nil {
		m |= 1
	}
	if f.Authors != nil {
		m |= 2
	}
	if f.Kinds != nil {
		m |= 4
	}
	if f.Tags != nil {
		m |= 8
	}
	if f.Since != nil {
		m |= 16
	}
	if f.Until != nil {
		m |= 32
	}
	if f.Limit != nil {
		m |= 64 << min(int(*f.Limit), 4)
	}
	return m
}

func sameOrder(a, b []*mocrelay.Event) bool {
	if len(a) != len(b) {
		return false
	}
	for i := range a {
		if a[i].ID != b[i].ID {
			return false
		}
	}
	return true
}
