#!/usr/bin/env python3
"""confirm_mut.py <PROP> <k> [--needs "..."]

Confirms a seeded change delivered by a sub-agent in /tmp/mut/<PROP>/out/m<k>:
  clean HEAD      : demonstration passes
  HEAD + patch    : builds, the repository's own suite (BASELINE) passes, demonstration fails
and, if all of that holds, stores it as /verif/seeded/<PROP>-m<k>/ (patch.diff, demo, notes, meta.json).
"""
import json, os, re, shutil, subprocess, sys

prop, k = sys.argv[1], sys.argv[2]
root = os.environ.get("MUT_ROOT", "/tmp/mut")
name = os.environ.get("MUT_AS", "m" + k)
src = "%s/%s/out/m%s" % (root, prop, k)
dst = "/verif/seeded/%s-%s" % (prop, name)
env = dict(os.environ, GOFLAGS="-mod=mod", GOPROXY="off", GOSUMDB="off", GOTOOLCHAIN="local")
W = "/tmp/confirm.%d" % os.getpid()


def sh(cmd, cwd=None, timeout=900):
    p = subprocess.run(cmd, shell=True, cwd=cwd, env=env, stdout=subprocess.PIPE, stderr=subprocess.STDOUT, text=True, timeout=timeout)
    return p.returncode, p.stdout


demos = [f for f in os.listdir(src) if f.endswith("_test.go")]
if not demos:
    print("no demo test file in", src); sys.exit(2)
pkgdirs = {"mocrelay": ".", "mocrelay_test": ".", "sqlite": "handler/sqlite", "sqlite_test": "handler/sqlite",
           "prometheus": "middleware/prometheus", "prometheus_test": "middleware/prometheus"}
subprocess.run(["git", "-C", "/repo", "worktree", "add", "--detach", W, "HEAD"], check=True, stdout=subprocess.DEVNULL, stderr=subprocess.DEVNULL)
res = {}
try:
    placed = []
    pkg = None
    for d in demos:
        txt = open(os.path.join(src, d)).read()
        m = re.search(r"^package (\w+)", txt, re.M)
        pkg = pkgdirs[m.group(1)]
        tgt = os.path.join(W, pkg, "zz_demo_" + d)
        shutil.copy(os.path.join(src, d), tgt)
        placed.append(tgt)
    names = set()
    for d in demos:
        names.update(re.findall(r"^func (Test\w+)\(", open(os.path.join(src, d)).read(), re.M))
    runre = "^(%s)$" % "|".join(sorted(names))
    democmd = "go test -tags verif -count=1 -run '%s' ./%s" % (runre, pkg)
    rc, out = sh(democmd, W)
    res["demo_on_clean"] = {"cmd": democmd, "exit": rc, "tail": out[-600:]}
    for t in placed:
        os.remove(t)
    rc2, out2 = sh("git apply %s/patch.diff" % src, W)
    res["patch_applies"] = rc2 == 0
    rc3, out3 = sh("go build ./...", W)
    res["builds"] = rc3 == 0
    rc4, out4 = sh("VERIF_REPO=%s /verif/tools/baseline.sh" % W)
    res["suite_with_patch"] = {"exit": rc4, "out": out4.strip()[-300:]}
    for d, t in zip(demos, placed):
        shutil.copy(os.path.join(src, d), t)
    rc5, out5 = sh(democmd, W)
    res["demo_with_patch"] = {"cmd": democmd, "exit": rc5, "tail": out5[-900:]}
    ok = res["demo_on_clean"]["exit"] == 0 and res["patch_applies"] and res["builds"] and rc4 == 0 and rc5 != 0
    res["confirmed"] = ok
finally:
    subprocess.run(["git", "-C", "/repo", "worktree", "remove", "--force", W])
print(json.dumps({k_: (v if not isinstance(v, dict) else {a: b for a, b in v.items() if a != "tail"}) for k_, v in res.items()}, indent=1))
if res.get("confirmed"):
    os.makedirs(dst, exist_ok=True)
    shutil.copy(os.path.join(src, "patch.diff"), dst)
    for d in demos:
        shutil.copy(os.path.join(src, d), os.path.join(dst, d.replace("_test.go", "_test.go.txt")))
    if os.path.exists(os.path.join(src, "notes.md")):
        shutil.copy(os.path.join(src, "notes.md"), dst)
    meta = {"property": prop, "source": "independent sub-agent given only the property text and a scratch worktree",
            "base_commit": subprocess.run(["git", "-C", "/repo", "rev-parse", "HEAD"], stdout=subprocess.PIPE, text=True).stdout.strip(),
            "demo_package_dir": pkg, "confirmation": res,
            "note": "demo files are stored with a .txt suffix so that no Go tooling picks them up here"}
    mp = os.path.join(dst, "meta.json")
    if os.path.exists(mp):
        old = json.load(open(mp))
        for kk in ("needs", "detected_by", "what"):
            if kk in old:
                meta[kk] = old[kk]
    json.dump(meta, open(mp, "w"), indent=1)
    print("stored in", dst)
sys.exit(0 if res.get("confirmed") else 1)
