package verifkit

import (
	"github.com/high-moctane/mocrelay"
)

// RefMatch is the NIP-01 filter predicate transliterated from the statement of C02:
// every present condition must hold, absent conditions do not constrain, an empty list
// matches nothing.
func RefMatch(f *mocrelay.ReqFilter, e *mocrelay.Event) bool {
	if f.IDs != nil {
		ok := false
		for _, id := range f.IDs {
			if id == e.ID {
				ok = true
			}
		}
		if !ok {
			return false
		}
	}
	if f.Authors != nil {
		ok := false
		for _, a := range f.Authors {
			if a == e.Pubkey {
				ok = true
			}
		}
		if !ok {
			return false
		}
	}
	if f.Kinds != nil {
		ok := false
		for _, k := range f.Kinds {
			if k == e.Kind {
				ok = true
			}
		}
		if !ok {
			return false
		}
	}
	for name, vals := range f.Tags {
		// at least one tag named `name` whose value (2nd element, "" if absent) is listed
		ok := false
		for _, t := range e.Tags {
			if len(t) == 0 || t[0] != name {
				continue
			}
			v := ""
			if len(t) >= 2 {
				v = t[1]
			}
			for _, w := range vals {
				if w == v {
					ok = true
				}
			}
		}
		if !ok {
			return false
		}
	}
	if f.Since != nil && e.CreatedAt < *f.Since {
		return false
	}
	if f.Until != nil && e.CreatedAt > *f.Until {
		return false
	}
	return true
}

// RefMatchAny: a filter list matches when any member matches.
func RefMatchAny(fs []*mocrelay.ReqFilter, e *mocrelay.Event) bool {
	for _, f := range fs {
		if RefMatch(f, e) {
			return true
		}
	}
	return false
}

// FilterMask describes which conditions are present and how they evaluate on e; used
// for truth-table coverage accounting. Bits: presence (7) then outcome (7).
func FilterMask(f *mocrelay.ReqFilter, e *mocrelay.Event) uint32 {
	var m uint32
	set := func(bit int, present, holds bool) {
		if present {
			m |= 1 << bit
			if holds {
				m |= 1 << (bit + 8)
			}
		}
	}
	one := func(g mocrelay.ReqFilter) bool { return RefMatch(&g, e) }
	set(0, f.IDs != nil, one(mocrelay.ReqFilter{IDs: f.IDs}))
	set(1, f.Authors != nil, one(mocrelay.ReqFilter{Authors: f.Authors}))
	set(2, f.Kinds != nil, one(mocrelay.ReqFilter{Kinds: f.Kinds}))
	set(3, f.Tags != nil, one(mocrelay.ReqFilter{Tags: f.Tags}))
	set(4, f.Since != nil, one(mocrelay.ReqFilter{Since: f.Since}))
	set(5, f.Until != nil, one(mocrelay.ReqFilter{Until: f.Until}))
	set(6, f.Limit != nil, true)
	if f.IDs != nil && len(f.IDs) == 0 || f.Authors != nil && len(f.Authors) == 0 || f.Kinds != nil && len(f.Kinds) == 0 {
		m |= 1 << 16
	}
	if len(f.Tags) > 1 {
		m |= 1 << 17
	}
	return m
}

// CloneFilter deep-copies a filter.
func CloneFilter(f *mocrelay.ReqFilter) *mocrelay.ReqFilter {
	if f == nil {
		return nil
	}
	g := &mocrelay.ReqFilter{}
	if f.IDs != nil {
		g.IDs = append([]string{}, f.IDs...)
	}
	if f.Authors != nil {
		g.Authors = append([]string{}, f.Authors...)
	}
	if f.Kinds != nil {
		g.Kinds = append([]int64{}, f.Kinds...)
	}
	if f.Tags != nil {
		g.Tags = map[string][]string{}
		for k, v := range f.Tags {
			g.Tags[k] = append([]string{}, v...)
		}
	}
	if f.Since != nil {
		g.Since = Ptr(*f.Since)
	}
	if f.Until != nil {
		g.Until = Ptr(*f.Until)
	}
	if f.Limit != nil {
		g.Limit = Ptr(*f.Limit)
	}
	return g
}
