package verifkit

import (
	"fmt"
	"sort"
	"strings"
	"sync/atomic"
	"time"

	"github.com/anishathalye/porcupine"
	"github.com/high-moctane/mocrelay"
)

// Logical clock shared by all recorders of a process: call = Tick() before the
// operation is handed to the system, ret = Tick() after its reply was received.
var logicalClock atomic.Int64

func Tick() int64 { return logicalClock.Add(1) }

// CacheOp / CacheOut are the input and output of one store operation in a history.
type CacheOp struct {
	Kind    string // "add", "find", "len"
	Event   *mocrelay.Event
	Filters []*mocrelay.ReqFilter
}

type CacheOut struct {
	Flag bool
	IDs  []string
	N    int
}

func (o CacheOp) String() string {
	switch o.Kind {
	case "add":
		return fmt.Sprintf("Add(%.8s k%d %.4s @%d)", o.Event.ID, o.Event.Kind, o.Event.Pubkey, o.Event.CreatedAt)
	case "find":
		return "Find(" + JSON(o.Filters) + ")"
	}
	return "Len()"
}

func (o CacheOut) String() string {
	s := make([]string, len(o.IDs))
	for i, id := range o.IDs {
		s[i] = id[:min(8, len(id))]
	}
	return fmt.Sprintf("flag=%v n=%d ids=[%s]", o.Flag, o.N, strings.Join(s, " "))
}

type cacheState []*mocrelay.Event // sorted by created_at descending

func IDsOf(R []*mocrelay.Event) []string {
	s := make([]string, len(R))
	for i, e := range R {
		s[i] = e.ID
	}
	return s
}

// CacheModel is the sequential specification of the in-memory store as a porcupine
// model (deterministic: histories must not contain two events with equal created_at).
func CacheModel(capacity int) porcupine.Model {
	return porcupine.Model{
		Init: func() interface{} { return cacheState(nil) },
		Step: func(state, input, output interface{}) (bool, interface{}) {
			st := state.(cacheState)
			in := input.(CacheOp)
			out := output.(CacheOut)
			switch in.Kind {
			case "add":
				flag, next := SpecAdd(capacity, st, in.Event)
				if flag != out.Flag {
					return false, st
				}
				ns := append(cacheState{}, next...)
				sort.Slice(ns, func(a, b int) bool { return ns[a].CreatedAt > ns[b].CreatedAt })
				return true, ns
			case "find":
				want := SpecQuery(st, in.Filters)
				if len(want) != len(out.IDs) {
					return false, st
				}
				for i := range want {
					if want[i].ID != out.IDs[i] {
						return false, st
					}
				}
				return true, st
			default:
				return out.N == len(st), st
			}
		},
		Equal: func(a, b interface{}) bool {
			x, y := a.(cacheState), b.(cacheState)
			if len(x) != len(y) {
				return false
			}
			for i := range x {
				if x[i].ID != y[i].ID {
					return false
				}
			}
			return true
		},
		DescribeOperation: func(in, out interface{}) string {
			return in.(CacheOp).String() + " -> " + out.(CacheOut).String()
		},
	}
}

// CheckLinearizable runs porcupine on a recorded history.
// verdict: "ok", "illegal", "unknown" (timeout => inconclusive).
func CheckLinearizable(capacity int, ops []porcupine.Operation, timeout time.Duration) string {
	res, _ := porcupine.CheckOperationsVerbose(CacheModel(capacity), ops, timeout)
	switch res {
	case porcupine.Ok:
		return "ok"
	case porcupine.Illegal:
		return "illegal"
	}
	return "unknown"
}

// DescribeHistory renders a history for witnesses, in call order.
func DescribeHistory(ops []porcupine.Operation) []string {
	cp := append([]porcupine.Operation{}, ops...)
	sort.Slice(cp, func(a, b int) bool { return cp[a].Call < cp[b].Call })
	out := make([]string, len(cp))
	for i, o := range cp {
		out[i] = fmt.Sprintf("client %d [%d,%d] %s -> %s", o.ClientId, o.Call, o.Return, o.Input.(CacheOp), o.Output.(CacheOut))
	}
	return out
}

// OverlapPairs counts pairs of operations of different clients whose intervals overlap.
func OverlapPairs(ops []porcupine.Operation) int {
	n := 0
	for i := range ops {
		for j := i + 1; j < len(ops); j++ {
			if ops[i].ClientId != ops[j].ClientId && ops[i].Call < ops[j].Return && ops[j].Call < ops[i].Return {
				n++
			}
		}
	}
	return n
}
