package sqlite

import (
	"bytes"
	"context"
	"database/sql"
	"encoding/json"
	"fmt"
	"math/rand/v2"
	"path/filepath"
	"sort"
	"strings"
	"testing"
	"time"

	"github.com/high-moctane/mocrelay"
	vk "github.com/high-moctane/mocrelay/internal/verifkit"
)

// C16 — storage handlers reply completely and in order; dump/restore is lossless.

type c16Msg struct {
	msg   mocrelay.ClientMsg
	all   bool // REQ with the match-everything filter (state observation)
	event *mocrelay.Event
}

func c16Describe(ms []c16Msg) []string {
	out := make([]string, len(ms))
	for i, m := range ms {
		out[i] = vk.DescribeClientMsg(m.msg)
	}
	return out
}

// c16Canon renders a reply stream with runs of EVENT replies that share subscription id
// and created_at sorted by id: the order inside such a run is not fixed by any statement.
func c16Canon(rs []mocrelay.ServerMsg) []string {
	out := c16DescribeReplies(rs)
	i := 0
	for i < len(rs) {
		e, is := rs[i].(*mocrelay.ServerEventMsg)
		if !is {
			i++
			continue
		}
		j := i + 1
		for j < len(rs) {
			f, is2 := rs[j].(*mocrelay.ServerEventMsg)
			if !is2 || f.SubscriptionID != e.SubscriptionID || f.Event.CreatedAt != e.Event.CreatedAt {
				break
			}
			j++
		}
		sort.Strings(out[i:j])
		i = j
	}
	return out
}

func c16DescribeReplies(rs []mocrelay.ServerMsg) []string {
	out := make([]string, len(rs))
	for i, m := range rs {
		out[i] = vk.DescribeServerMsg(m)
	}
	return out
}

// c16Pipeline sends all messages while reading replies until the reply of the final
// sentinel COUNT arrived.
func c16Pipeline(s *vk.Session, ms []c16Msg, sentinel string) (replies []mocrelay.ServerMsg, ok bool) {
	go func() {
		for _, m := range ms {
			if !s.Put(m.msg) {
				return
			}
		}
		s.Put(&mocrelay.ClientCountMsg{SubscriptionID: sentinel, ReqFilters: []*mocrelay.ReqFilter{{}}})
	}()
	for {
		m, got := s.Get()
		if !got {
			return replies, false
		}
		if c, isC := m.(*mocrelay.ServerCountMsg); isC && c.SubscriptionID == sentinel {
			return replies, true
		}
		replies = append(replies, m)
	}
}

// c16Group parses the reply stream into per-request groups; returns the groups or an error.
func c16Group(ms []c16Msg, replies []mocrelay.ServerMsg) (groups [][]mocrelay.ServerMsg, sig, why string) {
	i := 0
	next := func() mocrelay.ServerMsg {
		if i < len(replies) {
			i++
			return replies[i-1]
		}
		return nil
	}
	for k, m := range ms {
		var g []mocrelay.ServerMsg
		switch cm := m.msg.(type) {
		case *mocrelay.ClientEventMsg:
			r := next()
			ok, is := r.(*mocrelay.ServerOKMsg)
			if !is || ok.EventID != cm.Event.ID {
				return nil, "replies/event-without-its-ok", fmt.Sprintf("request %d (EVENT %.8s) is answered by %s", k, cm.Event.ID, vk.DescribeServerMsg(r))
			}
			g = append(g, r)
		case *mocrelay.ClientReqMsg:
			for {
				r := next()
				if e, is := r.(*mocrelay.ServerEOSEMsg); is {
					if e.SubscriptionID != cm.SubscriptionID {
						return nil, "replies/eose-wrong-subid", fmt.Sprintf("request %d (REQ %s) ended by EOSE %s", k, cm.SubscriptionID, e.SubscriptionID)
					}
					g = append(g, r)
					break
				}
				ev, is := r.(*mocrelay.ServerEventMsg)
				if !is {
					return nil, "replies/req-without-eose", fmt.Sprintf("request %d (REQ %s): expected events then EOSE, got %s", k, cm.SubscriptionID, vk.DescribeServerMsg(r))
				}
				if ev.SubscriptionID != cm.SubscriptionID {
					return nil, "replies/event-wrong-subid", fmt.Sprintf("request %d (REQ %s): event labelled %s", k, cm.SubscriptionID, ev.SubscriptionID)
				}
				g = append(g, r)
			}
		case *mocrelay.ClientCountMsg:
			r := next()
			c, is := r.(*mocrelay.ServerCountMsg)
			if !is || c.SubscriptionID != cm.SubscriptionID {
				return nil, "replies/count-without-its-reply", fmt.Sprintf("request %d (COUNT %s) is answered by %s", k, cm.SubscriptionID, vk.DescribeServerMsg(r))
			}
			g = append(g, r)
		}
		groups = append(groups, g)
	}
	if i != len(replies) {
		return nil, "replies/extra", fmt.Sprintf("%d replies beyond what the requests call for, first: %s", len(replies)-i, vk.DescribeServerMsg(replies[i]))
	}
	return groups, "", ""
}

func c16Events(g []mocrelay.ServerMsg) []*mocrelay.Event {
	var out []*mocrelay.Event
	for _, m := range g {
		if e, is := m.(*mocrelay.ServerEventMsg); is {
			out = append(out, e.Event)
		}
	}
	return out
}

func c16Noise(r *rand.Rand, fg *vk.FilterGen, g *vk.StoreGen) []c16Msg {
	var out []c16Msg
	n := r.IntN(3)
	for i := 0; i < n; i++ {
		sub := vk.Pick(r, []string{"a", "b", "sub-"})
		switch r.IntN(5) {
		case 0:
			out = append(out, c16Msg{msg: &mocrelay.ClientCloseMsg{SubscriptionID: sub}})
		case 1:
			out = append(out, c16Msg{msg: &mocrelay.ClientAuthMsg{Event: vk.Seal(&mocrelay.Event{Kind: 22242, Pubkey: g.Authors[0], CreatedAt: 5, Content: "auth"})}})
		case 2:
			out = append(out, c16Msg{msg: &mocrelay.ClientCountMsg{SubscriptionID: sub, ReqFilters: fg.Filters(2)}})
		default:
			out = append(out, c16Msg{msg: &mocrelay.ClientReqMsg{SubscriptionID: sub, ReqFilters: fg.Filters(3)}})
		}
	}
	return out
}

// c16Newest orders a REQ answer newest first: the statement fixes which stored events a REQ
// is answered with and that one EOSE follows them, not the order among them (the order of
// the stores' own query results is the business of C03 and C06).
func c16Newest(ans []*mocrelay.Event) []*mocrelay.Event {
	out := append([]*mocrelay.Event{}, ans...)
	sort.SliceStable(out, func(a, b int) bool { return out[a].CreatedAt > out[b].CreatedAt })
	return out
}

func TestVerif_C16(t *testing.T) {
	rep := vk.NewReport(t, "C16", "exploration")
	rep.Rule = "one session per generated client message sequence over all five message types: (a) CacheHandler, fully pipelined (EVENT, match-everything REQ as state observation, random REQ/COUNT/CLOSE/AUTH), replies parsed into per-request groups, OK verdict judged by the retention specification, REQ answers by the query specification; followed by Dump -> Restore into a fresh cache of the same capacity and a differential panel of 40 filter lists plus a second dump; (b) SQLiteHandler (EventBulkInsertNum=1), REQs issued at quiescence (a sentinel event is polled in the events table), answers judged against the SQLite model; added later: one large dump/restore round trip in four uses a cache of 1100-3500 events over at most two minutes of timestamps; non-trivial = a sequence containing a rejected EVENT, a non-empty REQ answer or a CLOSE/AUTH between requests; distinct = distinct (message-type sequence shape, #rejected, capacity)"
	rep.Assume("for ephemeral events the cache handler's OK verdict is not judged: 'accepting iff newly stored' (C16) and 'reported as new iff neither duplicate, older nor suppressed' (C04) disagree on an event class that is never stored")
	defer rep.Finish()
	ctx := context.Background()

	// (a) cache handler
	nA := vk.N(4000, 60000)
	vk.Parallel(nA, func(i int) {
		r := vk.RNG("C16/cache", i)
		tr := int64(6)
		if r.IntN(2) == 0 {
			tr = 300
		}
		g := vk.NewStoreGen(r, 3, tr)
		g.HostileContent = true
		capacity := 1 + r.IntN(12)
		h := mocrelay.NewCacheHandler(capacity)
		fg := &vk.FilterGen{R: r, Authors: g.Authors, TimeLo: g.TimeBase, TimeHi: g.TimeBase + tr}
		var ms []c16Msg
		steps := 1 + r.IntN(25)
		for k := 0; k < steps; k++ {
			e := g.Next()
			fg.Events = g.Offered
			ms = append(ms, c16Msg{msg: &mocrelay.ClientEventMsg{Event: e}, event: e})
			ms = append(ms, c16Msg{msg: &mocrelay.ClientReqMsg{SubscriptionID: fmt.Sprintf("all%d", k), ReqFilters: []*mocrelay.ReqFilter{{}}}, all: true})
			ms = append(ms, c16Noise(r, fg, g)...)
		}
		s := vk.StartSession(ctx, h, 0)
		replies, ok := c16Pipeline(s, ms, "zz-sentinel")
		stopped := s.Stop()
		rep.Eval(1)
		wit := func() map[string]any {
			return map[string]any{"handler": "cache", "capacity": capacity, "requests": c16Describe(ms), "replies": c16DescribeReplies(replies)}
		}
		if !ok {
			rep.Violation("replies/stalled", "the reply to the final COUNT never arrived (a request earlier in the sequence was left unanswered or the session ended)", wit())
			return
		}
		if !stopped {
			rep.Inconclusive("C16: session did not stop within the bound")
		}
		groups, sig, why := c16Group(ms, replies)
		if sig != "" {
			rep.Violation(sig, why, wit())
			return
		}
		var R []*mocrelay.Event // last observed retained set
		var pending *c16Msg
		var pendingOK *mocrelay.ServerOKMsg
		rejected, nonEmpty := 0, 0
		shape := ""
		for k := range ms {
			m := &ms[k]
			switch cm := m.msg.(type) {
			case *mocrelay.ClientEventMsg:
				pending, pendingOK = m, groups[k][0].(*mocrelay.ServerOKMsg)
				if !pendingOK.Accepted {
					rejected++
				}
				shape += "E"
			case *mocrelay.ClientReqMsg:
				ans := c16Events(groups[k])
				if len(ans) > 0 {
					nonEmpty++
				}
				if m.all {
					shape += "A"
					if v := vk.CheckQuery(c16Newest(ans), cm.ReqFilters, c16Newest(ans)); !v.OK {
						rep.Violation("listing/"+v.Sig, v.Why, wit())
						return
					}
					e := pending.event
					if vk.ClassOf(e.Kind) == vk.Ephemeral {
						// verdict not judged, but it must not be stored
						if v := vk.CheckCacheStep(capacity, R, e, true, ans); !v.OK {
							rep.Violation(v.Sig, v.Why, wit())
							return
						}
					} else {
						v := vk.CheckCacheStep(capacity, R, e, pendingOK.Accepted, ans)
						if !v.OK {
							rep.Violation("ok-verdict/"+v.Sig, fmt.Sprintf("EVENT %.8s answered OK %v: %s", e.ID, pendingOK.Accepted, v.Why), wit())
							return
						}
						if !pendingOK.Accepted {
							for _, x := range R {
								if x.ID == e.ID && !strings.HasPrefix(pendingOK.Message(), "duplicate:") {
									rep.Violation("ok-text/duplicate-prefix-missing", fmt.Sprintf("event %.8s is already stored but the rejection reads %q", e.ID, pendingOK.Message()), wit())
									return
								}
							}
						}
					}
					R = ans
				} else {
					shape += "R"
					if v := vk.CheckQuery(R, cm.ReqFilters, c16Newest(ans)); !v.OK {
						rep.Violation("req-answer/"+v.Sig, v.Why, wit())
						return
					}
				}
			case *mocrelay.ClientCountMsg:
				shape += "C"
			case *mocrelay.ClientCloseMsg:
				shape += "x"
			case *mocrelay.ClientAuthMsg:
				shape += "a"
			}
		}
		if rejected > 0 || nonEmpty > 0 || strings.ContainsAny(shape, "xa") {
			rep.Nontrivial(fmt.Sprintf("cache/%s/%d/%d", shape, rejected, capacity))
		}
		rep.Count("cache_sequences", 1)
		rep.Count("cache_requests", int64(len(ms)))
		rep.Count("cache_rejected_events", int64(rejected))
		if rep.WantSample() {
			rep.Sample(map[string]any{"handler": "cache", "capacity": capacity, "requests": c16Describe(ms)[:min(8, len(ms))], "replies": c16DescribeReplies(replies)[:min(12, len(replies))]})
		}

		// dump / restore differential
		if i%3 == 0 {
			var buf bytes.Buffer
			if err := h.Dump(&buf); err != nil {
				rep.Violation("dump/error", err.Error(), wit())
				return
			}
			dump1 := append([]byte{}, buf.Bytes()...)
			h2 := mocrelay.NewCacheHandler(capacity)
			if err := h2.Restore(bytes.NewReader(dump1)); err != nil {
				rep.Violation("restore/error", err.Error(), map[string]any{"dump": string(dump1)})
				return
			}
			var panel []c16Msg
			panel = append(panel, c16Msg{msg: &mocrelay.ClientReqMsg{SubscriptionID: "p-all", ReqFilters: []*mocrelay.ReqFilter{{}}}})
			for q := 0; q < 40; q++ {
				panel = append(panel, c16Msg{msg: &mocrelay.ClientReqMsg{SubscriptionID: fmt.Sprintf("p%d", q), ReqFilters: fg.Filters(3)}})
			}
			s1 := vk.StartSession(ctx, h, 0)
			r1, ok1 := c16Pipeline(s1, panel, "zz-p")
			s1.Stop()
			s2 := vk.StartSession(ctx, h2, 0)
			r2, ok2 := c16Pipeline(s2, panel, "zz-p")
			s2.Stop()
			rep.Eval(1)
			if !ok1 || !ok2 {
				rep.Violation("restore/panel-stalled", "query panel not answered", wit())
				return
			}
			d1, d2 := c16Canon(r1), c16Canon(r2)
			if strings.Join(d1, "\n") != strings.Join(d2, "\n") {
				at := 0
				for at < len(d1) && at < len(d2) && d1[at] == d2[at] {
					at++
				}
				rep.Violation("restore/answers-differ", fmt.Sprintf("original and restored cache answer the panel differently, first difference at reply %d", at),
					map[string]any{"capacity": capacity, "requests": c16Describe(ms), "panel": c16Describe(panel), "original": d1, "restored": d2})
				return
			}
			// full events must be equal too (content, tags, sig)
			byID := map[string]*mocrelay.Event{}
			for k := range r1 {
				if e1, is1 := r1[k].(*mocrelay.ServerEventMsg); is1 {
					byID[e1.Event.ID] = e1.Event
				}
			}
			for k := range r2 {
				if e2, is2 := r2[k].(*mocrelay.ServerEventMsg); is2 && !vk.EventsEqual(byID[e2.Event.ID], e2.Event) {
					rep.Violation("restore/event-altered", "an event differs after dump/restore", map[string]any{"original": byID[e2.Event.ID], "restored": e2.Event})
					return
				}
			}
			var buf2 bytes.Buffer
			h2.Dump(&buf2)
			var l1, l2 []*mocrelay.Event
			if json.Unmarshal(dump1, &l1) != nil || json.Unmarshal(buf2.Bytes(), &l2) != nil || len(l1) != len(l2) {
				rep.Violation("restore/second-dump-differs", "the dump of the restored cache does not decode to the same list", map[string]any{"first": string(dump1), "second": buf2.String()})
				return
			}
			m1 := map[string]*mocrelay.Event{}
			for _, e := range l1 {
				m1[e.ID] = e
			}
			for k := range l2 {
				if !vk.EventsEqual(m1[l2[k].ID], l2[k]) {
					rep.Violation("restore/second-dump-differs", "the dump of the restored cache lists different events", map[string]any{"first": string(dump1), "second": buf2.String()})
					return
				}
			}
			rep.Count("dump_restore_roundtrips", 1)
			if len(l1) > 0 {
				rep.Nontrivial(fmt.Sprintf("dump/%d/%d", capacity, len(l1)))
			}
		}
	})

	// (b) SQLite handler
	nB := vk.N(200, 3000)
	vk.ParallelW(8, nB, func(i int) {
		r := vk.RNG("C16/sqlite", i)
		db := openMemDB(t)
		defer db.Close()
		hctx, hcancel := context.WithCancel(ctx)
		defer hcancel()
		h, err := NewSQLiteHandler(hctx, db, &SQLiteHandlerOption{EventBulkInsertNum: 1, MaxLimit: NoLimit})
		if err != nil {
			rep.Violation("sqlite/new-handler", err.Error(), nil)
			return
		}
		var seed uint32
		if err := db.QueryRowContext(ctx, "select seed from xxhash_seed").Scan(&seed); err != nil {
			rep.Violation("sqlite/seed", err.Error(), nil)
			return
		}
		g := sqlHistoryGen(r)
		g.BigEvery = 0
		model := vk.NewSQLModel()
		fg := &vk.FilterGen{R: r, Authors: g.Authors, TimeLo: g.TimeBase, TimeHi: g.TimeBase + g.TimeRange}
		s := vk.StartSession(ctx, h, 64)
		defer s.Stop()
		var log []string
		wit := func() map[string]any { return map[string]any{"handler": "sqlite", "exchange": log} }
		expectNothing := func() bool {
			// replies come in request order: a COUNT sent now must be the next reply
			s.Put(&mocrelay.ClientCountMsg{SubscriptionID: "barrier", ReqFilters: []*mocrelay.ReqFilter{{}}})
			m, ok := s.Get()
			log = append(log, "> COUNT barrier", "< "+vk.DescribeServerMsg(m))
			c, is := m.(*mocrelay.ServerCountMsg)
			if !ok || !is || c.SubscriptionID != "barrier" {
				rep.Violation("replies/unexpected-reply", "a CLOSE/AUTH was followed by "+vk.DescribeServerMsg(m)+" instead of the reply to the next request", wit())
				return false
			}
			return true
		}
		quiesce := func(k int) bool {
			sent := vk.Seal(&mocrelay.Event{Kind: 1, Pubkey: g.Authors[0], CreatedAt: 1, Content: fmt.Sprintf("sentinel %d %d", i, k), Tags: []mocrelay.Tag{}})
			s.Put(&mocrelay.ClientEventMsg{Event: sent})
			m, ok := s.Get()
			if o, is := m.(*mocrelay.ServerOKMsg); !ok || !is || o.EventID != sent.ID || !o.Accepted {
				rep.Violation("replies/event-without-its-ok", "sentinel EVENT answered by "+vk.DescribeServerMsg(m), wit())
				return false
			}
			model.Insert(sent)
			g.Offered = append(g.Offered, sent)
			deadline := time.Now().Add(vk.WaitBound)
			for {
				var n int
				idb := hexBytes(sent.ID)
				if err := db.QueryRowContext(ctx, "select count(*) from events where id = ?", idb).Scan(&n); err == nil && n > 0 {
					return true
				}
				if time.Now().After(deadline) {
					rep.Inconclusive("C16: SQLite bulk inserter did not store the sentinel within the bound")
					return false
				}
				time.Sleep(200 * time.Microsecond)
			}
		}
		steps := 3 + r.IntN(20)
		shape := ""
		for k := 0; k < steps; k++ {
			fg.Events = g.Offered
			switch c := r.IntN(10); {
			case c < 5:
				e := g.Next()
				if keyCollision(seed, g.Offered) {
					rep.Count("histories_discarded_for_key_collision", 1)
					return
				}
				s.Put(&mocrelay.ClientEventMsg{Event: e})
				m, ok := s.Get()
				log = append(log, "> "+vk.DescribeClientMsg(&mocrelay.ClientEventMsg{Event: e}), "< "+vk.DescribeServerMsg(m))
				o, is := m.(*mocrelay.ServerOKMsg)
				if !ok || !is || o.EventID != e.ID {
					rep.Violation("replies/event-without-its-ok", "EVENT answered by "+vk.DescribeServerMsg(m), wit())
					return
				}
				if !o.Accepted {
					rep.Violation("ok-verdict/sqlite-rejects", "the SQLite handler answered an EVENT with a rejecting OK", wit())
					return
				}
				model.Insert(e)
				shape += "E"
			case c < 8:
				if !quiesce(k) {
					return
				}
				fs := fg.Filters(3)
				if r.IntN(4) == 0 {
					fs = []*mocrelay.ReqFilter{{}}
				}
				if r.IntN(12) == 0 {
					// a filter naming tens of thousands of ids none of which is stored: whatever
					// the store makes of it, the REQ must still be closed by its EOSE
					ids := make([]string, 33000)
					for x := range ids {
						ids[x] = vk.HexOf(fmt.Sprintf("absent %d %d %d", i, k, x))
					}
					fs = []*mocrelay.ReqFilter{{IDs: ids}}
					rep.Count("sqlite_huge_id_lists", 1)
				}
				sub := vk.Pick(r, []string{"a", "b", "long-subscription-id"})
				req := &mocrelay.ClientReqMsg{SubscriptionID: sub, ReqFilters: fs}
				if len(fs) == 1 && len(fs[0].IDs) > 1000 {
					req = &mocrelay.ClientReqMsg{SubscriptionID: sub, ReqFilters: fs}
					log = append(log, fmt.Sprintf("> REQ %s {ids: %d absent ids}", sub, len(fs[0].IDs)))
				}
				s.Put(req)
				if len(fs) != 1 || len(fs[0].IDs) <= 1000 {
					log = append(log, "> "+vk.DescribeClientMsg(req))
				}
				var ans []*mocrelay.Event
				for {
					m, ok := s.Get()
					log = append(log, "< "+vk.DescribeServerMsg(m))
					if !ok {
						rep.Violation("replies/req-without-eose", "REQ not answered by EOSE", wit())
						return
					}
					if eo, is := m.(*mocrelay.ServerEOSEMsg); is {
						if eo.SubscriptionID != sub {
							rep.Violation("replies/eose-wrong-subid", "EOSE for "+eo.SubscriptionID, wit())
							return
						}
						break
					}
					ev, is := m.(*mocrelay.ServerEventMsg)
					if !is || ev.SubscriptionID != sub {
						rep.Violation("replies/req-without-eose", "REQ answered by "+vk.DescribeServerMsg(m), wit())
						return
					}
					ans = append(ans, ev.Event)
				}
				rep.Eval(1)
				if v := vk.CheckQuery(model.Live(), fs, c16Newest(ans)); !v.OK {
					rep.Violation("req-answer/"+classifySQLAnswer(v.Sig, false, model, g.Offered, ans), v.Why, wit())
					return
				}
				if len(ans) > 0 {
					shape += "R"
				} else {
					shape += "r"
				}
			case c < 9:
				cm := &mocrelay.ClientCountMsg{SubscriptionID: "cnt", ReqFilters: fg.Filters(2)}
				s.Put(cm)
				m, ok := s.Get()
				log = append(log, "> COUNT cnt", "< "+vk.DescribeServerMsg(m))
				if cr, is := m.(*mocrelay.ServerCountMsg); !ok || !is || cr.SubscriptionID != "cnt" {
					rep.Violation("replies/count-without-its-reply", "COUNT answered by "+vk.DescribeServerMsg(m), wit())
					return
				}
				shape += "C"
			default:
				if r.IntN(2) == 0 {
					s.Put(&mocrelay.ClientCloseMsg{SubscriptionID: "a"})
					log = append(log, "> CLOSE a")
				} else {
					s.Put(&mocrelay.ClientAuthMsg{Event: vk.Seal(&mocrelay.Event{Kind: 22242, Pubkey: g.Authors[0], CreatedAt: 9, Content: "x"})})
					log = append(log, "> AUTH")
				}
				if !expectNothing() {
					return
				}
				shape += "x"
			}
		}
		rep.Eval(1)
		rep.Count("sqlite_sequences", 1)
		if strings.ContainsAny(shape, "Rx") {
			rep.Nontrivial("sqlite/" + shape)
		}
		if rep.WantSample() {
			rep.Sample(map[string]any{"handler": "sqlite", "exchange": log[:min(14, len(log))]})
		}
	})
	// (c) large caches: dump/restore with hundreds of events and many equal timestamps
	nC := vk.N(16, 200)
	vk.Parallel(nC, func(i int) {
		r := vk.RNG("C16/bigdump", i)
		capacity := 110 + r.IntN(300)
		nOffered := capacity/2 + r.IntN(capacity)
		if i%4 == 0 {
			// thousands of events over at most two minutes of timestamps: wherever a dump
			// that works in pages or chunks cuts, events with equal created_at sit on both sides
			capacity = 1100 + r.IntN(2400)
			nOffered = capacity*3/2 + r.IntN(capacity)
			rep.Count("very_large_dumps", 1)
		}
		h := mocrelay.NewCacheHandler(capacity)
		g := vk.NewStoreGen(r, 3, int64(20+r.IntN(100)))
		fg := &vk.FilterGen{R: r, Authors: g.Authors, TimeLo: g.TimeBase, TimeHi: g.TimeBase + g.TimeRange}
		var ms []c16Msg
		for k, n := 0, nOffered; k < n; k++ {
			ms = append(ms, c16Msg{msg: &mocrelay.ClientEventMsg{Event: g.Next()}})
		}
		fg.Events = g.Offered
		s := vk.StartSession(ctx, h, 0)
		replies, ok := c16Pipeline(s, ms, "zz-sentinel")
		s.Stop()
		rep.Eval(1)
		if !ok || len(replies) != len(ms) {
			rep.Violation("replies/stalled", fmt.Sprintf("%d EVENTs, %d replies", len(ms), len(replies)), map[string]any{"capacity": capacity})
			return
		}
		var buf bytes.Buffer
		if err := h.Dump(&buf); err != nil {
			rep.Violation("dump/error", err.Error(), nil)
			return
		}
		h2 := mocrelay.NewCacheHandler(capacity)
		if err := h2.Restore(bytes.NewReader(buf.Bytes())); err != nil {
			rep.Violation("restore/error", err.Error(), nil)
			return
		}
		panel := []c16Msg{{msg: &mocrelay.ClientReqMsg{SubscriptionID: "p-all", ReqFilters: []*mocrelay.ReqFilter{{}}}},
			{msg: &mocrelay.ClientReqMsg{SubscriptionID: "p-k1", ReqFilters: []*mocrelay.ReqFilter{{Kinds: []int64{1}}}}}}
		for q := 0; q < 20; q++ {
			panel = append(panel, c16Msg{msg: &mocrelay.ClientReqMsg{SubscriptionID: fmt.Sprintf("p%d", q), ReqFilters: fg.Filters(3)}})
		}
		s1 := vk.StartSession(ctx, h, 0)
		r1, ok1 := c16Pipeline(s1, panel, "zz-p")
		s1.Stop()
		s2 := vk.StartSession(ctx, h2, 0)
		r2, ok2 := c16Pipeline(s2, panel, "zz-p")
		s2.Stop()
		if !ok1 || !ok2 {
			rep.Violation("restore/panel-stalled", "query panel not answered", nil)
			return
		}
		d1, d2 := c16Canon(r1), c16Canon(r2)
		if strings.Join(d1, "\n") != strings.Join(d2, "\n") {
			n1, n2 := 0, 0
			for _, x := range d1 {
				if strings.HasPrefix(x, "EVENT p-all") {
					n1++
				}
			}
			for _, x := range d2 {
				if strings.HasPrefix(x, "EVENT p-all") {
					n2++
				}
			}
			rep.Violation("restore/answers-differ", fmt.Sprintf("a cache of capacity %d holding %d events answers the panel differently after dump/restore (restored cache lists %d events)", capacity, n1, n2),
				map[string]any{"capacity": capacity, "events_offered": len(ms), "dump_bytes": buf.Len()})
			return
		}
		rep.Count("large_dump_restore_roundtrips", 1)
		rep.Nontrivial(fmt.Sprintf("bigdump/%d/%d", capacity, len(ms)))
	})

	// (d) SQLite handler while its bulk inserter is stalled by another connection's
	// write lock: every EVENT must still get its accepting OK once there is room
	nD := vk.N(3, 16)
	vk.ParallelW(8, nD, func(i int) {
		r := vk.RNG("C16/stall", i)
		path := filepath.Join(t.TempDir(), fmt.Sprintf("stall%d.db", i))
		dbA, err := sql.Open("sqlite3", "file:"+path+"?_busy_timeout=100")
		if err != nil {
			return
		}
		defer dbA.Close()
		hctx, hcancel := context.WithCancel(ctx)
		defer hcancel()
		h, err := NewSQLiteHandler(hctx, dbA, &SQLiteHandlerOption{EventBulkInsertNum: 1, MaxLimit: NoLimit})
		if err != nil {
			rep.Inconclusive("C16: SQLite handler on a file database: " + err.Error())
			return
		}
		dbB, err := sql.Open("sqlite3", "file:"+path+"?_busy_timeout=100")
		if err != nil {
			return
		}
		defer dbB.Close()
		lockConn, err := dbB.Conn(ctx)
		if err != nil {
			return
		}
		defer lockConn.Close()
		if _, err := lockConn.ExecContext(ctx, "BEGIN EXCLUSIVE"); err != nil {
			rep.Inconclusive("C16: could not take the database lock")
			return
		}
		release := time.AfterFunc(time.Duration(300+r.IntN(300))*time.Millisecond, func() { lockConn.ExecContext(ctx, "ROLLBACK") })
		defer release.Stop()
		s := vk.StartSession(ctx, h, 64)
		defer s.Stop()
		g := vk.NewStoreGen(r, 2, 50)
		g.NoEphemeral = true
		n := 5 + r.IntN(4)
		rep.Eval(1)
		for k := 0; k < n; k++ {
			e := g.Next()
			if !s.Put(&mocrelay.ClientEventMsg{Event: e}) {
				rep.Violation("replies/stalled", "the SQLite handler stopped taking EVENTs while its inserter was stalled", nil)
				return
			}
			m, ok := s.Get()
			o, is := m.(*mocrelay.ServerOKMsg)
			if !ok || !is || o.EventID != e.ID {
				rep.Violation("replies/event-without-its-ok", "EVENT answered by "+vk.DescribeServerMsg(m)+" while the inserter was stalled", nil)
				return
			}
			if !o.Accepted {
				rep.Violation("ok-verdict/sqlite-rejects", fmt.Sprintf("EVENT #%d answered with a rejecting OK (%q) while the bulk inserter was stalled", k, o.Message()), nil)
				return
			}
		}
		rep.Count("sqlite_stalled_inserter_sequences", 1)
		rep.Nontrivial(fmt.Sprintf("stall/%d", n))
	})
	rep.Require(rep.Counter("large_dump_restore_roundtrips") >= int64(nC*9/10), "large dump/restore round trips")
	rep.Require(rep.Counter("sqlite_stalled_inserter_sequences") >= int64(nD*2/3), "stalled-inserter sequences")
	rep.Require(rep.Counter("cache_sequences") >= int64(nA*9/10), "cache sequences")
	rep.Require(rep.Counter("cache_rejected_events") > 100, "rejected events")
	rep.Require(rep.Counter("dump_restore_roundtrips") >= int64(nA/4), "dump/restore round trips")
	rep.Require(rep.Counter("sqlite_sequences") >= int64(nB*8/10), "sqlite sequences")
	rep.Require(rep.Counter("sqlite_huge_id_lists") >= 5, "huge id lists")
}

func hexBytes(s string) []byte {
	b := make([]byte, len(s)/2)
	for i := range b {
		fmt.Sscanf(s[2*i:2*i+2], "%02x", &b[i])
	}
	return b
}
