package mocrelay_test

import (
	"context"
	"fmt"
	"math"
	"math/rand/v2"
	"strconv"
	"strings"
	"sync"
	"sync/atomic"
	"testing"
	"time"

	"github.com/high-moctane/mocrelay"
	vk "github.com/high-moctane/mocrelay/internal/verifkit"
)

// C18 — subscription quota, receive-side and send-side de-duplication middlewares,
// and isolation of their state between connections.
//
// One *group* = one middleware stack value wrapped around one recording handler value,
// driven by 2-6 concurrent sessions (plus, sometimes, a second wave of sessions on the
// same value) whose scripts are drawn from the same tiny id alphabets. Every session is
// one sequential stream: the next message is issued only after the previous one was seen
// by the recording downstream handler or answered at the client side, so the order in
// which the middleware consumed the session's messages is the script order. Each session
// is judged against its own shadow models only.

const c18Wait = 15 * time.Second

type c18Key struct{}

type c18Stack struct {
	N        int   `json:"quota_N"`          // 0 = quota middleware absent
	RecvSize int   `json:"recv_window_size"` // 0 = absent
	SendSize int   `json:"send_window_size"` // 0 = absent
	Order    []int `json:"order_outer_to_inner"`
}

func (s c18Stack) String() string {
	return fmt.Sprintf("N%d/r%d/s%d/o%v", s.N, s.RecvSize, s.SendSize, s.Order)
}

func (s c18Stack) build(h mocrelay.Handler) mocrelay.Handler {
	// Order lists the middlewares from the outermost to the innermost one
	for i := len(s.Order) - 1; i >= 0; i-- {
		switch s.Order[i] {
		case 0:
			h = mocrelay.NewMaxSubscriptionsMiddleware(s.N)(h)
		case 1:
			h = mocrelay.NewRecvEventUniqueFilterMiddleware(s.RecvSize)(h)
		case 2:
			h = mocrelay.NewSendEventUniqueFilterMiddleware(s.SendSize)(h)
		}
	}
	return h
}

type c18Step struct {
	Kind string `json:"k"` // REQ CLOSE COUNT EVENT (client side), SEVENT (sent by the downstream handler)
	ID   string `json:"id"`
	Sub  string `json:"sub,omitempty"`
	Out  string `json:"observed,omitempty"`
	// answer the recording downstream handler gives when this client EVENT reaches it:
	// "" none, otherwise "<accepted>/<machine-readable prefix>"
	Reply string `json:"downstream_ok,omitempty"`

	replyAcc    bool
	replyPrefix string
	dsOK        int // downstream OKs for this step that reached the client
	dsOKAltered string

	consumed bool
	fwd      int // seen by the recording handler (client msgs) / delivered to the client (SEVENT)
	rej      int // CLOSED / OK replies at the client side
	badRej   string
	marker   bool
}

type c18Obs struct {
	down bool
	cmsg mocrelay.ClientMsg
	smsg mocrelay.ServerMsg
}

type c18Session struct {
	grp    int
	idx    int
	stack  c18Stack
	prefix string
	steps  []*c18Step
	byKind map[string][]int // kind+"\x00"+id -> step indices issued so far

	recv chan mocrelay.ClientMsg
	send chan mocrelay.ServerMsg
	cmd  chan mocrelay.ServerMsg
	obs  chan c18Obs

	overflow atomic.Int64

	// driver-goroutine state
	cur        int
	issued     int
	openDS     map[string]bool
	dsOver     string
	dsOverStep int
	foreign    []string
	unsolicit  []string
	barrier    map[int]bool // CLOSE step -> the barrier COUNT sent right after it was seen downstream
	swallowed  int          // CLOSEs that did not come out downstream (observed, not judged)
	stall      string
	ended      bool
	forced     bool // had to be cancelled because closing the inbound channel did not end it
	endByClose bool
	panicked   string
}

func (s *c18Session) post(o c18Obs) {
	select {
	case s.obs <- o:
	default:
		s.overflow.Add(1)
	}
}

func (s *c18Session) tag(k int) string { return s.prefix + "k" + strconv.Itoa(k) }

// stepOfTag returns the step index of a tag of this session, -1 for a tag of another
// session, -2 for something that is not a tag at all.
func (s *c18Session) stepOfTag(tag string) int {
	if strings.HasPrefix(tag, s.prefix+"k") {
		n, err := strconv.Atoi(tag[len(s.prefix)+1:])
		if err == nil && n >= 0 && n < len(s.steps) {
			return n
		}
		return -2
	}
	if strings.HasPrefix(tag, "g") && strings.Contains(tag, ".s") {
		return -1
	}
	return -2
}

func c18FilterTag(fs []*mocrelay.ReqFilter) string {
	if len(fs) == 1 && fs[0] != nil && len(fs[0].IDs) == 1 {
		return fs[0].IDs[0]
	}
	return ""
}

// attrReply attributes an untagged observation (CLOSE seen downstream, CLOSED / OK at
// the client) to the most recent issued step of that kind and id which has none yet.
func (s *c18Session) attrReply(kind, id string, isFwd bool) *c18Step {
	l := s.byKind[kind+"\x00"+id]
	for i := len(l) - 1; i >= 0; i-- {
		st := s.steps[l[i]]
		if isFwd && st.fwd == 0 || !isFwd && st.rej == 0 {
			return st
		}
	}
	if len(l) > 0 {
		return s.steps[l[len(l)-1]]
	}
	return nil
}

func (s *c18Session) absorb(o c18Obs) {
	if o.down {
		switch m := o.cmsg.(type) {
		case *mocrelay.ClientReqMsg:
			s.tagged("REQ", c18FilterTag(m.ReqFilters), m.SubscriptionID)
			s.openDS[m.SubscriptionID] = true
			if s.stack.N > 0 && len(s.openDS) > s.stack.N && s.dsOver == "" {
				ids := []string{}
				for id := range s.openDS {
					ids = append(ids, id)
				}
				s.dsOver = fmt.Sprintf("downstream handler has %d subscriptions open %v after REQ %q", len(s.openDS), ids, m.SubscriptionID)
				s.dsOverStep = s.cur
			}
		case *mocrelay.ClientCountMsg:
			if tag := c18FilterTag(m.ReqFilters); strings.HasPrefix(tag, "barrier:") {
				if k := s.stepOfTag(tag[len("barrier:"):]); k >= 0 {
					if s.barrier == nil {
						s.barrier = map[int]bool{}
					}
					s.barrier[k] = true
				}
				return
			}
			s.tagged("COUNT", c18FilterTag(m.ReqFilters), m.SubscriptionID)
		case *mocrelay.ClientEventMsg:
			if m.Event != nil {
				s.tagged("EVENT", m.Event.Content, m.Event.ID)
			}
		case *mocrelay.ClientCloseMsg:
			delete(s.openDS, m.SubscriptionID)
			if st := s.attrReply("CLOSE", m.SubscriptionID, true); st != nil {
				st.fwd++
			} else {
				s.unsolicit = append(s.unsolicit, "downstream CLOSE "+m.SubscriptionID)
			}
		default:
			s.unsolicit = append(s.unsolicit, fmt.Sprintf("downstream %T", o.cmsg))
		}
		return
	}
	switch m := o.smsg.(type) {
	case *mocrelay.ServerClosedMsg:
		if st := s.attrReply("REQ", m.SubscriptionID, false); st != nil {
			st.rej++
		} else {
			s.unsolicit = append(s.unsolicit, "client CLOSED "+m.SubscriptionID)
		}
	case *mocrelay.ServerOKMsg:
		full := m.MsgPrefix + m.Msg
		if i := strings.Index(full, "ds:"); i >= 0 {
			// the downstream handler's own answer passing through the stack: not a
			// rejection by the filter, and nothing the window model looks at
			switch k := s.stepOfTag(full[i+3:]); {
			case k >= 0:
				st := s.steps[k]
				st.dsOK++
				if m.EventID != st.ID || m.Accepted != st.replyAcc || full != st.replyPrefix+"ds:"+s.tag(k) {
					st.dsOKAltered = fmt.Sprintf("OK id=%q accepted=%v message=%q", m.EventID, m.Accepted, full)
				}
			case k == -1:
				s.foreign = append(s.foreign, "client OK "+full)
			default:
				s.unsolicit = append(s.unsolicit, "client OK "+full)
			}
			return
		}
		if st := s.attrReply("EVENT", m.EventID, false); st != nil {
			st.rej++
			if m.Accepted || !strings.HasPrefix(m.MsgPrefix+m.Msg, "duplicate:") {
				st.badRej = fmt.Sprintf("OK accepted=%v message=%q", m.Accepted, m.MsgPrefix+m.Msg)
			}
		} else {
			s.unsolicit = append(s.unsolicit, "client OK "+m.EventID)
		}
	case *mocrelay.ServerEventMsg:
		if m.Event != nil {
			s.tagged("SEVENT", m.Event.Content, m.Event.ID)
		}
	case *mocrelay.ServerNoticeMsg:
		if k := s.stepOfTag(m.Message); k >= 0 {
			s.steps[k].marker = true
		} else if k == -1 {
			s.foreign = append(s.foreign, "client NOTICE "+m.Message)
		}
	default:
		s.unsolicit = append(s.unsolicit, fmt.Sprintf("client %T", o.smsg))
	}
}

func (s *c18Session) tagged(kind, tag, id string) {
	k := s.stepOfTag(tag)
	switch {
	case k >= 0 && s.steps[k].Kind == kind && s.steps[k].ID == id && k < s.issued:
		s.steps[k].fwd++
	case k == -1:
		s.foreign = append(s.foreign, fmt.Sprintf("%s id=%q tag=%q", kind, id, tag))
	default:
		s.unsolicit = append(s.unsolicit, fmt.Sprintf("%s id=%q tag=%q", kind, id, tag))
	}
}

func (s *c18Session) await(cond func() bool) bool {
	if cond() {
		return true
	}
	t := time.NewTimer(c18Wait)
	defer t.Stop()
	for {
		select {
		case o := <-s.obs:
			s.absorb(o)
			if cond() {
				return true
			}
		case <-t.C:
			return false
		}
	}
}

func (s *c18Session) drain() {
	for {
		select {
		case o := <-s.obs:
			s.absorb(o)
		default:
			return
		}
	}
}

func (s *c18Session) clientMsg(k int) mocrelay.ClientMsg {
	st := s.steps[k]
	switch st.Kind {
	case "REQ":
		return &mocrelay.ClientReqMsg{SubscriptionID: st.ID, ReqFilters: []*mocrelay.ReqFilter{{IDs: []string{s.tag(k)}}}}
	case "COUNT":
		return &mocrelay.ClientCountMsg{SubscriptionID: st.ID, ReqFilters: []*mocrelay.ReqFilter{{IDs: []string{s.tag(k)}}}}
	case "CLOSE":
		return &mocrelay.ClientCloseMsg{SubscriptionID: st.ID}
	case "EVENT":
		return &mocrelay.ClientEventMsg{Event: &mocrelay.Event{ID: st.ID, Pubkey: vk.FakePub(s.idx), Kind: c18KindOf(st.ID), Tags: []mocrelay.Tag{}, Content: s.tag(k), Sig: fmt.Sprintf("%0128x", k)}}
	}
	return nil
}

// the recording downstream handler: one value for all sessions of a group; it finds
// its session through the context, records what arrives and sends what it is told to.
var c18Recorder = mocrelay.HandlerFunc(func(ctx context.Context, send chan<- mocrelay.ServerMsg, recv <-chan mocrelay.ClientMsg) error {
	s := ctx.Value(c18Key{}).(*c18Session)
	for {
		select {
		case <-ctx.Done():
			return ctx.Err()
		case m, ok := <-recv:
			if !ok {
				return mocrelay.ErrRecvClosed
			}
			s.post(c18Obs{down: true, cmsg: m})
			if em, ok := m.(*mocrelay.ClientEventMsg); ok && em.Event != nil {
				// scripted answer of the backend; steps are immutable while the session runs
				if k := s.stepOfTag(em.Event.Content); k >= 0 && s.steps[k].Reply != "" {
					okm := mocrelay.NewServerOKMsg(em.Event.ID, s.steps[k].replyAcc, s.steps[k].replyPrefix, "ds:"+em.Event.Content)
					select {
					case send <- okm:
					case <-ctx.Done():
						return ctx.Err()
					}
				}
			}
		case sm := <-s.cmd:
			select {
			case send <- sm:
			case <-ctx.Done():
				return ctx.Err()
			}
		}
	}
})

// run drives the session to its end. It returns after ServeNostr returned (or the
// bound expired) and every observation was absorbed.
func (s *c18Session) run(h mocrelay.Handler, start <-chan struct{}) {
	ctx, cancel := context.WithCancel(context.WithValue(context.Background(), c18Key{}, s))
	defer cancel()
	done := make(chan struct{})
	go func() {
		defer close(done)
		defer func() {
			if p := recover(); p != nil {
				s.panicked = fmt.Sprint(p)
			}
		}()
		h.ServeNostr(ctx, s.send, s.recv)
	}()
	stopReader := make(chan struct{})
	readerDone := make(chan struct{})
	go func() {
		defer close(readerDone)
		for {
			select {
			case m := <-s.send:
				s.post(c18Obs{smsg: m})
			case <-stopReader:
				return
			}
		}
	}()
	<-start

	hand := func(k int, f func(t <-chan time.Time) bool) bool {
		t := time.NewTimer(c18Wait)
		defer t.Stop()
		return f(t.C)
	}
steps:
	for k, st := range s.steps {
		s.cur = k
		s.issued = k + 1
		key := st.Kind + "\x00" + st.ID
		s.byKind[key] = append(s.byKind[key], k)
		if st.Kind == "SEVENT" {
			ev := mocrelay.NewServerEventMsg(st.Sub, &mocrelay.Event{ID: st.ID, Pubkey: vk.FakePub(s.idx), Kind: c18KindOf(st.ID), Tags: []mocrelay.Tag{}, Content: s.tag(k), Sig: fmt.Sprintf("%0128x", k)})
			ok := hand(k, func(t <-chan time.Time) bool {
				select {
				case s.cmd <- ev:
				case <-t:
					return false
				case <-done:
					return false
				}
				select {
				case s.cmd <- mocrelay.NewServerNoticeMsg(s.tag(k)):
					// the handler took the marker, so its send of the event has completed:
					// the middleware consumed the event
					st.consumed = true
					return true
				case <-t:
					return false
				case <-done:
					return false
				}
			})
			if !ok {
				s.stall = fmt.Sprintf("step %d: the downstream handler could not hand its EVENT to the middleware", k)
				break steps
			}
			if !s.await(func() bool { return st.marker }) {
				s.stall = fmt.Sprintf("step %d: marker NOTICE after the downstream EVENT never reached the client", k)
				break steps
			}
			continue
		}
		msg := s.clientMsg(k)
		ok := hand(k, func(t <-chan time.Time) bool {
			select {
			case s.recv <- msg:
				st.consumed = true
				return true
			case <-t:
				return false
			case <-done:
				return false
			}
		})
		if !ok {
			s.stall = fmt.Sprintf("step %d: %s not consumed", k, st.Kind)
			break steps
		}
		if st.Kind == "CLOSE" {
			// whether a CLOSE is passed on is not claimed (a CLOSE of an id that holds no slot may
			// be consumed): a COUNT that every middleware of the stack passes on follows it as a
			// barrier; messages of one connection stay in order, so once the barrier has come out
			// downstream the CLOSE either came out before it or never will
			bar := &mocrelay.ClientCountMsg{SubscriptionID: "barrier", ReqFilters: []*mocrelay.ReqFilter{{IDs: []string{"barrier:" + s.tag(k)}}}}
			ok := hand(k, func(t <-chan time.Time) bool {
				select {
				case s.recv <- bar:
					return true
				case <-t:
					return false
				case <-done:
					return false
				}
			})
			if !ok {
				s.stall = fmt.Sprintf("step %d: the barrier COUNT after a CLOSE was not consumed", k)
				break steps
			}
			if !s.await(func() bool { return s.barrier[k] }) {
				s.stall = fmt.Sprintf("step %d: the barrier COUNT after a CLOSE never came out downstream within %v", k, c18Wait)
				break steps
			}
			if st.fwd == 0 {
				s.swallowed++
			}
			continue
		}
		if !s.await(func() bool { return st.fwd > 0 && (st.Reply == "" || st.dsOK > 0) || st.rej > 0 }) {
			s.stall = fmt.Sprintf("step %d: %s consumed, neither forwarded nor answered within %v", k, st.Kind, c18Wait)
			break steps
		}
	}
	if s.stall != "" {
		c18Stalls.Add(1)
	}

	// A stalled session is always ended by closing its inbound channel: the middleware
	// finishes the message it is working on before it notices, so "no outcome" after a
	// regular end does not depend on how long we waited.
	if s.endByClose || s.stall != "" {
		close(s.recv)
	} else {
		cancel()
	}
	t := time.NewTimer(c18Wait)
	select {
	case <-done:
		s.ended = true
	case <-t.C:
		s.forced = true
		cancel()
		t.Reset(c18Wait)
		select {
		case <-done:
			s.ended = true
			if s.stall == "" {
				s.stall = "session did not end after its inbound channel was closed (ended after cancel)"
			}
		case <-t.C:
			if s.stall == "" {
				s.stall = "session did not end"
			}
		}
	}
	t.Stop()
	close(stopReader)
	<-readerDone
	s.drain()
}

var c18Stalls atomic.Int64

// ---------------------------------------------------------------------------
// shadow models (written from the statement)

// recency list: most recently seen first
func c18Rank(l []string, id string) int {
	for i, x := range l {
		if x == id {
			return i + 1
		}
	}
	return 0
}

func c18Touch(l []string, id string) []string {
	out := make([]string, 0, len(l)+1)
	out = append(out, id)
	for _, x := range l {
		if x != id {
			out = append(out, x)
		}
	}
	return out
}

func c18Outcome(st *c18Step) string {
	switch {
	case st.fwd > 0 && st.rej > 0:
		return "both"
	case st.fwd > 1:
		return "fwd2"
	case st.fwd > 0:
		return "fwd"
	case st.rej > 0:
		return "rej"
	}
	return "none"
}

type c18Group struct {
	Index    int           `json:"group"`
	Stack    c18Stack      `json:"stack"`
	SubIDs   []string      `json:"sub_ids"`
	EventIDs []string      `json:"event_ids"`
	Waves    [][]int       `json:"waves_session_indices"`
	Scripts  [][]*c18Step  `json:"scripts"`
	sessions []*c18Session `json:"-"`
}

// judge compares the session's observed outcomes with the shadow models, step by step
// in script order. Only the first deviation of a session is reported.
func (s *c18Session) judge(rep *vk.Report, g *c18Group) {
	lc := &c18Local{cnt: map[string]int64{}, cells: map[[2]string]bool{}}
	defer lc.flush(rep)
	viol := func(sig, what string, k int) {
		for _, st := range s.steps {
			st.Out = c18Outcome(st)
			if !st.consumed {
				st.Out = "not-issued"
			}
		}
		rep.Violation(sig, fmt.Sprintf("session %d step %d (%s %s): %s [stack %s]", s.idx, k, s.steps[k].Kind, s.steps[k].ID, what, s.stack),
			map[string]any{"group": g, "session": s.idx, "step": k, "ended_by": map[bool]string{true: "close(recv)", false: "cancel"}[s.endByClose],
				"stall": s.stall, "foreign": s.foreign, "unattributed": s.unsolicit})
	}
	if s.panicked != "" {
		rep.Violation("panic", "ServeNostr panicked: "+s.panicked, map[string]any{"group": g, "session": s.idx})
		return
	}
	if n := s.overflow.Load(); n > 0 {
		rep.Inconclusive(fmt.Sprintf("C18 group %d session %d: %d observations dropped by the recorder", g.Index, s.idx, n))
		return
	}
	if len(s.foreign) > 0 {
		viol("isolation/foreign-message", "a message of another connection surfaced in this one: "+s.foreign[0], s.cur)
		return
	}

	N, rs, ss := s.stack.N, s.stack.RecvSize, s.stack.SendSize
	open := map[string]bool{}
	var recvL, sendL []string
	wasFull, rejSinceFull := false, false
	lastAnswer := map[string]string{} // event id -> last downstream answer seen for it (evidence only)
	var sig strings.Builder
	nontrivial := false
	bad := false

	for k, st := range s.steps {
		if !st.consumed {
			break
		}
		out := c18Outcome(st)
		final := s.ended && !s.forced // "none" is definitive only once the session is over
		stalledHere := s.stall != "" && k == s.cur
		switch st.Kind {
		case "REQ":
			if N == 0 {
				break
			}
			known := open[st.ID]
			allowed := known || len(open) < N
			cell := fmt.Sprintf("N%d/open%d/%s", N, len(open), map[bool]string{true: "known", false: "new"}[known])
			if allowed {
				switch out {
				case "rej":
					viol("quota/req/rejected/should-forward", fmt.Sprintf("REQ answered with CLOSED although %d of %d subscriptions are open (id already open: %v)", len(open), N, known), k)
					bad = true
				case "both":
					viol("quota/req/forwarded-and-closed", "REQ was forwarded and also answered with CLOSED", k)
					bad = true
				case "none":
					if final {
						viol("quota/req/no-outcome", "REQ consumed, session over, neither forwarded nor answered with CLOSED", k)
						bad = true
					}
				}
				if !bad && out != "none" {
					lc.cell("quota_cells", cell+"/fwd")
					lc.count("quota_req_forwarded", 1)
					if !known && wasFull {
						lc.count("quota_forward_after_free", 1)
						if rejSinceFull && len(open) == N-1 {
							lc.count("quota_rejected_req_took_no_slot_witness", 1)
						}
					}
				}
				open[st.ID] = true
				if len(open) == N {
					wasFull = true
				}
			} else {
				switch out {
				case "fwd", "fwd2":
					viol("quota/req/forwarded/over-quota", fmt.Sprintf("REQ for a new id forwarded although %d of %d subscriptions are open", len(open), N), k)
					bad = true
				case "both":
					viol("quota/req/closed-but-forwarded/over-quota", fmt.Sprintf("REQ answered with CLOSED but also forwarded; %d of %d open", len(open), N), k)
					bad = true
				case "none":
					if final {
						viol("quota/req/no-outcome", "REQ consumed, session over, neither forwarded nor answered with CLOSED", k)
						bad = true
					}
				}
				if !bad && out == "rej" {
					lc.cell("quota_cells", cell+"/rej")
					lc.count("quota_req_rejected", 1)
					rejSinceFull = true
					nontrivial = true
				}
			}
		case "CLOSE":
			if N == 0 {
				break
			}
			if open[st.ID] {
				lc.count("quota_close_of_open", 1)
			} else {
				lc.count("quota_close_of_not_open", 1)
			}
			delete(open, st.ID)
			if st.fwd == 0 {
				lc.count("quota_close_not_seen_downstream", 1)
			}
		case "EVENT":
			if rs == 0 {
				break
			}
			rank := c18Rank(recvL, st.ID)
			cell := fmt.Sprintf("size%d/rank%d", rs, rank)
			switch {
			case rank >= 1 && rank <= rs: // among the last size distinct ids: must be rejected
				switch out {
				case "fwd", "fwd2":
					viol("recv/forwarded/in-window", fmt.Sprintf("event id forwarded again although it is number %d of the last %d distinct ids seen", rank, rs), k)
					bad = true
				case "both":
					viol("recv/rejected-and-forwarded/in-window", fmt.Sprintf("repeat (rank %d of window %d) answered with OK-false but also forwarded", rank, rs), k)
					bad = true
				case "none":
					if final {
						viol("recv/no-outcome", "EVENT consumed, session over, neither forwarded nor rejected", k)
						bad = true
					}
				case "rej":
					if st.badRej != "" {
						viol("recv/rejection-not-duplicate-marked", "repeat rejected, but not with a duplicate-marked OK-false: "+st.badRej, k)
						bad = true
					} else {
						lc.count("recv_rejected_in_window", 1)
						if a := lastAnswer[st.ID]; a != "" {
							lc.count("recv_repeat_rejected_after_downstream_ok_"+a, 1)
						}
						lc.cell("recv_cells", cell+"/rej")
						nontrivial = true
					}
				}
			case rank == 0: // never seen: must be forwarded
				switch out {
				case "rej", "both":
					viol("recv/rejected/never-seen", "event id never seen on this connection was rejected", k)
					bad = true
				case "fwd2":
					viol("recv/forwarded-twice", "one EVENT was forwarded twice", k)
					bad = true
				case "none":
					if final {
						viol("recv/no-outcome", "EVENT consumed, session over, neither forwarded nor rejected", k)
						bad = true
					}
				case "fwd":
					lc.count("recv_forwarded_new", 1)
					lc.cell("recv_cells", cell+"/fwd")
				}
			default: // seen, but no longer among the last size distinct ids: either
				if out == "fwd2" {
					viol("recv/forwarded-twice", "one EVENT was forwarded twice", k)
					bad = true
				} else if out != "none" {
					lc.count("recv_outside_window_"+out, 1)
					lc.cell("recv_cells", fmt.Sprintf("size%d/outside/%s", rs, out))
					nontrivial = true
				}
			}
			recvL = c18Touch(recvL, st.ID)
			if st.fwd > 0 && st.dsOK > 0 {
				lastAnswer[st.ID] = fmt.Sprint(st.replyAcc)
				lc.count("downstream_ok_passed_through", 1)
				lc.cell("downstream_ok_kinds", st.Reply)
				if st.dsOKAltered != "" {
					lc.count("downstream_ok_altered", 1)
				}
			}
		case "SEVENT":
			if ss == 0 {
				break
			}
			rank := c18Rank(sendL, st.ID)
			cell := fmt.Sprintf("size%d/rank%d", ss, rank)
			switch {
			case rank >= 1 && rank <= ss:
				if st.fwd > 0 {
					viol("send/delivered/in-window", fmt.Sprintf("event id delivered again although it is number %d of the last %d distinct ids sent down this connection", rank, ss), k)
					bad = true
				} else if st.marker {
					lc.count("send_suppressed_in_window", 1)
					lc.cell("send_cells", cell+"/suppressed")
					nontrivial = true
				}
			case rank == 0:
				switch {
				case st.fwd == 0 && st.marker && final:
					viol("send/suppressed/never-seen", "event id never sent on this connection was not delivered (the marker sent after it arrived, the session is over)", k)
					bad = true
				case st.fwd > 1:
					viol("send/delivered-twice", "one EVENT was delivered twice", k)
					bad = true
				case st.fwd == 1:
					lc.count("send_delivered_new", 1)
					lc.cell("send_cells", cell+"/delivered")
				}
			default:
				if st.fwd > 1 {
					viol("send/delivered-twice", "one EVENT was delivered twice", k)
					bad = true
				} else if st.marker {
					o := "suppressed"
					if st.fwd == 1 {
						o = "delivered"
					}
					lc.count("send_outside_window_"+o, 1)
					lc.cell("send_cells", fmt.Sprintf("size%d/outside/%s", ss, o))
					nontrivial = true
				}
			}
			sendL = c18Touch(sendL, st.ID)
		}
		if bad {
			return
		}
		sig.WriteString(st.Kind[:2])
		sig.WriteString(st.ID[max(len(st.ID)-1, 0):])
		sig.WriteString(out[:1])
		if stalledHere {
			break
		}
	}

	if s.dsOver != "" {
		viol("quota/invariant/downstream-open-exceeds-N", s.dsOver, s.dsOverStep)
		return
	}
	for _, u := range s.unsolicit {
		// a CLOSED that answers no REQ of this connection, an OK for an event it did not
		// send, a message nobody issued: state or traffic of something else
		if strings.HasPrefix(u, "client CLOSED") && N > 0 || strings.HasPrefix(u, "client OK") && rs > 0 {
			viol("isolation/unsolicited-reply", "reply that answers nothing this connection sent: "+u, s.cur)
			return
		}
		lc.count("unattributed_observations", 1)
	}
	if s.stall != "" {
		rep.Inconclusive(fmt.Sprintf("C18 group %d session %d [stack %s]: %s", g.Index, s.idx, s.stack, s.stall))
		lc.count("sessions_stalled", 1)
		return
	}
	lc.count("sessions_judged", 1)
	lc.count("steps_judged", int64(len(s.steps)))
	if nontrivial {
		rep.Nontrivial(s.stack.String() + ":" + sig.String())
		lc.count("sessions_nontrivial", 1)
	}
	if rep.WantSample() && nontrivial && s.idx == 0 && len(s.steps) <= 24 {
		for _, st := range s.steps {
			st.Out = c18Outcome(st)
		}
		rep.Sample(map[string]any{"stack": s.stack, "concurrent_sessions": len(g.Waves[0]), "session0": s.steps})
	}
}

// ---------------------------------------------------------------------------
// generation

// c18KindOf gives every event id a kind of its own class (regular, ephemeral, replaceable,
// addressable): the windows are about ids, whatever the kind.
func c18KindOf(id string) int64 {
	h := 0
	for i := 0; i < len(id); i++ {
		h = h*31 + int(id[i])
	}
	return []int64{1, 20001, 0, 30000, 29999, 7, 10002, 5}[(h%8+8)%8]
}

func c18Clamp(v, lo, hi int) int {
	if v < lo {
		return lo
	}
	if v > hi {
		return hi
	}
	return v
}

func c18GenGroup(gi int, r *rand.Rand) *c18Group {
	g := &c18Group{Index: gi}
	var present []int
	switch m := r.IntN(8); {
	case m < 2:
		present = []int{0}
	case m < 4:
		present = []int{1}
	case m < 6:
		present = []int{2}
	case m < 7:
		present = []int{0, 1, 2}
	default:
		a := r.IntN(3)
		present = []int{a, (a + 1 + r.IntN(2)) % 3}
	}
	r.Shuffle(len(present), func(i, j int) { present[i], present[j] = present[j], present[i] })
	g.Stack.Order = present
	for _, p := range present {
		switch p {
		case 0:
			g.Stack.N = 1 + r.IntN(4)
			if r.IntN(12) == 0 {
				g.Stack.N = math.MaxInt // "all N": the natural spelling of "no quota"
			}
		case 1:
			g.Stack.RecvSize = 1 + r.IntN(4)
		case 2:
			g.Stack.SendSize = 1 + r.IntN(4)
		}
	}
	nSub := c18Clamp(max(min(g.Stack.N, 4), 1)+r.IntN(4)-1, 2, 6)
	wsz := max(g.Stack.RecvSize, g.Stack.SendSize, 1)
	// mostly more ids than the window holds, so that ids leave the window and come back
	nEv := c18Clamp(wsz+1+r.IntN(3), 2, 6)
	if r.IntN(6) == 0 {
		nEv = c18Clamp(wsz-r.IntN(2), 2, 6)
	}
	// one group in five uses look-alike ids: subscription ids longer than 64 bytes that differ
	// only after byte 64, event ids that are 64 hex digits and differ only in letter case
	lookAlike := r.IntN(5) == 0
	for i := 0; i < nSub; i++ {
		if lookAlike {
			g.SubIDs = append(g.SubIDs, strings.Repeat("p", 64)+fmt.Sprintf("-%c", 'A'+i))
			continue
		}
		g.SubIDs = append(g.SubIDs, fmt.Sprintf("sub%c", 'A'+i))
	}
	if r.IntN(4) == 0 {
		// the empty string is a subscription id like any other at this level
		g.SubIDs[r.IntN(len(g.SubIDs))] = ""
	}
	for i := 0; i < nEv; i++ {
		if lookAlike {
			h := vk.HexOf(fmt.Sprintf("c18 look-alike %d", i/2))
			if i%2 == 1 {
				h = strings.ToUpper(h)
			}
			g.EventIDs = append(g.EventIDs, h)
			continue
		}
		g.EventIDs = append(g.EventIDs, fmt.Sprintf("ev%c", 'a'+i))
	}
	n1 := 2 + r.IntN(5)
	n2 := 0
	if r.IntN(3) == 0 {
		n2 = 1 + r.IntN(3)
	}
	w0, w1 := []int{}, []int{}
	for i := 0; i < n1+n2; i++ {
		s := c18GenSession(gi, i, g, r)
		g.sessions = append(g.sessions, s)
		g.Scripts = append(g.Scripts, s.steps)
		if i < n1 {
			w0 = append(w0, i)
		} else {
			w1 = append(w1, i)
		}
	}
	g.Waves = [][]int{w0}
	if n2 > 0 {
		g.Waves = append(g.Waves, w1)
	}
	return g
}

var c18Prefixes = []string{"", "", "error: ", "blocked: ", "rate-limited: ", "invalid: ", "duplicate: ", "pow: "}

func c18GenSession(gi, si int, g *c18Group, r *rand.Rand) *c18Session {
	n := 10 + r.IntN(71)
	if r.IntN(4) == 0 {
		n = 10 + r.IntN(15)
	}
	s := &c18Session{
		grp: gi, idx: si, stack: g.Stack,
		prefix: fmt.Sprintf("g%d.s%d.", gi, si),
		byKind: map[string][]int{},
		recv:   make(chan mocrelay.ClientMsg),
		send:   make(chan mocrelay.ServerMsg),
		cmd:    make(chan mocrelay.ServerMsg),
		obs:    make(chan c18Obs, 8*n+64),
		openDS: map[string]bool{},

		endByClose: r.IntN(2) == 0,
	}
	// weights of REQ, CLOSE, COUNT, EVENT, SEVENT: the traffic of an absent middleware
	// stays in as noise that must not disturb the others
	w := [5]int{2, 1, 1, 2, 0}
	if g.Stack.N > 0 {
		w[0], w[1], w[2] = 22, 14, 2
	}
	if g.Stack.RecvSize > 0 {
		w[3] = 30
	}
	if g.Stack.SendSize > 0 {
		w[4] = 30
	}
	tot := w[0] + w[1] + w[2] + w[3] + w[4]
	open := map[string]bool{} // steering only
	// in half of the sessions the downstream handler answers the EVENTs that reach it
	answers := r.IntN(2) == 0
	for k := 0; k < n; k++ {
		x := r.IntN(tot)
		st := &c18Step{}
		switch {
		case x < w[0]:
			st.Kind, st.ID = "REQ", vk.Pick(r, g.SubIDs)
			if g.Stack.N > 0 && (open[st.ID] || len(open) < g.Stack.N) {
				open[st.ID] = true
			}
		case x < w[0]+w[1]:
			st.Kind, st.ID = "CLOSE", vk.Pick(r, g.SubIDs)
			if len(open) > 0 && r.IntN(10) < 7 {
				ids := make([]string, 0, len(open))
				for _, id := range g.SubIDs {
					if open[id] {
						ids = append(ids, id)
					}
				}
				st.ID = vk.Pick(r, ids)
			}
			delete(open, st.ID)
		case x < w[0]+w[1]+w[2]:
			st.Kind, st.ID = "COUNT", vk.Pick(r, g.SubIDs)
		case x < w[0]+w[1]+w[2]+w[3]:
			st.Kind, st.ID = "EVENT", vk.Pick(r, g.EventIDs)
			if answers && r.IntN(4) != 0 {
				st.replyAcc = r.IntN(5) < 2
				st.replyPrefix = vk.Pick(r, c18Prefixes)
				st.Reply = fmt.Sprintf("%v/%s", st.replyAcc, st.replyPrefix)
			}
		default:
			st.Kind, st.ID, st.Sub = "SEVENT", vk.Pick(r, g.EventIDs), vk.Pick(r, g.SubIDs)
		}
		s.steps = append(s.steps, st)
	}
	return s
}

func (g *c18Group) run() {
	h := g.Stack.build(c18Recorder)
	for _, wave := range g.Waves {
		start := make(chan struct{})
		var wg sync.WaitGroup
		for _, si := range wave {
			wg.Add(1)
			go func(s *c18Session) {
				defer wg.Done()
				s.run(h, start)
			}(g.sessions[si])
		}
		close(start)
		wg.Wait()
	}
}

// c18QuotaOverRejecter: NewMaxSubscriptionsMiddleware(N) over NewMaxReqFiltersMiddleware(1) over
// a handler that keeps the set of ids it has open (REQ opens or replaces, CLOSE closes). REQs
// with one or two filters and CLOSEs over a small id alphabet; after every message a COUNT goes
// through the whole stack and back, so the message has been dealt with when the open set is read.
func c18QuotaOverRejecter(rep *vk.Report, i int) {
	r := vk.RNG("C18/over", i)
	n := 1 + r.IntN(3)
	var mu sync.Mutex
	open := map[string]bool{}
	maxOpen, over := 0, ""
	sink := mocrelay.HandlerFunc(func(ctx context.Context, send chan<- mocrelay.ServerMsg, recv <-chan mocrelay.ClientMsg) error {
		for {
			select {
			case <-ctx.Done():
				return ctx.Err()
			case m, ok := <-recv:
				if !ok {
					return mocrelay.ErrRecvClosed
				}
				switch m := m.(type) {
				case *mocrelay.ClientReqMsg:
					mu.Lock()
					open[m.SubscriptionID] = true
					if len(open) > maxOpen {
						maxOpen = len(open)
					}
					if len(open) > n && over == "" {
						over = fmt.Sprintf("after REQ %q the handler has %d ids open", m.SubscriptionID, len(open))
					}
					mu.Unlock()
				case *mocrelay.ClientCloseMsg:
					mu.Lock()
					delete(open, m.SubscriptionID)
					mu.Unlock()
				case *mocrelay.ClientCountMsg:
					select {
					case send <- mocrelay.NewServerCountMsg(m.SubscriptionID, 0, nil):
					case <-ctx.Done():
						return ctx.Err()
					}
				}
			}
		}
	})
	h := mocrelay.NewMaxSubscriptionsMiddleware(n)(mocrelay.NewMaxReqFiltersMiddleware(1)(sink))
	s := vk.StartSession(context.Background(), h, 64)
	defer s.Stop()
	ids := []string{"a", "b", "c", "d", ""}[:2+r.IntN(4)]
	var log []string
	steps := 8 + r.IntN(30)
	for k := 0; k < steps; k++ {
		id := vk.Pick(r, ids)
		var m mocrelay.ClientMsg
		switch c := r.IntN(10); {
		case c < 4:
			m = &mocrelay.ClientReqMsg{SubscriptionID: id, ReqFilters: []*mocrelay.ReqFilter{{}}}
			log = append(log, "REQ "+id+" (1 filter)")
		case c < 7:
			m = &mocrelay.ClientReqMsg{SubscriptionID: id, ReqFilters: []*mocrelay.ReqFilter{{}, {}}}
			log = append(log, "REQ "+id+" (2 filters)")
		default:
			m = &mocrelay.ClientCloseMsg{SubscriptionID: id}
			log = append(log, "CLOSE "+id)
		}
		bar := fmt.Sprintf("barrier-%d", k)
		if !s.Put(m) || !s.Put(&mocrelay.ClientCountMsg{SubscriptionID: bar, ReqFilters: []*mocrelay.ReqFilter{{}}}) {
			rep.Inconclusive("C18: quota-over-rejecter scenario: a message was not taken")
			return
		}
		for {
			sm, ok := s.Get()
			if !ok {
				rep.Inconclusive("C18: quota-over-rejecter scenario: the barrier COUNT was not answered")
				return
			}
			if c, is := sm.(*mocrelay.ServerCountMsg); is && c.SubscriptionID == bar {
				break
			}
		}
		rep.Eval(1)
		mu.Lock()
		bad := over
		mu.Unlock()
		if bad != "" {
			rep.Violation("quota/over-a-rejecting-component/too-many-open-downstream", fmt.Sprintf("quota %d above the filter-count limit: %s", n, bad), map[string]any{"quota": n, "client_messages": log})
			return
		}
	}
	rep.Count("quota_over_rejecter_sessions", 1)
	mu.Lock()
	if maxOpen == n {
		rep.Count("quota_over_rejecter_sessions_that_filled_the_quota", 1)
	}
	mu.Unlock()
}

func TestVerif_C18(t *testing.T) {
	rep := vk.NewReport(t, "C18", "exploration")
	rep.Rule = "a case is one session: a sequential REQ/CLOSE/COUNT/EVENT script (10-80 messages) plus EVENTs sent by the recording downstream handler, over alphabets of 2-6 subscription ids and 2-6 event ids, run through one shared middleware value (quota N in 1..4 or MaxInt, receive window 1..4, send window 1..4, alone or stacked in random order) together with 1-5 other sessions using the same ids, sometimes followed by a second wave of sessions on the same value; each step's outcome (seen downstream / CLOSED / OK-false / delivered / suppressed; in half of the sessions the downstream handler answers three quarters of the EVENTs that reach it with a tagged OK, accepted or refused, with and without machine-readable prefix, which the client waits for before the next message and which the models ignore) is compared with the session's own open-set and last-size-distinct-ids models; plus one session that sends 400000/2000000 distinct ids through a receive window of 60000 (none may be called a duplicate); added later: the empty string as a subscription id; quota above NewMaxReqFiltersMiddleware(1) above a handler that keeps its open set: it never holds more than N ids, whatever the layers answer themselves; non-trivial = the session reached a quota or window boundary (a REQ that had to be refused, a repeat inside the window, or an id that had left the window); distinct = distinct (stack, per-step kind/id/outcome string)"
	defer rep.Finish()

	nGroups := vk.N(3000, 60000)
	var maxConc atomic.Int64
	vk.Parallel(nGroups, func(gi int) {
		if c18Stalls.Load() >= 3 {
			rep.Count("groups_skipped_after_stalls", 1)
			return
		}
		r := vk.RNG("C18/group", gi)
		g := c18GenGroup(gi, r)
		g.run()
		for _, s := range g.sessions {
			s.judge(rep, g)
			rep.Eval(1)
		}
		rep.Count("groups", 1)
		rep.Count(fmt.Sprintf("groups_with_%d_concurrent_sessions", len(g.Waves[0])), 1)
		if len(g.Waves) > 1 {
			rep.Count("groups_with_second_wave", 1)
		}
		if n := int64(len(g.Waves[0])); n > maxConc.Load() {
			maxConc.Store(n)
		}
		rep.Seen("stacks", fmt.Sprintf("N%d/r%d/s%d", g.Stack.N, g.Stack.RecvSize, g.Stack.SendSize))
	})
	rep.Set("max_concurrent_sessions_on_one_value", maxConc.Load())

	if c18Stalls.Load() >= 3 {
		rep.Inconclusive(fmt.Sprintf("C18: %d waits expired; remaining groups skipped", c18Stalls.Load()))
	}
	// the quota above a component that refuses some REQs itself (the provided filter-count limit):
	// whatever is answered on the way, the handler at the bottom never has more than N
	// subscription ids open
	nOver := vk.N(400, 6000)
	vk.Parallel(nOver, func(i int) {
		if rep.Violations() < 3 {
			c18QuotaOverRejecter(rep, i)
		}
	})
	rep.Require(rep.Violations() > 0 || rep.Counter("quota_over_rejecter_sessions") >= int64(nOver*9/10), "quota over a rejecting component")
	// a large window and very many distinct ids: none of them has been seen before, none may be
	// answered as a duplicate (and every one reaches the handler)
	{
		const size = 60000
		n := vk.N(400000, 2000000)
		var reached atomic.Int64
		down := mocrelay.HandlerFunc(func(ctx context.Context, send chan<- mocrelay.ServerMsg, recv <-chan mocrelay.ClientMsg) error {
			for {
				select {
				case <-ctx.Done():
					return ctx.Err()
				case _, ok := <-recv:
					if !ok {
						return mocrelay.ErrRecvClosed
					}
					reached.Add(1)
				}
			}
		})
		h := mocrelay.Middleware(mocrelay.NewRecvEventUniqueFilterMiddleware(size))(down)
		s := vk.StartSession(context.Background(), h, 0)
		var refused []string
		var nRefused atomic.Int64
		var rd sync.WaitGroup
		rd.Add(1)
		go func() {
			defer rd.Done()
			for {
				select {
				case m := <-s.Send:
					if okm, is := m.(*mocrelay.ServerOKMsg); is && len(refused) < 5 {
						refused = append(refused, okm.EventID+" "+okm.Message()) // read only after rd.Wait()
						nRefused.Add(1)
					}
				case <-s.Done:
					return
				}
			}
		}()
		fed := 0
		for i := 0; i < n; i++ {
			id := vk.HexOf("c18 many distinct ids " + strconv.Itoa(i))
			if !s.Put(&mocrelay.ClientEventMsg{Event: &mocrelay.Event{ID: id, Pubkey: vk.FakePub(1800), Kind: 1, Tags: []mocrelay.Tag{}, Content: "x"}}) {
				break
			}
			fed++
		}
		// a sentinel COUNT tells that everything before it has been judged
		s.Put(&mocrelay.ClientCountMsg{SubscriptionID: "end", ReqFilters: []*mocrelay.ReqFilter{{}}})
		deadline := time.Now().Add(vk.WaitBound)
		for reached.Load() < int64(fed)+1 && nRefused.Load() == 0 && time.Now().Before(deadline) {
			time.Sleep(time.Millisecond)
		}
		s.Stop()
		rd.Wait()
		rep.Eval(fed)
		rep.Count("distinct_ids_through_a_window_of_60000", int64(fed))
		if len(refused) > 0 {
			rep.Violation("recv/rejected/never-seen/large-window", fmt.Sprintf("%d distinct event ids were sent through a receive-side unique filter of size %d; ids never seen before were answered as duplicates", fed, size), map[string]any{"rejections": refused, "reached_the_handler": reached.Load()})
		} else if reached.Load() < int64(fed)+1 {
			rep.Inconclusive(fmt.Sprintf("C18: large-window run: %d of %d messages reached the handler within the bound", reached.Load(), fed+1))
		}
	}

	judged := rep.Counter("sessions_judged")
	rep.Require(judged >= int64(nGroups)*2, "too few sessions judged")
	rep.Require(rep.Counter("sessions_nontrivial") >= judged/2, "fewer than half of the sessions reached a boundary")
	rep.Require(rep.Counter("quota_req_rejected") >= int64(nGroups/4), "too few refused REQs")
	rep.Require(rep.Counter("quota_forward_after_free") >= int64(nGroups/4), "too few REQs forwarded after a CLOSE freed a slot")
	rep.Require(rep.Counter("quota_rejected_req_took_no_slot_witness") >= int64(nGroups/40), "too few refused-REQ-then-freed-slot patterns")
	rep.Require(rep.Counter("recv_rejected_in_window") >= int64(nGroups), "too few receive-side repeats inside the window")
	rep.Require(rep.Counter("recv_outside_window_fwd")+rep.Counter("recv_outside_window_rej") >= int64(nGroups/4), "too few receive-side ids that had left the window")
	rep.Require(rep.Counter("recv_repeat_rejected_after_downstream_ok_false") >= int64(nGroups/2), "too few in-window repeats of an id the downstream handler had refused")
	rep.Require(rep.Counter("recv_repeat_rejected_after_downstream_ok_true") >= int64(nGroups/4), "too few in-window repeats of an id the downstream handler had accepted")
	rep.Require(rep.Counter("send_suppressed_in_window") >= int64(nGroups), "too few send-side repeats inside the window")
	rep.Require(rep.Counter("send_outside_window_delivered")+rep.Counter("send_outside_window_suppressed") >= int64(nGroups/4), "too few send-side ids that had left the window")
	// every quota and window size with every boundary cell
	for n := 1; n <= 4; n++ {
		for _, c := range []string{fmt.Sprintf("N%d/open%d/new/rej", n, n), fmt.Sprintf("N%d/open%d/known/fwd", n, n), fmt.Sprintf("N%d/open%d/new/fwd", n, n-1)} {
			rep.Require(c18Has(rep, "quota_cells", c), "quota cell never observed: "+c)
		}
		for _, side := range []string{"recv", "send"} {
			o := map[string]string{"recv": "rej", "send": "suppressed"}[side]
			for rank := 1; rank <= n; rank++ {
				c := fmt.Sprintf("size%d/rank%d/%s", n, rank, o)
				rep.Require(c18Has(rep, side+"_cells", c), side+" window cell never observed: "+c)
			}
		}
	}
}

var c18Cells sync.Map

// per-session batch of counters and cells (one lock round per session, not per step)
type c18Local struct {
	cnt   map[string]int64
	cells map[[2]string]bool
}

func (l *c18Local) count(name string, n int64) { l.cnt[name] += n }
func (l *c18Local) cell(set, member string)    { l.cells[[2]string{set, member}] = true }
func (l *c18Local) flush(rep *vk.Report) {
	for k, v := range l.cnt {
		rep.Count(k, v)
	}
	for k := range l.cells {
		if _, ok := c18Cells.Load(k[0] + "|" + k[1]); !ok {
			c18Cell(rep, k[0], k[1])
		}
	}
}

func c18Cell(rep *vk.Report, set, member string) {
	rep.Seen(set, member)
	c18Cells.Store(set+"|"+member, true)
}

func c18Has(rep *vk.Report, set, member string) bool {
	_, ok := c18Cells.Load(set + "|" + member)
	return ok
}
