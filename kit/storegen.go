package verifkit

import (
	"fmt"
	"math"
	"math/rand/v2"
	"strconv"
	"strings"

	"github.com/high-moctane/mocrelay"
)

// StoreGen produces insertion histories for the stores: related events of few authors
// (versions of the same addresses, deletion requests before and after their targets,
// duplicates, re-offers, ephemeral events) over a small timestamp range so that ties,
// replacement, deletion and eviction all happen often.
type StoreGen struct {
	R         *rand.Rand
	Authors   []string
	TimeBase  int64
	TimeRange int64
	// AllowDless also produces addressable events without a d tag (judged loosely).
	AllowDless bool
	// NoEphemeral / NoDeletion restrict the mix.
	NoEphemeral bool
	NoDeletion  bool
	// NoEdgeTimes keeps every created_at inside [TimeBase, TimeBase+TimeRange).
	NoEdgeTimes bool
	// SelfRef lets one deletion request in twelve also name itself, at a random position among
	// its references (its id is then made up, not the hash: the in-memory store does not check ids).
	SelfRef bool
	// UniqueTimes draws every created_at at most once (deterministic sequential spec).
	UniqueTimes bool
	// HostileContent uses hostile strings as content.
	HostileContent bool
	// UniquePerAddress never gives two versions of one address the same created_at
	// (the statements leave that tie open).
	UniquePerAddress bool
	// BigEvery > 0: one content in BigEvery is a ~100 kB hostile string (with NUL bytes).
	BigEvery int
	BigMade  int

	Offered []*mocrelay.Event // everything returned by Next so far
	future  []*mocrelay.Event // generated, referenced by a deletion request, not offered yet
	n       int
	usedAt  map[int64]bool

	usedAddrAt map[string]bool
}

func NewStoreGen(r *rand.Rand, authors int, timeRange int64) *StoreGen {
	g := &StoreGen{R: r, TimeBase: 1000, TimeRange: timeRange, usedAt: map[int64]bool{}}
	off := r.IntN(1000)
	for i := 0; i < authors; i++ {
		g.Authors = append(g.Authors, FakePub(off+i))
	}
	return g
}

var (
	sgRegularKinds     = []int64{1, 1, 7, 4}
	sgReplaceableKinds = []int64{0, 3, 10002}
	sgAddressableKinds = []int64{30000, 30023}
	sgEphemeralKinds   = []int64{20001, 29999}
	sgWideKinds        = []int64{65537, 65543, 65536 + 30000, -1, 1<<32 + 1, 1<<32 + 7}
	sgDValues          = []string{"", "x", "y:z", "X"} // "X": addresses that differ only in letter case are different addresses
	SGTagValues        = []string{"", "v1", "v2"}
	sgManyLetters      = "bcfghijklmnoqrstuvwxyz" // single-letter tag names without a meaning of their own here
)

func (g *StoreGen) at() int64 {
	for tries := 0; ; tries++ {
		t := g.TimeBase + g.R.Int64N(g.TimeRange)
		if !g.NoEdgeTimes && g.R.IntN(25) == 0 {
			// far outside the window: the epoch, beyond int32 / float64 precision, near the end of int64
			// (created_at is an unconstrained int64 in this code base: before the epoch is legal too)
			t = Pick(g.R, []int64{0, 1, 1 << 32, 1<<53 + 1, math.MaxInt64 - 1000, -1000, -5000000000, math.MinInt64 + 1000}) + g.R.Int64N(100)
		}
		if !g.UniqueTimes {
			return t
		}
		if !g.usedAt[t] {
			g.usedAt[t] = true
			return t
		}
		if tries > 50 {
			g.TimeRange *= 2
		}
	}
}

func (g *StoreGen) content() string {
	g.n++
	if g.BigEvery > 0 && g.R.IntN(g.BigEvery) == 0 {
		g.BigMade++
		return strings.Repeat(HostileString(g.R, 20)+"\x00<&>\u2028 ", 2000+g.R.IntN(3000)) + "#" + strconv.Itoa(g.n)
	}
	if g.HostileContent && g.R.IntN(2) == 0 {
		return HostileString(g.R, 30) + "#" + strconv.Itoa(g.n)
	}
	return "c" + strconv.Itoa(g.n)
}

func (g *StoreGen) extraTags(e *mocrelay.Event) {
	if g.R.IntN(12) == 0 {
		// NIP-40 style expiration (past or future): stores know nothing about it
		e.Tags = append(e.Tags, mocrelay.Tag{"expiration", strconv.FormatInt(Pick(g.R, []int64{1, 1000, 1600000000, 4102444800}), 10)})
	}
	if g.R.IntN(30) == 0 {
		// many indexable tags (12-66 distinct name/value pairs, so that the number of index rows
		// of an event hits every small multiple of a batch size now and then)
		n := 12 + g.R.IntN(55)
		for _, k := range g.R.Perm(len(sgManyLetters) * len(SGTagValues))[:n] {
			e.Tags = append(e.Tags, mocrelay.Tag{string(sgManyLetters[k/len(SGTagValues)]), SGTagValues[k%len(SGTagValues)]})
		}
	}
	if g.R.IntN(20) == 0 {
		// one-byte tag names that are not letters (U+0000..U+0002), carrying the id of another
		// event or an author's key: a tag is not an id and not an author
		val := Pick(g.R, g.Authors)
		if len(g.Offered) > 0 && g.R.IntN(2) == 0 {
			val = Pick(g.R, g.Offered).ID
		}
		e.Tags = append(e.Tags, mocrelay.Tag{string(rune(g.R.IntN(3))), val})
	}
	if g.R.IntN(6) == 0 {
		// the same tag name two or three times with different values (a reply names two events,
		// an article has several topics): one event satisfies one tag condition several times over
		name := Pick(g.R, []string{"t", "e", "p", "t"})
		for _, k := range g.R.Perm(len(SGTagValues))[:2+g.R.IntN(2)] {
			e.Tags = append(e.Tags, mocrelay.Tag{name, SGTagValues[k]})
		}
	}
	if g.R.IntN(12) == 0 {
		// the very same tag twice (a client bug, or root and reply marker on one event), followed
		// by another indexable tag
		t := mocrelay.Tag{Pick(g.R, []string{"t", "e", "p"}), Pick(g.R, SGTagValues)}
		e.Tags = append(e.Tags, t, mocrelay.Tag{t[0], t[1], "again"}, mocrelay.Tag{Pick(g.R, []string{"p", "t", "e"}), Pick(g.R, SGTagValues)})
	}
	n := g.R.IntN(3)
	for i := 0; i < n; i++ {
		// multi-letter names whose first letter is a filter key must not be mistaken for it
		// and upper-case single letters (NIP-22 uses E, A, K, P) are tag names of their own
		name := Pick(g.R, []string{"t", "p", "e", "t", "client", "title", "emoji", "pow", "T", "E", "P", "K"})
		switch g.R.IntN(5) {
		case 0:
			e.Tags = append(e.Tags, mocrelay.Tag{name})
		case 1:
			e.Tags = append(e.Tags, mocrelay.Tag{name, Pick(g.R, SGTagValues), "extra"})
		default:
			e.Tags = append(e.Tags, mocrelay.Tag{name, Pick(g.R, SGTagValues)})
		}
	}
}

// fresh builds a new non-deletion event of a random class.
func (g *StoreGen) fresh() *mocrelay.Event {
	e := &mocrelay.Event{Pubkey: Pick(g.R, g.Authors), CreatedAt: g.at(), Content: g.content(), Tags: []mocrelay.Tag{}}
	c := g.R.IntN(100)
	switch {
	case c < 35:
		e.Kind = Pick(g.R, sgRegularKinds)
		if g.R.IntN(25) == 0 {
			// the stores take any int64 as a kind (the admission gate is not in front of them
			// here): values that equal a usual kind modulo 2^16 or 2^32 are kinds of their own
			e.Kind = Pick(g.R, sgWideKinds)
		}
	case c < 60:
		e.Kind = Pick(g.R, sgReplaceableKinds)
	case c < 90 || g.NoEphemeral:
		e.Kind = Pick(g.R, sgAddressableKinds)
		d := Pick(g.R, sgDValues)
		switch {
		case g.AllowDless && g.R.IntN(4) == 0:
			// no d tag at all
		case d == "" && g.R.IntN(2) == 0:
			e.Tags = append(e.Tags, mocrelay.Tag{"d"})
		case g.R.IntN(5) == 0:
			e.Tags = append(e.Tags, mocrelay.Tag{"d", d, "extra"})
		default:
			e.Tags = append(e.Tags, mocrelay.Tag{"d", d})
		}
		// several d tags: the first one addresses the event
		if len(e.Tags) > 0 && g.R.IntN(6) == 0 {
			e.Tags = append(e.Tags, mocrelay.Tag{"d", Pick(g.R, sgDValues) + "2"})
			if g.R.IntN(2) == 0 {
				e.Tags = append(e.Tags, mocrelay.Tag{"d", Pick(g.R, sgDValues)})
			}
		}
	default:
		e.Kind = Pick(g.R, sgEphemeralKinds)
	}
	g.extraTags(e)
	if g.UniquePerAddress {
		if a := Address(e); a != "" {
			if g.usedAddrAt == nil {
				g.usedAddrAt = map[string]bool{}
			}
			for g.usedAddrAt[a+"@"+strconv.FormatInt(e.CreatedAt, 10)] {
				e.CreatedAt++
			}
			g.usedAddrAt[a+"@"+strconv.FormatInt(e.CreatedAt, 10)] = true
		}
	}
	return Seal(e)
}

// AddrTag renders the a-tag value for an addressable event.
func AddrTag(e *mocrelay.Event) string {
	d, _ := DValue(e)
	return fmt.Sprintf("%d:%s:%s", e.Kind, e.Pubkey, d)
}

func (g *StoreGen) deletion() *mocrelay.Event {
	k := &mocrelay.Event{Kind: 5, Pubkey: Pick(g.R, g.Authors), CreatedAt: g.at(), Content: g.content(), Tags: []mocrelay.Tag{}}
	nref := 1 + g.R.IntN(3)
	if g.R.IntN(15) == 0 {
		// a deletion request that names nothing usable: no tags, a p tag only, or name-only e / a tags
		nref = 0
		switch g.R.IntN(3) {
		case 1:
			k.Tags = append(k.Tags, mocrelay.Tag{"p", Pick(g.R, g.Authors)})
		case 2:
			k.Tags = append(k.Tags, mocrelay.Tag{"e"}, mocrelay.Tag{"a"})
		}
	}
	if g.R.IntN(10) == 0 {
		// references that can name nothing, next to the usable ones
		k.Tags = append(k.Tags, Pick(g.R, []mocrelay.Tag{{"e", "not-an-event-id"}, {"a", "garbage"}, {"e", "not-an-event-id", "wss://relay.example"}}))
	}
	for i := 0; i < nref; i++ {
		var target *mocrelay.Event
		switch c := g.R.IntN(10); {
		case c < 5 && len(g.Offered) > 0:
			target = Pick(g.R, g.Offered)
		case c < 7 && len(g.future) > 0:
			target = Pick(g.R, g.future)
		default:
			// a target that arrives later
			target = g.fresh()
			g.future = append(g.future, target)
		}
		if g.R.IntN(6) == 0 {
			// an addressable event whose d value contains a colon, named by its address (the
			// address has more than three colon-separated parts then)
			var colon []*mocrelay.Event
			for _, x := range g.Offered {
				if d, has := DValue(x); has && ClassOf(x.Kind) == Addressable && strings.Contains(d, ":") {
					colon = append(colon, x)
				}
			}
			if len(colon) > 0 {
				target = Pick(g.R, colon)
				k.Pubkey = target.Pubkey
				k.Tags = append(k.Tags, mocrelay.Tag{"a", AddrTag(target)})
				continue
			}
		}
		// mostly the author's own events, sometimes someone else's
		if target.Pubkey != k.Pubkey && g.R.IntN(3) != 0 {
			own := []*mocrelay.Event{}
			for _, x := range g.Offered {
				if x.Pubkey == k.Pubkey {
					own = append(own, x)
				}
			}
			if len(own) > 0 {
				target = Pick(g.R, own)
			}
		}
		useAddr := ClassOf(target.Kind) == Addressable && g.R.IntN(2) == 0
		if _, has := DValue(target); !has {
			useAddr = false
		}
		var tag mocrelay.Tag
		if useAddr {
			tag = mocrelay.Tag{"a", AddrTag(target)}
		} else {
			tag = mocrelay.Tag{"e", target.ID}
		}
		switch g.R.IntN(4) {
		case 0:
			tag = append(tag, "wss://relay.example")
		case 1:
			tag = append(tag, "", "mention")
		}
		k.Tags = append(k.Tags, tag)
		if g.R.IntN(5) == 0 {
			// the same reference twice (once more with a hint)
			k.Tags = append(k.Tags, mocrelay.Tag{tag[0], tag[1], "wss://again.example"})
		}
	}
	if g.R.IntN(3) == 0 {
		g.extraTags(k)
	}
	if g.R.IntN(5) == 0 {
		// NIP-09 k tags: a hint about the kinds of the named events, often incomplete or wrong
		k.Tags = append(k.Tags, mocrelay.Tag{"k", Pick(g.R, []string{"1", "1", "30023", "0", "7", "x"})})
		if g.R.IntN(2) == 0 {
			k.Tags = append(k.Tags, mocrelay.Tag{"k", "5"})
		}
	}
	if g.SelfRef && g.R.IntN(12) == 0 {
		g.n++
		id := HexOf("self-referencing deletion request " + strconv.Itoa(g.n))
		i := g.R.IntN(len(k.Tags) + 1)
		k.Tags = append(k.Tags[:i:i], append([]mocrelay.Tag{{"e", id}}, k.Tags[i:]...)...)
		k.Sig = strings.Repeat("0", 128)
		k.ID = id
		return k
	}
	return Seal(k)
}

// Next returns the next event of the history.
func (g *StoreGen) Next() *mocrelay.Event {
	var e *mocrelay.Event
	c := g.R.IntN(100)
	switch {
	case c < 12 && len(g.Offered) > 0:
		e = Pick(g.R, g.Offered) // duplicate / re-offer (possibly after eviction or deletion)
	case c < 22 && len(g.future) > 0:
		i := g.R.IntN(len(g.future))
		e = g.future[i]
		g.future = append(g.future[:i], g.future[i+1:]...)
	case c < 40 && !g.NoDeletion:
		e = g.deletion()
	default:
		e = g.fresh()
	}
	g.Offered = append(g.Offered, e)
	return e
}

// ---------------------------------------------------------------------------
// filters over the same universe

// FilterGen draws filters whose conditions refer to the events of a history.
type FilterGen struct {
	R       *rand.Rand
	Events  []*mocrelay.Event
	Authors []string
	TimeLo  int64
	TimeHi  int64
	// NoEmptyTagMap avoids filters whose Tags map is non-nil and empty (not expressible
	// on the wire).
}

func subset[T any](r *rand.Rand, xs []T, absent T) []T {
	switch r.IntN(5) {
	case 0:
		return []T{}
	case 1, 2:
		return []T{Pick(r, xs)}
	case 3:
		return []T{Pick(r, xs), absent, Pick(r, xs)}
	default:
		var out []T
		for _, x := range xs {
			if r.IntN(2) == 0 {
				out = append(out, x)
			}
		}
		if out == nil {
			out = []T{}
		}
		return out
	}
}

func (g *FilterGen) Filter() *mocrelay.ReqFilter {
	r := g.R
	f := &mocrelay.ReqFilter{}
	if r.IntN(5) == 0 && len(g.Events) > 0 {
		ids := make([]string, 0, 3)
		n := 1 + r.IntN(3)
		for i := 0; i < n; i++ {
			ids = append(ids, Pick(r, g.Events).ID)
		}
		if r.IntN(4) == 0 {
			ids = append(ids, HexOf("absent"))
		}
		if r.IntN(8) == 0 {
			ids = []string{}
		}
		f.IDs = ids
	}
	if r.IntN(3) == 0 {
		f.Authors = subset(r, g.Authors, FakePub(999999))
	}
	if r.IntN(3) == 0 {
		f.Kinds = subset(r, []int64{1, 7, 0, 10002, 30000, 30023, 5, 20001}, int64(42))
		if r.IntN(8) == 0 {
			f.Kinds = append(f.Kinds, Pick(r, sgWideKinds))
		}
	}
	if r.IntN(3) == 0 {
		f.Tags = map[string][]string{}
		n := 1 + r.IntN(2)
		for i := 0; i < n; i++ {
			name := Pick(r, []string{"t", "p", "e", "d", "t", "p", "e", "d", "T", "E", "P", string(sgManyLetters[r.IntN(len(sgManyLetters))])})
			vals := subset(r, SGTagValues, "absent")
			if name == "d" {
				vals = subset(r, sgDValues, "absent")
			}
			f.Tags[name] = vals
		}
	}
	if r.IntN(3) == 0 {
		f.Since = Ptr(g.TimeLo - 1 + r.Int64N(g.TimeHi-g.TimeLo+3))
	}
	if r.IntN(3) == 0 {
		f.Until = Ptr(g.TimeLo - 1 + r.Int64N(g.TimeHi-g.TimeLo+3))
	}
	if r.IntN(12) == 0 {
		edge := Ptr(Pick(r, []int64{0, 1, 50, 1 << 32, 1<<53 + 1, 1<<53 + 50, math.MaxInt64 - 1000, math.MaxInt64 - 950, math.MaxInt64}))
		if r.IntN(2) == 0 {
			f.Since = edge
		} else {
			f.Until = edge
		}
	}
	if r.IntN(2) == 0 {
		f.Limit = Ptr(int64(r.IntN(4)))
		if r.IntN(6) == 0 {
			f.Limit = Ptr(int64(1000))
		}
	}
	if r.IntN(12) == 0 && len(g.Events) > 0 {
		// a window of exactly one second that holds an event
		at := Pick(r, g.Events).CreatedAt
		f.Since, f.Until = Ptr(at), Ptr(at)
	}
	if r.IntN(8) == 0 {
		// one tag condition listing every value in use, cut by a small limit: an event carrying
		// several of the values must count once
		f = &mocrelay.ReqFilter{Tags: map[string][]string{Pick(r, []string{"t", "e", "p"}): append([]string{}, SGTagValues...)}, Limit: Ptr(int64(2 + r.IntN(2)))}
	}
	return f
}

// Filters draws a filter list of 1..max members.
func (g *FilterGen) Filters(max int) []*mocrelay.ReqFilter {
	n := 1 + g.R.IntN(max)
	fs := make([]*mocrelay.ReqFilter, n)
	for i := range fs {
		fs[i] = g.Filter()
	}
	return fs
}

// IsScanFilter: a filter without ids/authors/kinds/tags (served by the ordered scan in
// the in-memory store).
func IsScanFilter(f *mocrelay.ReqFilter) bool {
	return f.IDs == nil && f.Authors == nil && f.Kinds == nil && f.Tags == nil
}
