package verifkit

import (
	"reflect"
)

// PeekRouter reads the size of a RouterHandler's registry by reflection (white-box,
// optional observation point of C07/C13): number of connections registered and total
// number of subscriptions. It walks router.subs.subs.m (a map of per-connection maps);
// if the structure is not what it expects it reports ok=false instead of failing to
// build, so a refactoring of the router costs this observation only. It takes no lock:
// call it only at quiescent points (no session of that router is inside a request).
func PeekRouter(router any) (conns, subs int, ok bool) {
	defer func() {
		if recover() != nil {
			conns, subs, ok = 0, 0, false
		}
	}()
	v := reflect.ValueOf(router)
	m, found := findMap(v, 0)
	if !found {
		return 0, 0, false
	}
	conns = m.Len()
	it := m.MapRange()
	for it.Next() {
		inner, found := findMap(it.Value(), 0)
		if !found {
			return conns, 0, false
		}
		subs += inner.Len()
	}
	return conns, subs, true
}

// findMap descends through pointers, interfaces and single-path structs to the first map.
func findMap(v reflect.Value, depth int) (reflect.Value, bool) {
	if depth > 8 || !v.IsValid() {
		return reflect.Value{}, false
	}
	switch v.Kind() {
	case reflect.Map:
		return v, true
	case reflect.Ptr, reflect.Interface:
		if v.IsNil() {
			return reflect.Value{}, false
		}
		return findMap(v.Elem(), depth+1)
	case reflect.Struct:
		for i := 0; i < v.NumField(); i++ {
			f := v.Field(i)
			switch f.Kind() {
			case reflect.Map, reflect.Ptr, reflect.Interface:
				if m, ok := findMap(f, depth+1); ok {
					return m, true
				}
			case reflect.Struct:
				// skip sync primitives and the like
				if f.Type().PkgPath() == "sync" || f.Type().PkgPath() == "sync/atomic" {
					continue
				}
				if m, ok := findMap(f, depth+1); ok {
					return m, true
				}
			}
		}
	}
	return reflect.Value{}, false
}
