//go:build verif

package mocrelay

// White-box observation points for monitors that live in other packages (added to the
// package by the overlay, only in builds with -tags verif).

// VerifPeekRouter returns (connections in the registry, registered subscriptions).
func VerifPeekRouter(r *RouterHandler) (conns, subs int) {
	r.subs.subs.mu.RLock()
	conns = len(r.subs.subs.m)
	r.subs.subs.mu.RUnlock()
	r.subs.subs.Loop(func(_ string, m *safeMap[string, *subscriber]) {
		m.mu.RLock()
		subs += len(m.m)
		m.mu.RUnlock()
	})
	return
}
