#!/usr/bin/env python3
"""Generates seeded/MATRIX.md from seeded/*/meta.json."""
import json, os
V = os.path.dirname(os.path.dirname(os.path.abspath(__file__)))
S = os.path.join(V, "seeded")
rows = []
for n in sorted(os.listdir(S)):
    mp = os.path.join(S, n, "meta.json")
    if not os.path.exists(mp):
        continue
    m = json.load(open(mp))
    rows.append((n, m))
out = ["# Seeded changes and the checks that catch them", "",
       "Every change below was written by an independent sub-agent that saw only the property text and a scratch worktree,",
       "was re-confirmed by `tools/confirm_mut.py` (demonstration passes on HEAD; with the patch the tree builds, the 418",
       "repository tests pass and the demonstration fails) and then tried with `tools/runseeded.py` (quick tier, seed 1).", "",
       "| change | property | what it is | needs, to manifest | detected by | missed by | first signature |", "|---|---|---|---|---|---|---|"]
for n, m in rows:
    out.append("| %s | %s | %s | %s | %s | %s | %s |" % (
        n, m["property"], m.get("what", "").replace("|", "/"), m.get("needs", "").replace("|", "/"),
        ", ".join(m.get("detected_by", [])) or "-", ", ".join(m.get("missed_by", [])) or "-",
        (m.get("first_signature", "") or "").replace("|", "/")))
det = sum(1 for _, m in rows if m.get("detected_by"))
unclaimed = [(n, m) for n, m in rows if not m.get("detected_by") and str(m.get("note", "")).startswith("not claimed")]
out += ["", "%d of %d confirmed changes are detected by at least one check; %d are recorded as not claimed:" % (det, len(rows), len(unclaimed)), ""]
for n, m in unclaimed:
    out.append("* **%s** - %s" % (n, m["note"]))
other = [n for n, m in rows if not m.get("detected_by") and not str(m.get("note", "")).startswith("not claimed")]
if other:
    out += ["", "Missed without a recorded reason: " + ", ".join(other)]
out.append("")
open(os.path.join(S, "MATRIX.md"), "w").write("\n".join(out))
print("MATRIX.md: %d rows, %d detected" % (len(rows), det))
