// Package faultsql wraps the go-sqlite3 driver so that a monitor can number the driver
// calls an operation makes (begin, prepare, statement exec, commit) and fail, cancel or
// kill the process at the k-th one. It forwards every optional driver interface that
// go-sqlite3 v1.14.27 implements, so database/sql takes the same paths as with the bare
// driver.
package faultsql

import (
	"context"
	"database/sql"
	"database/sql/driver"
	"errors"
	"os"
	"strings"
	"sync"

	sqlite3 "github.com/mattn/go-sqlite3"
)

type Mode int

const (
	ModeError  Mode = iota // return ErrInjected instead of making the call
	ModeCancel             // cancel the operation's context, then make the call
	ModeKill               // os.Exit(ExitCode) instead of making the call
)

const ExitCode = 77

var ErrInjected = errors.New("faultsql: injected driver fault")

// Plan is shared by all connections of one database handle.
type Plan struct {
	mu     sync.Mutex
	armed  bool
	count  int
	log    []string
	failAt int
	mode   Mode
	cancel func()
	fired  bool
	poison [][]byte // statements executed with one of these values among their arguments fail (persistently)
	bitten int
}

// Poison makes every statement execution that has v among its arguments (as a blob or as a
// string) fail with ErrInjected until Unpoison is called: a fault that a retry does not cure.
func (p *Plan) Poison(v []byte) {
	p.mu.Lock()
	defer p.mu.Unlock()
	p.poison = append(p.poison, append([]byte{}, v...))
}

// Unpoison removes all poisoned values and returns how many executions were failed.
func (p *Plan) Unpoison() int {
	p.mu.Lock()
	defer p.mu.Unlock()
	n := p.bitten
	p.poison, p.bitten = nil, 0
	return n
}

// Bitten returns how many executions have been failed because of a poisoned value so far.
func (p *Plan) Bitten() int {
	p.mu.Lock()
	defer p.mu.Unlock()
	return p.bitten
}

func (p *Plan) poisoned(args []driver.NamedValue) bool {
	p.mu.Lock()
	defer p.mu.Unlock()
	if len(p.poison) == 0 {
		return false
	}
	for _, a := range args {
		var b []byte
		switch v := a.Value.(type) {
		case []byte:
			b = v
		case string:
			b = []byte(v)
		default:
			continue
		}
		for _, q := range p.poison {
			if string(b) == string(q) {
				p.bitten++
				return true
			}
		}
	}
	return false
}

// Arm starts numbering calls; failAt = 0 only counts. cancel is used by ModeCancel.
func (p *Plan) Arm(failAt int, mode Mode, cancel func()) {
	p.mu.Lock()
	defer p.mu.Unlock()
	p.armed, p.count, p.log, p.failAt, p.mode, p.cancel, p.fired = true, 0, nil, failAt, mode, cancel, false
}

// Disarm stops numbering and returns (calls seen, kinds of the calls, whether the fault fired).
func (p *Plan) Disarm() (int, []string, bool) {
	p.mu.Lock()
	defer p.mu.Unlock()
	p.armed = false
	return p.count, append([]string{}, p.log...), p.fired
}

// hit numbers one call; returns an error to inject.
func (p *Plan) hit(kind string) error {
	p.mu.Lock()
	if !p.armed {
		p.mu.Unlock()
		return nil
	}
	p.count++
	p.log = append(p.log, kind)
	fire := p.failAt > 0 && p.count == p.failAt
	if fire {
		p.fired = true
	}
	mode, cancel := p.mode, p.cancel
	p.mu.Unlock()
	if !fire {
		return nil
	}
	switch mode {
	case ModeError:
		return ErrInjected
	case ModeCancel:
		if cancel != nil {
			cancel()
		}
		return nil
	case ModeKill:
		os.Exit(ExitCode)
	}
	return nil
}

// StmtKind names the statement kinds of the SQLite store's batch insertion.
func StmtKind(q string) string {
	q = strings.ToLower(q)
	switch {
	case strings.Contains(q, "insert into events"):
		return "events"
	case strings.Contains(q, "insert into event_payloads"):
		return "payloads"
	case strings.Contains(q, "insert into event_tags"):
		return "tags"
	case strings.Contains(q, "insert into deleted_event_keys"):
		return "deleted_keys"
	case strings.Contains(q, "insert into deleted_event_ids"):
		return "deleted_ids"
	}
	f := strings.Fields(q)
	if len(f) > 0 {
		return f[0]
	}
	return "?"
}

type connector struct {
	dsn  string
	plan *Plan
	drv  *sqlite3.SQLiteDriver
}

// Open returns a database handle on dsn whose driver calls are observed by the plan.
func Open(dsn string) (*sql.DB, *Plan) {
	p := &Plan{}
	return sql.OpenDB(&connector{dsn: dsn, plan: p, drv: &sqlite3.SQLiteDriver{}}), p
}

func (c *connector) Connect(ctx context.Context) (driver.Conn, error) {
	under, err := c.drv.Open(c.dsn)
	if err != nil {
		return nil, err
	}
	return &conn{under.(*sqlite3.SQLiteConn), c.plan}, nil
}

func (c *connector) Driver() driver.Driver { return c.drv }

type conn struct {
	c *sqlite3.SQLiteConn
	p *Plan
}

func (c *conn) Prepare(q string) (driver.Stmt, error) {
	return c.PrepareContext(context.Background(), q)
}
func (c *conn) Close() error                   { return c.c.Close() }
func (c *conn) Begin() (driver.Tx, error)      { return c.BeginTx(context.Background(), driver.TxOptions{}) }
func (c *conn) Ping(ctx context.Context) error { return c.c.Ping(ctx) }

func (c *conn) BeginTx(ctx context.Context, opts driver.TxOptions) (driver.Tx, error) {
	if err := c.p.hit("begin"); err != nil {
		return nil, err
	}
	t, err := c.c.BeginTx(ctx, opts)
	if err != nil {
		return nil, err
	}
	return &tx{t, c.p}, nil
}

func (c *conn) PrepareContext(ctx context.Context, q string) (driver.Stmt, error) {
	kind := StmtKind(q)
	if err := c.p.hit("prepare:" + kind); err != nil {
		return nil, err
	}
	s, err := c.c.PrepareContext(ctx, q)
	if err != nil {
		return nil, err
	}
	return &stmt{s.(*sqlite3.SQLiteStmt), c.p, kind}, nil
}

func (c *conn) ExecContext(ctx context.Context, q string, args []driver.NamedValue) (driver.Result, error) {
	if err := c.p.hit("conn-exec:" + StmtKind(q)); err != nil {
		return nil, err
	}
	if c.p.poisoned(args) {
		return nil, ErrInjected
	}
	return c.c.ExecContext(ctx, q, args)
}

func (c *conn) QueryContext(ctx context.Context, q string, args []driver.NamedValue) (driver.Rows, error) {
	return c.c.QueryContext(ctx, q, args)
}

type tx struct {
	t driver.Tx
	p *Plan
}

func (t *tx) Commit() error {
	if err := t.p.hit("commit"); err != nil {
		// a failed commit leaves the transaction open in SQLite; database/sql considers it
		// finished, so release it the way the driver would on a failed COMMIT
		t.t.Rollback()
		return err
	}
	return t.t.Commit()
}

func (t *tx) Rollback() error { return t.t.Rollback() }

type stmt struct {
	s    *sqlite3.SQLiteStmt
	p    *Plan
	kind string
}

func (s *stmt) Close() error  { return s.s.Close() }
func (s *stmt) NumInput() int { return s.s.NumInput() }
func (s *stmt) Exec(args []driver.Value) (driver.Result, error) {
	return nil, errors.New("faultsql: legacy Exec not supported")
}
func (s *stmt) Query(args []driver.Value) (driver.Rows, error) {
	return nil, errors.New("faultsql: legacy Query not supported")
}
func (s *stmt) ExecContext(ctx context.Context, args []driver.NamedValue) (driver.Result, error) {
	if err := s.p.hit("exec:" + s.kind); err != nil {
		return nil, err
	}
	if s.p.poisoned(args) {
		return nil, ErrInjected
	}
	return s.s.ExecContext(ctx, args)
}
func (s *stmt) QueryContext(ctx context.Context, args []driver.NamedValue) (driver.Rows, error) {
	// an insert ... returning is run as a query: it is a write like any other
	if (s.kind == "events" || s.kind == "payloads" || s.kind == "tags" || s.kind == "deleted_keys" || s.kind == "deleted_ids" || s.kind == "insert") && s.p.poisoned(args) {
		return nil, ErrInjected
	}
	return s.s.QueryContext(ctx, args)
}
