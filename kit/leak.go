package verifkit

import (
	"regexp"
	"runtime"
	"strconv"
	"strings"
	"time"
)

// Goroutine monitor: parses runtime.Stack(all) and attributes goroutines by the frame
// that created them.

type Goroutine struct {
	ID        int
	State     string
	Stack     string
	CreatedBy string // function that started it ("" for the main goroutine)
	CreatedAt string // file:line of the go statement
	Top       string // function it is parked/running in
}

var goroutineHdr = regexp.MustCompile(`^goroutine (\d+) \[([^\]]*)\]:`)

// Goroutines returns all goroutines of the process.
func Goroutines() []Goroutine {
	buf := make([]byte, 1<<20)
	for {
		n := runtime.Stack(buf, true)
		if n < len(buf) {
			buf = buf[:n]
			break
		}
		buf = make([]byte, 2*len(buf))
	}
	var out []Goroutine
	for _, blk := range strings.Split(string(buf), "\n\n") {
		m := goroutineHdr.FindStringSubmatch(blk)
		if m == nil {
			continue
		}
		id, _ := strconv.Atoi(m[1])
		g := Goroutine{ID: id, State: m[2], Stack: blk}
		lines := strings.Split(blk, "\n")
		if len(lines) > 1 {
			g.Top = strings.TrimSpace(lines[1])
		}
		for i, l := range lines {
			if strings.HasPrefix(l, "created by ") {
				f := strings.TrimPrefix(l, "created by ")
				if k := strings.Index(f, " in goroutine"); k >= 0 {
					f = f[:k]
				}
				g.CreatedBy = f
				if i+1 < len(lines) {
					g.CreatedAt = strings.TrimSpace(lines[i+1])
				}
			}
		}
		out = append(out, g)
	}
	return out
}

// GoroutineIDs is a snapshot of the live goroutine ids.
func GoroutineIDs() map[int]bool {
	m := map[int]bool{}
	for _, g := range Goroutines() {
		m[g.ID] = true
	}
	return m
}

const repoModule = "github.com/high-moctane/mocrelay"

// startedByRepo: the go statement that created the goroutine is in repository code (not
// in a monitor file injected by the overlay, not in the kit).
func startedByRepo(g Goroutine) bool {
	if !strings.HasPrefix(g.CreatedBy, repoModule) {
		return false
	}
	if strings.Contains(g.CreatedBy, "/internal/verifkit") || strings.Contains(g.CreatedAt, "zz_verif_") || strings.Contains(g.CreatedAt, "/verif/") {
		return false
	}
	return true
}

// LeakedSince waits (bounded) for every goroutine that was started by repository code
// after the snapshot to exit and returns the ones still alive.
func LeakedSince(before map[int]bool, settle time.Duration) []Goroutine {
	deadline := time.Now().Add(settle)
	wait := 50 * time.Microsecond
	for {
		var left []Goroutine
		for _, g := range Goroutines() {
			if !before[g.ID] && startedByRepo(g) {
				left = append(left, g)
			}
		}
		if len(left) == 0 || time.Now().After(deadline) {
			return left
		}
		time.Sleep(wait)
		if wait < 20*time.Millisecond {
			wait *= 2
		}
	}
}

// ParkedInRepo returns a goroutine blocked on a channel operation, select or lock whose
// top frames are repository code (the witness required before a bounded wait that expired
// counts as a violation).
func ParkedInRepo() *Goroutine {
	for _, g := range Goroutines() {
		if !(strings.HasPrefix(g.State, "chan ") || strings.HasPrefix(g.State, "select") || strings.HasPrefix(g.State, "sync.") || strings.HasPrefix(g.State, "semacquire") || strings.HasPrefix(g.State, "IO wait")) {
			continue
		}
		lines := strings.Split(g.Stack, "\n")
		for i := 1; i < len(lines) && i < 12; i += 2 {
			f := strings.TrimSpace(lines[i])
			if strings.HasPrefix(f, repoModule) && !strings.Contains(f, "/internal/verifkit") && i+1 < len(lines) && !strings.Contains(lines[i+1], "zz_verif_") {
				gg := g
				return &gg
			}
			if !strings.HasPrefix(f, "runtime.") && !strings.HasPrefix(f, "sync.") && !strings.HasPrefix(f, "internal/") {
				break
			}
		}
	}
	return nil
}
