#!/usr/bin/env python3
"""Regenerates /verif/MANIFEST.json from the table below (kept in one place so the
manifest stays valid while checks are added)."""
import json
import os

V = os.path.dirname(os.path.dirname(os.path.abspath(__file__)))

# id -> (category, technique, text, note, design_ref)
CHECKS = {}


def add(pid, cat, technique, text, note, ref):
    CHECKS[pid] = (cat, technique, text, note, ref)


RACE = " The whole run is under the Go race detector (reports in mocrelay frames are violations)."

add("C02", "exploration",
    "runtime monitoring: reference-predicate oracle over seeded (event, filter) pairs and limit-matcher traces, race detector",
    "Every generated (event, filter) pair and every prefix of every event sequence fed to the limit-counting matcher is judged by an independent transliteration of the NIP-01 predicate and shadow counters; held on the executions listed in the evidence (truth-table coverage reported), not a proof." + RACE,
    "Trusts the hand-written reference predicate (kit/refmatch.go) and the seeded generator's reach; filters are built as values, not parsed.",
    "DESIGN.md section 4, C02")

NOT_YET = "check not built yet in this revision (work in progress; see DESIGN.md)"


def main():
    props = [json.loads(l) for l in open(os.path.join(V, "properties.jsonl"))]
    checks, na = [], []
    for p in props:
        pid = p["id"]
        if pid in CHECKS:
            cat, tech, text, note, ref = CHECKS[pid]
            checks.append({
                "property_id": pid,
                "quick_cmd": "./check %s --tier quick" % pid,
                "thorough_cmd": "./check %s --tier thorough" % pid,
                "evidence_file": "/verif/evidence/%s.json" % pid,
                "replay_cmd_template": "./check %s --replay {path}" % pid,
                "engine": "monitors",
                "level_claimed": {"category": cat, "text": text, "design_ref": ref},
                "level_note": note,
                "technique": tech,
            })
        else:
            na.append({"property_id": pid, "reason": NOT_YET})
    hooks_commits = []
    hp = os.path.join(V, "hooks_commits.txt")
    if os.path.exists(hp):
        hooks_commits = [l.split()[0] for l in open(hp) if l.strip() and not l.startswith("#")]
    man = {
        "version": 1,
        "setup_cmd": "./setup.sh",
        "hooks": {
            "guard": "verif",
            "enable": "go test -tags verif (the driver ./check passes -race -tags verif -overlay <monitors> -modfile <copy of go.mod + porcupine>)",
            "baseline_off_cmd": "cd /repo && GOFLAGS=-mod=mod go test -json -vet=off -count=1 -timeout 25m ./...",
            "source_commits": hooks_commits,
            "add_only": True,
        },
        "engines": [{
            "name": "monitors",
            "path": "/verif/check",
            "serves_properties": [c["property_id"] for c in checks],
            "kind_free_text": "runtime monitors (Go test files injected with -overlay) run under the Go race detector; oracles in /verif/kit",
        }],
        "checks": checks,
        "not_applicable": na,
        "notes": "Technique family: runtime monitoring and sanitizers. One go test process per property, built from /repo's working tree at every invocation; VERIF_REPO points the driver at a scratch copy for seeded breaks.",
    }
    json.dump(man, open(os.path.join(V, "MANIFEST.json"), "w"), indent=1)
    print("MANIFEST.json: %d checks, %d not_applicable" % (len(checks), len(na)))


if __name__ == "__main__":
    main()
