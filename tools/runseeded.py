#!/usr/bin/env python3
"""runseeded.py [names...] : runs the quick check of each seeded change's property against HEAD+patch
and records in meta.json whether it fired (detected_by / missed_by)."""
import json, os, subprocess, sys
S=os.path.join(os.path.dirname(os.path.dirname(os.path.abspath(__file__))),'seeded')
names=sys.argv[1:] or sorted(os.listdir(S))
for n in names:
    d=os.path.join(S,n); mp=os.path.join(d,'meta.json')
    if not os.path.exists(mp): continue
    meta=json.load(open(mp)); prop=meta['property']
    ids=meta.get('check_with',[prop])
    det,miss,sigs=[],[],[]
    for i in ids:
        p=subprocess.run([os.path.join(os.path.dirname(os.path.abspath(__file__)),'trymut.sh'),os.path.join(d,'patch.diff'),i],stdout=subprocess.PIPE,stderr=subprocess.STDOUT,text=True,env=dict(os.environ,LINES_MAX='6'))
        fired='VIOLATION property=' in p.stdout
        (det if fired else miss).append(i)
        first=[l for l in p.stdout.splitlines() if 'signature=' in l][:2]
        if fired and first: sigs.append(i+': '+first[0].strip().split(' ')[0].replace('signature=',''))
        print(n,i,'DETECTED' if fired else 'MISSED', '|'.join(x.strip()[:160] for x in first) if fired else p.stdout.strip()[-200:])
    meta['detected_by']=det; meta['missed_by']=miss
    if sigs: meta['first_signature']=sigs[0]
    json.dump(meta,open(mp,'w'),indent=1)
