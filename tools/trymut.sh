#!/bin/sh
VH=${VERIF_HOME:-$(cd "$(dirname "$0")/.." && pwd)}
# usage: trymut.sh <patch.diff|-> <ID>...   : run quick checks against /repo HEAD + patch in a scratch worktree
# env BASE=<commit> to start from another commit (e.g. the original snapshot)
P=$1; shift
W=/tmp/try.$$
for t in 1 2 3 4 5 6; do git -C /repo worktree add --detach $W ${BASE:-HEAD} >/dev/null 2>&1 && break; sleep 2; done
[ -d $W ] || { echo "HARNESS-ERROR: could not create the scratch worktree"; exit 2; }
if [ "$P" != "-" ]; then git -C $W apply "$P" || { echo "patch does not apply"; git -C /repo worktree remove --force $W; exit 2; }; fi
if [ -n "$HOOKS" ]; then git -C $W cherry-pick -n $HOOKS >/dev/null 2>&1 || echo "hooks cherry-pick failed"; fi
mkdir -p $W.out
for id in "$@"; do
  VERIF_REPO=$W VERIF_EVIDENCE_DIR=$W.out VERIF_OUT=$W.out VERIF_REPLAY_DIR=$W.out/replays VERIF_TIER=${TIER:-quick} $VH/check $id 2>&1 | cut -c1-400 | head -${LINES_MAX:-12}
done
git -C /repo worktree remove --force $W
[ -n "$KEEP" ] || rm -rf $W.out
