package mocrelay_test

import (
	"bytes"
	"context"
	"crypto/sha256"
	"encoding/hex"
	"encoding/json"
	"fmt"
	"math"
	"math/rand/v2"
	"net/http/httptest"
	"reflect"
	"runtime"
	"strings"
	"sync"
	"testing"
	"time"

	"github.com/coder/websocket"
	"github.com/high-moctane/mocrelay"
	vk "github.com/high-moctane/mocrelay/internal/verifkit"
)

// C12 — WebSocket session: only valid authentic messages reach the handler; every other
// frame gets exactly one rejection; handler output arrives intact and in order.

const c12Mark = "⟦H"

type c12Handler struct {
	flood    int // answer the first admitted message with this many 60 kB messages
	mu       sync.Mutex
	got      []mocrelay.ClientMsg
	emitted  []mocrelay.ServerMsg
	seed     int
	seq      int
	lastEvID string
}

func c12ServerMsg(r *rand.Rand, n int) mocrelay.ServerMsg {
	mark := fmt.Sprintf("%s%d⟧", c12Mark, n)
	h := func() string { return vk.HostileString(r, 24) }
	switch r.IntN(7) {
	case 0:
		return mocrelay.NewServerEOSEMsg(mark + h())
	case 1:
		e := vk.Seal(&mocrelay.Event{Kind: int64(r.IntN(40000)), Pubkey: vk.FakePub(r.IntN(5)), CreatedAt: r.Int64N(1 << 40), Content: h(),
			Tags: []mocrelay.Tag{{"t", h()}, {"e", vk.HexOf(h()), h()}}})
		return mocrelay.NewServerEventMsg(mark+h(), e)
	case 2:
		return mocrelay.NewServerNoticeMsg(mark + h())
	case 3:
		pre := vk.Pick(r, []string{"", mocrelay.MachineReadablePrefixBlocked, mocrelay.MachineReadablePrefixDuplicate, mocrelay.MachineReadablePrefixError})
		return mocrelay.NewServerOKMsg(vk.HexOf(h()), r.IntN(2) == 0, pre, mark+h())
	case 4:
		return &mocrelay.ServerAuthMsg{Challenge: mark + h()}
	case 5:
		var ap *bool
		if r.IntN(2) == 0 {
			ap = vk.Ptr(r.IntN(2) == 0)
		}
		return mocrelay.NewServerCountMsg(mark+h(), r.Uint64()>>uint(r.IntN(64)), ap)
	default:
		pre := vk.Pick(r, []string{"", mocrelay.MachineReadablePrefixRateLimited, mocrelay.MachineReadablePrefixInvalid})
		return mocrelay.NewServerClosedMsg(mark+h(), pre, h())
	}
}

func (h *c12Handler) ServeNostr(ctx context.Context, send chan<- mocrelay.ServerMsg, recv <-chan mocrelay.ClientMsg) error {
	r := vk.RNG("C12/handler", h.seed)
	for {
		select {
		case <-ctx.Done():
			return ctx.Err()
		case m, ok := <-recv:
			if !ok {
				return mocrelay.ErrRecvClosed
			}
			h.mu.Lock()
			h.got = append(h.got, m)
			h.mu.Unlock()
			if rq, is := m.(*mocrelay.ClientReqMsg); is && rq.SubscriptionID == "zz-sentinel" {
				select {
				case send <- mocrelay.NewServerNoticeMsg(c12Mark + "END⟧"):
				case <-ctx.Done():
				}
				continue
			}
			nEmit := r.IntN(3)
			if h.flood > 0 {
				nEmit, h.flood = h.flood, 0
			}
			for k := nEmit; k > 0; k-- {
				h.seq++
				sm := c12ServerMsg(r, h.seq)
				if em, is := sm.(*mocrelay.ServerEventMsg); is {
					// now and then a different event under the id of the previous one (a relay does
					// not re-verify what its handler emits; each message is its own)
					if h.lastEvID != "" && r.IntN(3) == 0 {
						em.Event.ID = h.lastEvID
					} else {
						h.lastEvID = em.Event.ID
					}
				}
				if nEmit > 10 {
					sm = mocrelay.NewServerNoticeMsg(fmt.Sprintf("%s%d⟧", c12Mark, h.seq) + strings.Repeat("x", 60000))
				}
				h.mu.Lock()
				h.emitted = append(h.emitted, sm)
				h.mu.Unlock()
				select {
				case send <- sm:
				case <-ctx.Done():
					return ctx.Err()
				}
			}
		}
	}
}

func c12Decode(b []byte) (mocrelay.ServerMsg, error) {
	var arr []json.RawMessage
	if err := json.Unmarshal(b, &arr); err != nil || len(arr) == 0 {
		return nil, fmt.Errorf("not a JSON array")
	}
	var label string
	if err := json.Unmarshal(arr[0], &label); err != nil {
		return nil, err
	}
	var m mocrelay.ServerMsg
	switch label {
	case "EOSE":
		m = new(mocrelay.ServerEOSEMsg)
	case "EVENT":
		m = new(mocrelay.ServerEventMsg)
	case "NOTICE":
		m = new(mocrelay.ServerNoticeMsg)
	case "OK":
		m = new(mocrelay.ServerOKMsg)
	case "AUTH":
		m = new(mocrelay.ServerAuthMsg)
	case "COUNT":
		m = new(mocrelay.ServerCountMsg)
	case "CLOSED":
		m = new(mocrelay.ServerClosedMsg)
	default:
		return nil, fmt.Errorf("unknown label %q", label)
	}
	return m, json.Unmarshal(b, m)
}

func c12Same(a, b mocrelay.ServerMsg) bool {
	switch x := a.(type) {
	case *mocrelay.ServerOKMsg:
		y, ok := b.(*mocrelay.ServerOKMsg)
		return ok && x.EventID == y.EventID && x.Accepted == y.Accepted && x.Message() == y.Message()
	case *mocrelay.ServerClosedMsg:
		y, ok := b.(*mocrelay.ServerClosedMsg)
		return ok && x.SubscriptionID == y.SubscriptionID && x.Message() == y.Message()
	case *mocrelay.ServerEventMsg:
		y, ok := b.(*mocrelay.ServerEventMsg)
		return ok && x.SubscriptionID == y.SubscriptionID && vk.EventsEqual(x.Event, y.Event)
	}
	return reflect.DeepEqual(a, b)
}

type c12Frame struct {
	binary bool
	data   []byte
	valid  bool
	class  string
	tree   any
	refID  string // event / subscription id a rejection may name
}

func c12Frames(r *rand.Rand, i int, cat []c11Class) []c12Frame {
	n := 20 + r.IntN(vk.N(60, 180))
	var out []c12Frame
	var genuine []*mocrelay.Event
	text := func(m *c11Msg) (string, any) {
		ws, esc, _ := c11Style(r)
		t := c11Text(r, m.root, ws, esc)
		tree, _ := c11Decode(t)
		return t, tree
	}
	evText := func(e *mocrelay.Event) string {
		b, _ := json.Marshal([]any{"EVENT", map[string]any{"id": e.ID, "pubkey": e.Pubkey, "created_at": e.CreatedAt, "kind": e.Kind, "tags": e.Tags, "content": e.Content, "sig": e.Sig}})
		return string(b)
	}
	for k := 0; k < n; k++ {
		switch c := r.IntN(100); {
		case c < 45: // valid message of any type
			label := c11Labels[r.IntN(len(c11Labels))]
			// authenticity is demanded of EVENT only: an AUTH whose event nobody signed is a
			// valid client message and must reach the handler
			unsignedAuth := label == "AUTH" && r.IntN(2) == 0
			m := c11GenMsg(r, label, !unsignedAuth)
			if unsignedAuth {
				label = "AUTH-not-signed"
			}
			t, tree := text(m)
			if tree == nil || c11RefValid(tree).Class() != "wf" {
				continue
			}
			out = append(out, c12Frame{data: []byte(t), valid: true, class: "valid/" + label, tree: tree})
		case c < 55: // a genuine hostile-content event, remembered for replay attacks
			e := &mocrelay.Event{Kind: int64(r.IntN(30000)), CreatedAt: r.Int64N(1 << 33), Content: vk.HostileString(r, 30), Tags: []mocrelay.Tag{{"t", vk.HostileString(r, 8)}}}
			if r.IntN(4) == 0 { // timestamps that do not survive a trip through float64
				e.CreatedAt = vk.Pick(r, []int64{1<<53 + 1, 1234567890123456789, math.MaxInt64, math.MaxInt64 - 1, 1<<62 + 1})
			}
			vk.Sign(vk.KeyN(r.IntN(8)), e)
			genuine = append(genuine, e)
			t := evText(e)
			tree, _ := c11Decode(t)
			out = append(out, c12Frame{data: []byte(t), valid: true, class: "valid/EVENT-hostile", tree: tree})
		case c < 70: // catalogue corruption
			if len(cat) == 0 {
				continue
			}
			fr, _, _, ok, _ := c11MakeCorrupted(i*1000+k, "C12/corrupt", cat, true)
			if !ok {
				continue
			}
			out = append(out, c12Frame{data: []byte(fr.text), class: "corrupt/" + fr.class})
		case c < 74 && r.IntN(2) == 0:
			// a valid message with one character before or after it that is white space to
			// Unicode but not to JSON (or is no space at all): not a JSON text
			m := c11GenMsg(r, vk.Pick(r, []string{"CLOSE", "REQ", "COUNT"}), true)
			t, _ := text(m)
			pad := vk.Pick(r, []string{"\v", "\f", "\u0085", "\u00a0", "\u1680", "\u2003", "\u2028", "\u2029", "\u202f", "\u3000", "\ufeff", "\x00", "\x1c"})
			if r.IntN(2) == 0 {
				t = pad + t
			} else {
				t += pad
			}
			out = append(out, c12Frame{data: []byte(t), class: "not-json/padded-with-a-non-json-space"})
		case c < 74:
			out = append(out, c12Frame{data: []byte(vk.Pick(r, []string{"hello", "[", "{}", "[\"EVENT\",", "", "null", "42", "\"REQ\"", "[]", "[1,2]", "[\"NOPE\",1]"})), class: "not-a-message"})
		case c < 77:
			out = append(out, c12Frame{data: []byte("[\"CLOSE\",\"\xff\xfe\"]"), class: "invalid-utf8"})
		case c < 82: // binary frame carrying an otherwise valid message
			m := c11GenMsg(r, "CLOSE", true)
			t, _ := text(m)
			out = append(out, c12Frame{binary: true, data: []byte(t), class: "binary"})
		case c < 84: // an invalid field under a correct id and a genuine signature: only the field check can refuse it
			e := &mocrelay.Event{Kind: 1, CreatedAt: r.Int64N(1 << 31), Content: "signed but invalid " + vk.HostileString(r, 6), Tags: []mocrelay.Tag{{"t", "x"}}}
			variant := r.IntN(4)
			if variant == 0 {
				e.Kind = vk.Pick(r, []int64{65536, 70000, -1, 1 << 40})
			}
			vk.Sign(vk.KeyN(r.IntN(8)), e)
			switch variant {
			case 1:
				e.ID = strings.ToUpper(e.ID)
			case 2:
				e.Pubkey = strings.ToUpper(e.Pubkey)
			case 3:
				e.Sig = strings.ToUpper(e.Sig)
			}
			if strings.ToLower(e.ID) == e.ID && strings.ToLower(e.Pubkey) == e.Pubkey && strings.ToLower(e.Sig) == e.Sig && variant != 0 {
				continue // an all-digit hex string has no upper-case form
			}
			out = append(out, c12Frame{data: []byte(evText(e)), class: "invalid-field/properly-signed/" + []string{"kind-range", "id-upper-case", "pubkey-upper-case", "sig-upper-case"}[variant], refID: e.ID})
		case c < 86: // well-formed event that nobody signed
			e := vk.Seal(&mocrelay.Event{Kind: 1, Pubkey: vk.KeyN(0).Pub, CreatedAt: r.Int64N(1 << 31), Content: "forged", Tags: []mocrelay.Tag{}})
			out = append(out, c12Frame{data: []byte(evText(e)), class: "forged/unsigned", refID: e.ID})
		case c < 92 && len(genuine) > 0: // altered copy of an event the relay has already admitted
			g := vk.CloneEvent(vk.Pick(r, genuine))
			switch r.IntN(5) {
			case 0:
				g.Content += "!"
			case 1:
				g.CreatedAt++
			case 2:
				g.Kind++
			case 3:
				g.Tags = append(g.Tags, mocrelay.Tag{"p", "x"})
			case 4:
				g.Sig = flipBit(g.Sig, r.IntN(512))
			}
			out = append(out, c12Frame{data: []byte(evText(g)), class: "forged/altered-after-admission", refID: g.ID})
		case c < 95: // id over the HTML-escaping serialisation, properly signed
			e := &mocrelay.Event{Kind: 1, CreatedAt: r.Int64N(1 << 31), Content: "<&> " + vk.HostileString(r, 6), Tags: []mocrelay.Tag{}}
			key := vk.KeyN(1)
			e.Pubkey = key.Pub
			b, _ := json.Marshal([]any{0, e.Pubkey, e.CreatedAt, e.Kind, e.Tags, e.Content})
			h := sha256.Sum256(b)
			e.ID = hex.EncodeToString(h[:])
			e.Sig = vk.SignHash(key, h[:])
			out = append(out, c12Frame{data: []byte(evText(e)), class: "forged/wrong-canonicalisation", refID: e.ID})
		default: // correct id, but a pubkey that is not on the curve / a signature out of range
			e := &mocrelay.Event{Kind: 1, CreatedAt: r.Int64N(1 << 31), Content: "off-curve", Tags: []mocrelay.Tag{}}
			e.Pubkey = vk.Pick(r, []string{strings.Repeat("f", 64), "eefdea4cdb677750a420fee807eacf21eb9898ae79b9768766e4faa04a2d4a34", strings.Repeat("0", 64)})
			e.ID = vk.CanonID(e)
			e.Sig = vk.Pick(r, []string{strings.Repeat("f", 128), strings.Repeat("0", 128), vk.SignHash(vk.KeyN(2), make([]byte, 32))})
			out = append(out, c12Frame{data: []byte(evText(e)), class: "forged/unparsable-key-or-sig", refID: e.ID})
		}
	}
	return out
}

func TestVerif_C12(t *testing.T) {
	rep := vk.NewReport(t, "C12", "exploration")
	rep.Rule = "real WebSocket connections (coder/websocket client against httptest + NewRelay(recordingHandler)); per connection a pipelined seeded sequence of 20-200 frames: valid messages of all five types (whitespace/escape styles), genuine hostile-content events, every catalogue corruption class of C11, non-messages, invalid UTF-8, binary frames, properly signed events with an invalid field (kind out of range, upper-case hex), unsigned / altered-after-admission / wrong-canonicalisation / unparsable-key events; the recording handler answers each admitted message with 0-2 marked server messages of all seven types carrying hostile strings; oracle: handler log = the valid authentic frames, once each, in order and equal to what the frames denote; #rejections at the client = #other frames (NOTICE or rejecting OK/CLOSED naming the offender); after the last frame a sentinel REQ still reaches the handler; every handler emission arrives as one text frame that decodes to the emitted value, in order; added later: valid messages padded with a character that is white space to Unicode but not to JSON; 3-4 connections per CPU publishing 25 genuine events each at the same time on one relay; 1-6 valid frames followed at once by a normal close against a handler that needs 1-12 ms per message (the handler's log must be a prefix of what was sent); non-trivial = a connection with at least one rejected and one admitted frame; distinct = distinct frame-class sequences"
	defer rep.Finish()
	cat := c11Catalogue()
	nConn := vk.N(400, 6000)
	vk.ParallelW(12, nConn, func(i int) {
		if rep.Violations() >= 3 {
			return
		}
		r := vk.RNG("C12", i)
		frames := c12Frames(r, i, cat)
		c12Connection(rep, i, r, frames, "")
	})
	// several connections served by one Relay at the same time, each getting large messages
	// that name their connection: every frame must decode to the message emitted for this
	// connection, in emission order (nothing of another session, nothing torn)
	nShared := vk.N(3, 40)
	for i := 0; i < nShared && rep.Violations() < 3; i++ {
		c12SharedRelay(rep, i)
	}
	// far more connections than CPUs publish genuine events through one relay at the same
	// time: every event of every connection reaches the handler, in order, and every
	// connection is still usable afterwards
	for i, n := 0, vk.N(1, 6); i < n && rep.Violations() < 3; i++ {
		c12ManyPublishers(rep, i)
	}
	rep.Require(rep.Violations() > 0 || rep.Counter("connections_publishing_at_once") >= 40, "many publishers on one relay")
	// a client that says what it has to say and closes: whatever it sent before its close
	// frame reaches the handler, however busy the handler is meanwhile
	nClose := vk.N(60, 800)
	vk.ParallelW(8, nClose, func(i int) {
		if rep.Violations() < 3 {
			c12CloseAfterLastFrame(rep, i)
		}
	})
	rep.Require(rep.Counter("connections_closed_right_after_the_last_frame") >= int64(nClose*9/10), "connections closed right after their last frame")
	rep.Require(rep.Counter("shared_relay_connections") >= int64(nShared*4), "connections sharing a relay")
	rep.Require(rep.Counter("connections") >= int64(nConn*9/10), "connections")
	rep.Require(rep.SetSize("server_message_types") == 7, "all seven server message types")
	rep.Require(rep.SetSize("frame_classes") >= 40, "frame classes")
}

// c12ManyPublishers: 3-4 connections per CPU on one relay, each sending 25 properly signed
// events (prepared beforehand, so that they arrive in a burst) and a sentinel REQ that the
// handler answers. The handler must have received every connection's events in order.
func c12ManyPublishers(rep *vk.Report, i int) {
	r := vk.RNG("C12/many", i)
	nConn := runtime.GOMAXPROCS(0) * (3 + r.IntN(2))
	const nEv = 25
	var mu sync.Mutex
	got := map[string][]string{} // connection tag -> contents received
	h := mocrelay.HandlerFunc(func(ctx context.Context, send chan<- mocrelay.ServerMsg, recv <-chan mocrelay.ClientMsg) error {
		for {
			select {
			case <-ctx.Done():
				return ctx.Err()
			case m, ok := <-recv:
				if !ok {
					return mocrelay.ErrRecvClosed
				}
				switch m := m.(type) {
				case *mocrelay.ClientEventMsg:
					if tag, _, found := strings.Cut(m.Event.Content, "/"); found {
						mu.Lock()
						got[tag] = append(got[tag], m.Event.Content)
						mu.Unlock()
					}
				case *mocrelay.ClientReqMsg:
					select {
					case send <- mocrelay.NewServerEOSEMsg(m.SubscriptionID):
					case <-ctx.Done():
						return ctx.Err()
					}
				}
			}
		}
	})
	opt := mocrelay.NewDefaultRelayOption()
	opt.RecvRateLimitRate, opt.RecvRateLimitBurst = 1e9, 1<<30
	srv := httptest.NewServer(mocrelay.NewRelay(h, opt))
	defer srv.Close()
	ctx, cancel := context.WithTimeout(context.Background(), 3*vk.WaitBound)
	defer cancel()
	frames := make([][][]byte, nConn)
	want := make([][]string, nConn)
	for c := range frames {
		key := vk.KeyN(100 + c%8)
		for k := 0; k < nEv; k++ {
			e := &mocrelay.Event{Kind: 1, CreatedAt: int64(1700000000 + k), Content: fmt.Sprintf("m%d-c%d/%d", i, c, k), Tags: []mocrelay.Tag{}}
			vk.Sign(key, e)
			b, _ := json.Marshal([]any{"EVENT", e})
			frames[c] = append(frames[c], b)
			want[c] = append(want[c], e.Content)
		}
	}
	start := make(chan struct{})
	var wg sync.WaitGroup
	var fmu sync.Mutex
	failure := ""
	for c := 0; c < nConn; c++ {
		wg.Add(1)
		go func(c int) {
			defer wg.Done()
			fail := func(s string) {
				fmu.Lock()
				if failure == "" {
					failure = fmt.Sprintf("connection %d of %d: %s", c, nConn, s)
				}
				fmu.Unlock()
			}
			conn, _, err := websocket.Dial(ctx, "ws"+strings.TrimPrefix(srv.URL, "http"), nil)
			if err != nil {
				fail("dial: " + err.Error())
				return
			}
			defer conn.CloseNow()
			<-start
			for _, f := range frames[c] {
				if err := conn.Write(ctx, websocket.MessageText, f); err != nil {
					fail("the connection did not take an EVENT frame: " + err.Error())
					return
				}
			}
			if err := conn.Write(ctx, websocket.MessageText, []byte(`["REQ","zz-sentinel",{}]`)); err != nil {
				fail("the connection did not take the sentinel REQ: " + err.Error())
				return
			}
			for {
				_, data, err := conn.Read(ctx)
				if err != nil {
					fail("the connection ended before the sentinel REQ was answered: " + err.Error())
					return
				}
				if m, derr := c12Decode(data); derr == nil {
					if e, is := m.(*mocrelay.ServerEOSEMsg); is && e.SubscriptionID == "zz-sentinel" {
						break
					}
				}
			}
			conn.Close(websocket.StatusNormalClosure, "")
		}(c)
	}
	close(start)
	wg.Wait()
	rep.Eval(1)
	if failure != "" {
		rep.Violation("many-publishers/connection-lost", "with "+fmt.Sprint(nConn)+" connections publishing genuine events at once: "+failure, map[string]any{"connections": nConn, "events_per_connection": nEv})
		return
	}
	mu.Lock()
	defer mu.Unlock()
	for c := 0; c < nConn; c++ {
		tag := fmt.Sprintf("m%d-c%d", i, c)
		if strings.Join(got[tag], ",") != strings.Join(want[c], ",") {
			rep.Violation("many-publishers/handler-log-differs", fmt.Sprintf("with %d connections publishing genuine events at once, the handler received %d of the %d events of connection %d (or not in order)", nConn, len(got[tag]), nEv, c),
				map[string]any{"sent": want[c], "handler_received": got[tag]})
			return
		}
	}
	rep.Count("connections_publishing_at_once", int64(nConn))
}

// c12CloseAfterLastFrame: 1-6 valid frames and then a normal close, against a handler that needs
// a few milliseconds per message (and, like the library's own handlers, stops at the first of
// "context done" / "next message"). The handler's log must be a prefix of what was sent.
func c12CloseAfterLastFrame(rep *vk.Report, i int) {
	r := vk.RNG("C12/close", i)
	var mu sync.Mutex
	var got []string
	done := make(chan struct{})
	work := time.Duration(1+r.IntN(12)) * time.Millisecond
	h := mocrelay.HandlerFunc(func(ctx context.Context, send chan<- mocrelay.ServerMsg, recv <-chan mocrelay.ClientMsg) error {
		defer close(done)
		for {
			select {
			case <-ctx.Done():
				return ctx.Err()
			case m, ok := <-recv:
				if !ok {
					return mocrelay.ErrRecvClosed
				}
				if rq, is := m.(*mocrelay.ClientReqMsg); is {
					mu.Lock()
					got = append(got, rq.SubscriptionID)
					mu.Unlock()
				}
				time.Sleep(work)
			}
		}
	})
	opt := mocrelay.NewDefaultRelayOption()
	opt.RecvRateLimitRate = 1e9
	opt.RecvRateLimitBurst = 1 << 30
	if r.IntN(2) == 0 {
		opt.PingDuration = 0
	}
	srv := httptest.NewServer(mocrelay.NewRelay(h, opt))
	defer srv.Close()
	ctx, cancel := context.WithTimeout(context.Background(), 3*vk.WaitBound)
	defer cancel()
	conn, _, err := websocket.Dial(ctx, "ws"+strings.TrimPrefix(srv.URL, "http"), nil)
	if err != nil {
		rep.Inconclusive(fmt.Sprintf("C12: dial failed: %v", err))
		return
	}
	defer conn.CloseNow()
	n := 1 + r.IntN(6)
	var sent []string
	for k := 0; k < n; k++ {
		sub := fmt.Sprintf("c%d-k%d", i, k)
		if err := conn.Write(ctx, websocket.MessageText, []byte(`["REQ","`+sub+`",{}]`)); err != nil {
			rep.Inconclusive(fmt.Sprintf("C12: close scenario: write failed: %v", err))
			return
		}
		sent = append(sent, sub)
	}
	conn.Close(websocket.StatusNormalClosure, "")
	select {
	case <-done:
	case <-time.After(vk.WaitBound):
		rep.Inconclusive("C12: close scenario: the handler did not return after the client's close")
		return
	}
	rep.Eval(1)
	rep.Count("connections_closed_right_after_the_last_frame", 1)
	mu.Lock()
	defer mu.Unlock()
	// What the handler has is a prefix of what was sent, in order: that much is stated. Whether
	// frames still on their way to the handler when the close frame arrives must be handed
	// over is not (the statement speaks about the frames of a session, not about its end; the
	// pinned code hands them over because it reads one frame at a time): counted, not judged.
	if len(got) > len(sent) || strings.Join(got, ",") != strings.Join(sent[:len(got)], ",") {
		rep.Violation("handler/not-a-prefix-before-close", fmt.Sprintf("the client sent %d valid frames and then closed normally; what the handler received is not a prefix of them", len(sent)),
			map[string]any{"sent": sent, "handler_received": got})
		return
	}
	if len(got) < len(sent) {
		rep.Count("not_claimed/connections_whose_last_frames_were_not_handed_over_before_the_close", 1)
	}
}

func isSentinel(m mocrelay.ClientMsg) bool {
	r, ok := m.(*mocrelay.ClientReqMsg)
	return ok && r.SubscriptionID == "zz-sentinel"
}

func lastPart(s string) string {
	p := strings.Split(s, "/")
	return p[len(p)-1]
}

func describeClient(ms []mocrelay.ClientMsg) []string {
	out := make([]string, len(ms))
	for i, m := range ms {
		out[i] = vk.DescribeClientMsg(m)
	}
	return out
}

func describeServer(ms []mocrelay.ServerMsg) []string {
	out := make([]string, len(ms))
	for i, m := range ms {
		out[i] = vk.DescribeServerMsg(m)
	}
	return out
}

func firstN(fs []c12Frame, n int) []string {
	var out []string
	for i := 0; i < len(fs) && i < n; i++ {
		s := string(fs[i].data)
		if len(s) > 300 {
			s = s[:300] + "..."
		}
		out = append(out, s)
	}
	return out
}

// c12Connection runs one WebSocket connection with the given frames against a fresh relay
// and judges it (also used by C01 for its end-to-end clause, with a signature prefix).
func c12Connection(rep *vk.Report, i int, r *rand.Rand, frames []c12Frame, sigPrefix string) {
	h := &c12Handler{seed: i}
	opt := mocrelay.NewDefaultRelayOption()
	opt.RecvRateLimitRate = 1e9
	opt.RecvRateLimitBurst = 1 << 30
	opt.MaxMessageLength = 1 << 20
	if r.IntN(2) == 0 {
		opt.PingDuration = 0
	}
	if i%8 == 5 && sigPrefix == "" {
		// a small size limit, and valid frames of exactly that size and one byte less
		// (padded with JSON whitespace after the opening bracket); longer frames are left out
		// (they are outside the statement and end the connection)
		limit := vk.Pick(r, []int{700, 4096, 70001})
		opt.MaxMessageLength = int64(limit)
		var kept []c12Frame
		padded := 0
		for _, f := range frames {
			if len(f.data) > limit {
				continue
			}
			if f.valid && !f.binary && len(f.data) > 0 && f.data[0] == '[' && padded < 6 && len(f.data) < limit && r.IntN(3) == 0 {
				want := limit - padded%2
				pad := bytes.Repeat([]byte{' '}, want-len(f.data))
				nd := append([]byte{'['}, pad...)
				nd = append(nd, f.data[1:]...)
				f.data = nd
				f.class += "/at-size-limit"
				padded++
			}
			kept = append(kept, f)
		}
		frames = kept
		rep.Count("connections_with_small_size_limit", 1)
		rep.Count("frames_of_exactly_the_size_limit_or_one_less", int64(padded))
	}
	// some sessions outlive the send timeout: idle periods between frames must not
	// end a session whose peer keeps reading
	pauseAt, pause := -1, time.Duration(0)
	if i%8 == 1 {
		opt.SendTimeout = 120 * time.Millisecond
		pauseAt, pause = len(frames)/3, 400*time.Millisecond
		rep.Count("connections_outliving_send_timeout", 1)
	}
	readerDelay := time.Duration(0)
	if i%16 == 3 && len(frames) > 6 && sigPrefix == "" {
		// the handler floods its output while the client is not reading yet: rejections
		// of frames sent meanwhile must still arrive once the client reads
		h.flood = 150
		readerDelay = 300 * time.Millisecond
		rep.Count("connections_with_flooded_output_and_late_reader", 1)
	}
	relay := mocrelay.NewRelay(h, opt)
	srv := httptest.NewServer(relay)
	defer srv.Close()
	ctx, cancel := context.WithTimeout(context.Background(), 3*vk.WaitBound)
	defer cancel()
	conn, _, err := websocket.Dial(ctx, "ws"+strings.TrimPrefix(srv.URL, "http"), nil)
	if err != nil {
		rep.Inconclusive(fmt.Sprintf("C12: dial failed: %v", err))
		return
	}
	defer conn.CloseNow()
	conn.SetReadLimit(16 << 20)
	classes := make([]string, len(frames))
	for k, f := range frames {
		classes[k] = f.class
	}
	wit := func(extra map[string]any) map[string]any {
		m := map[string]any{"connection": i, "frame_classes": classes}
		for k, v := range extra {
			m[k] = v
		}
		return m
	}
	// writer
	werr := make(chan error, 1)
	go func() {
		for fi, f := range frames {
			if fi == pauseAt {
				time.Sleep(pause)
			}
			typ := websocket.MessageText
			if f.binary {
				typ = websocket.MessageBinary
			}
			if err := conn.Write(ctx, typ, f.data); err != nil {
				werr <- err
				return
			}
		}
		werr <- conn.Write(ctx, websocket.MessageText, []byte(`["REQ","zz-sentinel",{}]`))
	}()
	// reader: until the handler's END marker
	time.Sleep(readerDelay)
	var fromHandler []mocrelay.ServerMsg
	var rejections []mocrelay.ServerMsg
	ended := false
	for !ended {
		typ, data, err := conn.Read(ctx)
		if err != nil {
			we := ""
			select {
			case e := <-werr:
				if e != nil {
					we = e.Error()
				}
			default:
			}
			rep.Violation(sigPrefix+"connection/lost", fmt.Sprintf("the connection ended before the sentinel REQ was answered (read: %v, write: %s): a rejected frame must leave the connection usable", err, we),
				wit(map[string]any{"received_so_far": len(fromHandler) + len(rejections)}))
			return
		}
		if typ != websocket.MessageText {
			rep.Violation(sigPrefix+"output/not-a-text-frame", "the relay sent a binary frame", wit(nil))
			return
		}
		m, derr := c12Decode(data)
		if derr != nil {
			rep.Violation(sigPrefix+"output/undecodable", "a frame from the relay does not decode as a server message: "+derr.Error(), wit(map[string]any{"frame": string(data)}))
			return
		}
		// marks are looked for in what the frame says, not in how it is spelled (a relay may
		// write any character of a string as a \u escape)
		said, _ := json.Marshal(m)
		if bytes.Contains(said, []byte(c12Mark+"END")) {
			ended = true
		} else if bytes.Contains(said, []byte(c12Mark)) {
			fromHandler = append(fromHandler, m)
		} else {
			rejections = append(rejections, m)
		}
	}
	// rejections and handler output may travel on different paths inside the relay:
	// a rejection may still be on its way when the handler's end marker arrives
	nbad := 0
	for _, f := range frames {
		if !f.valid {
			nbad++
		}
	}
	for len(rejections) < nbad {
		rctx, rcancel := context.WithTimeout(ctx, vk.WaitBound/4)
		typ, data, err := conn.Read(rctx)
		rcancel()
		if err != nil {
			break
		}
		if typ != websocket.MessageText {
			rep.Violation(sigPrefix+"output/not-a-text-frame", "the relay sent a binary frame", wit(nil))
			return
		}
		m, derr := c12Decode(data)
		if derr != nil {
			rep.Violation(sigPrefix+"output/undecodable", "a frame from the relay does not decode as a server message: "+derr.Error(), wit(map[string]any{"frame": string(data)}))
			return
		}
		if said, _ := json.Marshal(m); bytes.Contains(said, []byte(c12Mark)) {
			rep.Violation(sigPrefix+"output/after-end-marker", "a handler emission arrived after the handler's last emission", wit(nil))
			return
		}
		rejections = append(rejections, m)
		rep.Count("rejections_arriving_after_the_end_marker", 1)
	}
	rep.Eval(1)
	h.mu.Lock()
	got := append([]mocrelay.ClientMsg{}, h.got...)
	emitted := append([]mocrelay.ServerMsg{}, h.emitted...)
	h.mu.Unlock()
	// handler log vs valid frames
	var valid []c12Frame
	bad := 0
	offenders := map[string]bool{}
	for _, f := range frames {
		if f.valid {
			valid = append(valid, f)
		} else {
			bad++
			if f.refID != "" {
				offenders[f.refID] = true
			}
		}
		rep.Seen("frame_classes", f.class)
	}
	if len(got) == 0 || !isSentinel(got[len(got)-1]) {
		rep.Violation(sigPrefix+"connection/sentinel-not-delivered", "the sentinel REQ sent after the last frame did not reach the handler", wit(nil))
		return
	}
	got = got[:len(got)-1]
	if len(got) != len(valid) {
		// find the first divergence for the signature
		sig := "handler/missing-valid-frame"
		if len(got) > len(valid) {
			sig = "handler/received-invalid-frame"
		}
		for k := 0; k < len(got) && k < len(valid); k++ {
			if !c11SameMessage(valid[k].tree, got[k]) {
				if sig == "handler/received-invalid-frame" {
					// which bad frame does it denote?
					for _, f := range frames {
						if !f.valid && !f.binary {
							if tree, err := c11Decode(string(f.data)); err == nil && c11SameMessage(tree, got[k]) {
								sig += "/" + strings.SplitN(f.class, "/", 3)[0] + "/" + lastPart(f.class)
								break
							}
						}
					}
				}
				if sig == "handler/missing-valid-frame" {
					sig += "/" + valid[k].class
				}
				break
			}
		}
		if sig == "handler/missing-valid-frame" && len(got) < len(valid) {
			sig += "/" + valid[len(got)].class
		}
		rep.Violation(sigPrefix+sig, fmt.Sprintf("%d valid authentic frames were sent, the handler received %d messages", len(valid), len(got)), wit(map[string]any{"handler_got": describeClient(got)}))
		return
	}
	for k := range got {
		if !c11SameMessage(valid[k].tree, got[k]) {
			rep.Violation(sigPrefix+"handler/order-or-content", fmt.Sprintf("message %d at the handler is not the %d-th valid frame", k, k), wit(map[string]any{"handler_got": describeClient(got), "frame": string(valid[k].data)}))
			return
		}
	}
	if sigPrefix != "" {
		// used by another property's check for what reaches the handler only: how and how
		// often refusals are answered, and the handler's own output, are C12's business
		rep.Count("connections", 1)
		rep.Count("frames", int64(len(frames)))
		rep.Count("frames_admitted", int64(len(valid)))
		rep.Count("frames_rejected", int64(bad))
		if bad > 0 && len(valid) > 0 {
			rep.Nontrivial(strings.Join(classes, ","))
		}
		conn.Close(websocket.StatusNormalClosure, "")
		return
	}
	if len(rejections) != bad {
		sig := "rejection/missing"
		if len(rejections) > bad {
			sig = "rejection/extra"
		}
		rep.Violation(sigPrefix+sig, fmt.Sprintf("%d frames had to be rejected, the client received %d rejections", bad, len(rejections)), wit(map[string]any{"rejections": describeServer(rejections)}))
		return
	}
	// every string that occurs (decoded) in an offending frame
	named := map[string]bool{}
	var walk func(v any)
	walk = func(v any) {
		switch t := v.(type) {
		case string:
			named[t] = true
		case []any:
			for _, e := range t {
				walk(e)
			}
		case map[string]any:
			for _, e := range t {
				walk(e)
			}
		}
	}
	for _, f := range frames {
		if !f.valid {
			var v any
			if json.Unmarshal(f.data, &v) == nil {
				walk(v)
			}
		}
	}
	for _, m := range rejections {
		switch x := m.(type) {
		case *mocrelay.ServerNoticeMsg:
		case *mocrelay.ServerOKMsg:
			// a rejecting OK must name an event id that an offending frame carries
			if x.Accepted || !(offenders[x.EventID] || named[x.EventID]) {
				rep.Violation(sigPrefix+"rejection/wrong-form", "an OK that is not a rejection of an offending event: "+vk.DescribeServerMsg(m), wit(nil))
				return
			}
		case *mocrelay.ServerClosedMsg:
			if !named[x.SubscriptionID] {
				rep.Violation(sigPrefix+"rejection/wrong-form", "a CLOSED that names no subscription of an offending frame: "+vk.DescribeServerMsg(m), wit(nil))
				return
			}
		default:
			rep.Violation(sigPrefix+"rejection/wrong-form", "a frame was answered by "+vk.DescribeServerMsg(m), wit(nil))
			return
		}
	}
	// handler output
	if len(fromHandler) != len(emitted) {
		rep.Violation(sigPrefix+"output/count", fmt.Sprintf("the handler emitted %d messages, the client received %d", len(emitted), len(fromHandler)), wit(nil))
		return
	}
	for k := range emitted {
		if !c12Same(emitted[k], fromHandler[k]) {
			rep.Violation(sigPrefix+"output/altered-or-reordered", fmt.Sprintf("emission %d arrived as a different message", k), wit(map[string]any{"emitted": vk.JSON(emitted[k]), "received": vk.JSON(fromHandler[k])}))
			return
		}
		rep.Seen("server_message_types", emitted[k].ServerMsgLabel())
	}
	rep.Count("connections", 1)
	rep.Count("frames", int64(len(frames)))
	rep.Count("frames_admitted", int64(len(valid)))
	rep.Count("frames_rejected", int64(bad))
	rep.Count("handler_emissions", int64(len(emitted)))
	if bad > 0 && len(valid) > 0 {
		rep.Nontrivial(strings.Join(classes, ","))
	}
	if rep.WantSample() {
		rep.Sample(map[string]any{"frame_classes": classes[:min(12, len(classes))], "first_frames": firstN(frames, 4), "rejections": describeServer(rejections)[:min(4, len(rejections))]})
	}
	conn.Close(websocket.StatusNormalClosure, "")
	time.Sleep(0)
}

// c12SharedText is the NOTICE text the shared-relay handler emits as reply j to request k of
// connection c: a header and 48-160 kB of a pattern that differs between connections.
func c12SharedText(c, k, j int) string {
	size := 48000 + (c*7919+k*104729+j*1299709)%112000
	return fmt.Sprintf("%sconn %d req %d reply %d⟧", c12Mark, c, k, j) + strings.Repeat(string(rune('a'+c%26))+string(rune('A'+k%26)), size/2)
}

func c12SharedRelay(rep *vk.Report, i int) {
	const nReq, nReply = 8, 2
	nClients := 4 + i%5
	h := mocrelay.HandlerFunc(func(ctx context.Context, send chan<- mocrelay.ServerMsg, recv <-chan mocrelay.ClientMsg) error {
		for {
			select {
			case <-ctx.Done():
				return ctx.Err()
			case m, ok := <-recv:
				if !ok {
					return mocrelay.ErrRecvClosed
				}
				rq, is := m.(*mocrelay.ClientReqMsg)
				if !is {
					continue
				}
				var c, k int
				if _, err := fmt.Sscanf(rq.SubscriptionID, "c%d-k%d", &c, &k); err != nil {
					continue
				}
				for j := 0; j < nReply; j++ {
					select {
					case send <- mocrelay.NewServerNoticeMsg(c12SharedText(c, k, j)):
					case <-ctx.Done():
						return ctx.Err()
					}
				}
			}
		}
	})
	opt := mocrelay.NewDefaultRelayOption()
	opt.RecvRateLimitRate = 1e9
	opt.RecvRateLimitBurst = 1 << 30
	opt.PingDuration = 0
	srv := httptest.NewServer(mocrelay.NewRelay(h, opt))
	defer srv.Close()
	var wg sync.WaitGroup
	for c := 0; c < nClients; c++ {
		wg.Add(1)
		go func(c int) {
			defer wg.Done()
			ctx, cancel := context.WithTimeout(context.Background(), 3*vk.WaitBound)
			defer cancel()
			conn, _, err := websocket.Dial(ctx, "ws"+strings.TrimPrefix(srv.URL, "http"), nil)
			if err != nil {
				rep.Inconclusive(fmt.Sprintf("C12: dial failed: %v", err))
				return
			}
			defer conn.CloseNow()
			conn.SetReadLimit(16 << 20)
			go func() {
				for k := 0; k < nReq; k++ {
					if conn.Write(ctx, websocket.MessageText, []byte(fmt.Sprintf(`["REQ","c%d-k%d",{}]`, c, k))) != nil {
						return
					}
				}
			}()
			for n := 0; n < nReq*nReply; n++ {
				typ, data, err := conn.Read(ctx)
				if err != nil {
					rep.Inconclusive(fmt.Sprintf("C12: shared relay %d connection %d: read failed after %d frames: %v", i, c, n, err))
					return
				}
				rep.Eval(1)
				want := c12SharedText(c, n/nReply, n%nReply)
				m, derr := c12Decode(data)
				nm, isNotice := m.(*mocrelay.ServerNoticeMsg)
				if typ != websocket.MessageText || derr != nil || !isNotice || nm.Message != want {
					got := string(data)
					rep.Violation("output/shared-relay/foreign-or-torn-frame", fmt.Sprintf("connection %d of %d on one relay: frame %d is not the message the handler emitted for this connection at this position", c, nClients, n),
						map[string]any{"relay": i, "connection": c, "frame_number": n, "frame_head": got[:min(len(got), 160)], "frame_length": len(got), "expected_head": want[:60], "expected_length": len(want) + 12, "decode_error": fmt.Sprint(derr)})
					return
				}
			}
			rep.Count("shared_relay_connections", 1)
			rep.Nontrivial(fmt.Sprintf("shared-relay/%d/%d", i, c))
		}(c)
	}
	wg.Wait()
}
