package mocrelay_test

// C17, last clause: "the chain built from a NIP-11 limitation block enforces ...
// max_content_length ... exactly as the individual middlewares do".
//
// The main monitor never generates a content whose byte length and character count fall
// on different sides of the limit, because the statement names no unit. This scenario
// needs no unit: the SAME event is sent through NewMaxContentLengthMiddleware(N) and
// through BuildMiddlewareFromNIP11({max_content_length: N}) (one time in two with
// max_event_tags next to it, which the event respects), and the two must agree on whether
// the event reaches the handler - whichever unit the repository counts in.
//
// Oracle: the downstream handler answers every EVENT with OK(true). An ASCII sentinel
// EVENT of one byte follows the judged one; messages are forwarded in order, so when the
// sentinel's OK(true) has come back, the downstream log says soundly whether the judged
// event was forwarded. Nothing is concluded from when (or whether) a rejection arrives:
// that is the main monitor's business.

import (
	"context"
	"fmt"
	"strings"
	"sync"
	"unicode/utf8"

	"github.com/high-moctane/mocrelay"
	vk "github.com/high-moctane/mocrelay/internal/verifkit"
)

// c17GapContent builds a string with more than n bytes and at most n characters
// (n >= 1), or, for the control classes, one that is on the same side in both units.
func c17GapContent(r interface{ IntN(int) int }, n int, class string) string {
	wide := []string{"é", "ß", "あ", "語", "€", "𝄞", "😀", "\u2028", "\ufffd"}
	switch class {
	case "gap-all-wide": // n characters, each 2-4 bytes
		var b strings.Builder
		for i := 0; i < n; i++ {
			b.WriteString(wide[r.IntN(len(wide))])
		}
		return b.String()
	case "gap-just-over": // bytes == n+1..n+3 with characters <= n
		w := wide[r.IntN(len(wide))]
		pad := n - utf8.RuneCountInString(w) - r.IntN(2)
		if pad < 0 {
			pad = 0
		}
		s := strings.Repeat("a", pad) + w
		if len(s) <= n { // n too small for a pad: fall back to wide only
			return c17GapContent(r, n, "gap-all-wide")
		}
		return s
	case "gap-mixed":
		var b strings.Builder
		chars := 0
		for chars < n {
			if r.IntN(3) == 0 {
				b.WriteString(wide[r.IntN(len(wide))])
			} else {
				b.WriteByte(byte('a' + r.IntN(26)))
			}
			chars++
		}
		s := b.String()
		if len(s) <= n {
			return c17GapContent(r, n, "gap-all-wide")
		}
		return s
	case "under-both": // at most n bytes although it has wide characters
		w := wide[r.IntN(len(wide))]
		if len(w) > n {
			return strings.Repeat("a", n)
		}
		return strings.Repeat("a", n-len(w)) + w
	default: // "over-both": more than n characters
		return strings.Repeat("a", n-1+r.IntN(2)) + wide[r.IntN(len(wide))] + "zz"
	}
}

type c17UnitDown struct {
	mu  sync.Mutex
	got []string // ids of the events that reached the handler
}

func (d *c17UnitDown) handler() mocrelay.Handler {
	return mocrelay.HandlerFunc(func(ctx context.Context, send chan<- mocrelay.ServerMsg, recv <-chan mocrelay.ClientMsg) error {
		for {
			select {
			case <-ctx.Done():
				return ctx.Err()
			case m, ok := <-recv:
				if !ok {
					return mocrelay.ErrRecvClosed
				}
				em, is := m.(*mocrelay.ClientEventMsg)
				if !is {
					continue
				}
				d.mu.Lock()
				d.got = append(d.got, em.Event.ID)
				d.mu.Unlock()
				select {
				case send <- mocrelay.NewServerOKMsg(em.Event.ID, true, "", "c17-unit reached the handler"):
				case <-ctx.Done():
					return ctx.Err()
				}
			}
		}
	})
}

// c17UnitForwarded sends evs followed by the sentinel and reports which of evs reached the
// handler; ok=false means the session did not complete (inconclusive).
func c17UnitForwarded(mw mocrelay.Middleware, evs []*mocrelay.Event, sentinel *mocrelay.Event) (fwd []bool, ok bool, panicked string) {
	d := &c17UnitDown{}
	var h mocrelay.Handler
	func() {
		defer func() {
			if p := recover(); p != nil {
				panicked = fmt.Sprint(p)
			}
		}()
		h = mw(d.handler())
	}()
	if panicked != "" {
		return nil, false, panicked
	}
	s := vk.StartSession(context.Background(), h, 64)
	defer s.Stop()
	for _, ev := range append(append([]*mocrelay.Event{}, evs...), sentinel) {
		if !s.Put(&mocrelay.ClientEventMsg{Event: ev}) {
			return nil, false, ""
		}
	}
	for {
		m, got := s.Get()
		if !got {
			return nil, false, ""
		}
		if okm, is := m.(*mocrelay.ServerOKMsg); is && okm.EventID == sentinel.ID && okm.Accepted {
			break
		}
	}
	d.mu.Lock()
	defer d.mu.Unlock()
	seen := map[string]bool{}
	for _, id := range d.got {
		seen[id] = true
	}
	for _, ev := range evs {
		fwd = append(fwd, seen[ev.ID])
	}
	return fwd, true, ""
}

func c17UnitAgreement(rep *vk.Report) {
	classes := []string{"gap-all-wide", "gap-just-over", "gap-mixed", "under-both", "over-both"}
	n := vk.N(400, 6000)
	vk.ParallelW(c17Workers(), n, func(i int) {
		r := vk.RNG("C17/unit", i)
		limit := 1 + r.IntN(8)
		if r.IntN(3) == 0 {
			limit = 9 + r.IntN(300)
		}
		withTags := r.IntN(2) == 0
		doc := &mocrelay.NIP11{Limitation: &mocrelay.NIP11Limitation{MaxContentLength: limit}}
		var individual mocrelay.Middleware = mocrelay.Middleware(mocrelay.NewMaxContentLengthMiddleware(limit))
		if withTags {
			doc.Limitation.MaxEventTags = 3
			inner := individual
			tags := mocrelay.Middleware(mocrelay.NewMaxEventTagsMiddleware(3))
			individual = func(h mocrelay.Handler) mocrelay.Handler { return tags(inner(h)) }
		}
		chain := mocrelay.BuildMiddlewareFromNIP11(doc)
		var evs []*mocrelay.Event
		var cls []string
		for k, m := 0, 2+r.IntN(4); k < m; k++ {
			c := classes[r.IntN(len(classes))]
			if k == 0 {
				c = classes[i%3] // every history has a content in the gap
			}
			content := c17GapContent(r, limit, c)
			ev := &mocrelay.Event{ID: vk.HexOf(fmt.Sprintf("c17 unit %d/%d", i, k)), Pubkey: c17Authors[k%3], Kind: 1, CreatedAt: 1700000000 + int64(k), Tags: []mocrelay.Tag{}, Content: content, Sig: c17Sig}
			if withTags && r.IntN(2) == 0 {
				ev.Tags = []mocrelay.Tag{{"t", "x"}}
			}
			evs = append(evs, ev)
			cls = append(cls, c)
		}
		sentinel := func(tag string) *mocrelay.Event {
			return &mocrelay.Event{ID: vk.HexOf(fmt.Sprintf("c17 unit sentinel %d %s", i, tag)), Pubkey: c17Authors[0], Kind: 1, CreatedAt: 1700000100, Tags: []mocrelay.Tag{}, Content: "s", Sig: c17Sig}
		}
		fi, ok1, p1 := c17UnitForwarded(individual, evs, sentinel("i"))
		fc, ok2, p2 := c17UnitForwarded(chain, evs, sentinel("c"))
		if p1 != "" || p2 != "" {
			rep.Violation("unit/panic/applying-middleware", "applying the middleware to a handler panicked: "+p1+p2, map[string]any{"limit": limit, "with_max_event_tags": withTags})
			return
		}
		if !ok1 || !ok2 {
			rep.Inconclusive(fmt.Sprintf("C17 unit agreement %d: a session did not complete within the bound", i))
			return
		}
		for k, ev := range evs {
			rep.Eval(1)
			bytes, chars := len(ev.Content), utf8.RuneCountInString(ev.Content)
			if fi[k] != fc[k] {
				rep.Violation("unit/chain-differs-from-individual/content-length",
					fmt.Sprintf("max_content_length %d, content of %d bytes / %d characters (%s): NewMaxContentLengthMiddleware forwarded=%v, the chain built from the NIP-11 document forwarded=%v", limit, bytes, chars, cls[k], fi[k], fc[k]),
					map[string]any{"limit": limit, "with_max_event_tags": withTags, "event": ev, "class": cls[k], "individual_forwarded": fi, "chain_forwarded": fc})
				return
			}
			// the classes on which both units agree are decided by the statement itself
			if cls[k] == "under-both" && !fc[k] || cls[k] == "over-both" && fc[k] {
				rep.Violation("unit/wrong-verdict/"+cls[k], fmt.Sprintf("max_content_length %d, content of %d bytes / %d characters: forwarded=%v", limit, bytes, chars, fc[k]), map[string]any{"limit": limit, "event": ev})
				return
			}
			rep.Count("unit_"+cls[k], 1)
			rep.Nontrivial(fmt.Sprintf("unit|%s|%v|%v", cls[k], withTags, fc[k]))
			if strings.HasPrefix(cls[k], "gap") {
				if bytes <= limit || chars > limit {
					panic("c17 unit: generator produced a gap content that is not in the gap")
				}
				rep.Count("unit_gap_contents", 1)
			}
		}
		rep.Count("unit_histories", 1)
	})
	rep.Require(rep.Counter("unit_histories") >= int64(n*9/10), "too few chain-versus-individual histories completed")
	rep.Require(rep.Counter("unit_gap_contents") >= int64(n*9/10), "too few contents between the byte and the character limit were compared")
}
