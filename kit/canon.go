package verifkit

import (
	"crypto/sha256"
	"encoding/hex"
	"strconv"

	"github.com/high-moctane/mocrelay"
)

// Canon is the NIP-01 canonical serialisation, written from the text of NIP-01:
//
//	[0,<pubkey>,<created_at>,<kind>,<tags>,<content>]
//
// compact, UTF-8, with exactly these escapes inside strings: \n \" \\ \r \t \b \f;
// the remaining C0 controls as \u00xx; every other character verbatim.
func Canon(pubkey string, createdAt, kind int64, tags [][]string, content string) []byte {
	b := make([]byte, 0, 128+len(content))
	b = append(b, "[0,"...)
	b = canonString(b, pubkey)
	b = append(b, ',')
	b = strconv.AppendInt(b, createdAt, 10)
	b = append(b, ',')
	b = strconv.AppendInt(b, kind, 10)
	b = append(b, ',', '[')
	for i, t := range tags {
		if i > 0 {
			b = append(b, ',')
		}
		b = append(b, '[')
		for j, s := range t {
			if j > 0 {
				b = append(b, ',')
			}
			b = canonString(b, s)
		}
		b = append(b, ']')
	}
	b = append(b, ']', ',')
	b = canonString(b, content)
	b = append(b, ']')
	return b
}

const hexdigits = "0123456789abcdef"

func canonString(b []byte, s string) []byte {
	b = append(b, '"')
	for i := 0; i < len(s); i++ {
		c := s[i]
		switch {
		case c == '\n':
			b = append(b, '\\', 'n')
		case c == '"':
			b = append(b, '\\', '"')
		case c == '\\':
			b = append(b, '\\', '\\')
		case c == '\r':
			b = append(b, '\\', 'r')
		case c == '\t':
			b = append(b, '\\', 't')
		case c == '\b':
			b = append(b, '\\', 'b')
		case c == '\f':
			b = append(b, '\\', 'f')
		case c < 0x20:
			b = append(b, '\\', 'u', '0', '0', hexdigits[c>>4], hexdigits[c&15])
		default:
			b = append(b, c)
		}
	}
	return append(b, '"')
}

func tagsOf(e *mocrelay.Event) [][]string {
	t := make([][]string, len(e.Tags))
	for i := range e.Tags {
		t[i] = []string(e.Tags[i])
	}
	return t
}

// CanonEvent is Canon applied to an event.
func CanonEvent(e *mocrelay.Event) []byte {
	return Canon(e.Pubkey, e.CreatedAt, e.Kind, tagsOf(e), e.Content)
}

// CanonID is the lowercase hex SHA-256 of the canonical form.
func CanonID(e *mocrelay.Event) string {
	h := sha256.Sum256(CanonEvent(e))
	return hex.EncodeToString(h[:])
}

func isLowerHex(s string, n int) bool {
	if len(s) != n {
		return false
	}
	for i := 0; i < len(s); i++ {
		c := s[i]
		if !(c >= '0' && c <= '9' || c >= 'a' && c <= 'f') {
			return false
		}
	}
	return true
}

// RefAuthentic is the reference decision of C01: the id is the SHA-256 of the canonical
// form and sig is a valid BIP-340 signature of the id under pubkey.
func RefAuthentic(e *mocrelay.Event) bool {
	if e == nil {
		return false
	}
	idb, err := hex.DecodeString(e.ID)
	if err != nil || len(idb) != 32 {
		return false
	}
	h := sha256.Sum256(CanonEvent(e))
	if string(idb) != string(h[:]) {
		return false
	}
	pk, err := hex.DecodeString(e.Pubkey)
	if err != nil || len(pk) != 32 {
		return false
	}
	sig, err := hex.DecodeString(e.Sig)
	if err != nil || len(sig) != 64 {
		return false
	}
	return BIP340Verify(pk, idb, sig)
}
