package c13_test

import (
	"bufio"
	"context"
	"database/sql"
	"fmt"
	"io"
	"log/slog"
	"math/rand/v2"
	"net"
	"net/http"
	"net/http/httptest"
	"path/filepath"
	"runtime"
	"strings"
	"sync"
	"sync/atomic"
	"testing"
	"time"

	"github.com/high-moctane/mocrelay"
	"github.com/high-moctane/mocrelay/handler/sqlite"
	vk "github.com/high-moctane/mocrelay/internal/verifkit"
	mprom "github.com/high-moctane/mocrelay/middleware/prometheus"
	_ "github.com/mattn/go-sqlite3"
	"github.com/prometheus/client_golang/prometheus"
)

// C13 — sessions always terminate and release everything when the peer goes away.

type c13Comp struct {
	h       mocrelay.Handler
	desc    string
	routers []*mocrelay.RouterHandler
	reg     *prometheus.Registry
	cleanup []func()
}

func c13Base(ctx context.Context, r *rand.Rand, t testing.TB, c *c13Comp, depth int) (mocrelay.Handler, string) {
	k := r.IntN(5)
	if depth > 1 && k == 4 {
		k = r.IntN(4)
	}
	switch k {
	case 0:
		return mocrelay.NewDefaultHandler(), "default"
	case 1:
		if r.IntN(4) == 0 {
			// a cache that already holds 70-1000 events: a REQ is answered with far more messages
			// than any small buffer holds, and the session may end anywhere inside the answer
			n := 70 + r.IntN(231)
			if r.IntN(2) == 0 {
				// several hundred: an answer long enough for any producer that hands it over in
				// chunks to be caught with most of it still unsent
				n = 300 + r.IntN(700)
			}
			h := mocrelay.NewCacheHandler(n + r.IntN(100))
			s := vk.StartSession(ctx, h, 0)
			for i := 0; i < n; i++ {
				e := vk.Seal(&mocrelay.Event{Kind: vk.Pick(r, []int64{1, 1, 7}), Pubkey: vk.FakePub(700 + r.IntN(3)), CreatedAt: int64(1000 + r.IntN(50)), Content: fmt.Sprintf("c13 stored %d", i), Tags: []mocrelay.Tag{{"t", vk.Pick(r, vk.SGTagValues)}}})
				if !s.Put(&mocrelay.ClientEventMsg{Event: e}) {
					break
				}
				s.Get()
			}
			s.Stop()
			return h, "cache(70-1000 stored)"
		}
		return mocrelay.NewCacheHandler(1 + r.IntN(20)), "cache"
	case 2:
		rt := mocrelay.NewRouterHandler(1 + r.IntN(8))
		c.routers = append(c.routers, rt)
		return rt, "router"
	case 3:
		db := openMemDB(t)
		hctx, cancel := context.WithCancel(ctx)
		h, err := sqlite.NewSQLiteHandler(hctx, db, &sqlite.SQLiteHandlerOption{EventBulkInsertNum: 1 + r.IntN(3), MaxLimit: sqlite.NoLimit})
		if err != nil {
			cancel()
			db.Close()
			return mocrelay.NewDefaultHandler(), "default"
		}
		c.cleanup = append(c.cleanup, func() { cancel(); time.Sleep(time.Millisecond); db.Close() })
		return h, "sqlite"
	default:
		n := 2 + r.IntN(3)
		hs := make([]mocrelay.Handler, n)
		ds := make([]string, n)
		for i := range hs {
			hs[i], ds[i] = c13Base(ctx, r, t, c, depth+1)
		}
		return mocrelay.NewMergeHandler(hs...), "merge(" + strings.Join(ds, ",") + ")"
	}
}

func c13Wrap(r *rand.Rand, c *c13Comp, h mocrelay.Handler) (mocrelay.Handler, string) {
	n := r.IntN(6)
	desc := ""
	for i := 0; i < n; i++ {
		var mw mocrelay.Middleware
		var name string
		switch r.IntN(15) {
		case 0:
			mw, name = mocrelay.Middleware(mocrelay.NewMaxSubscriptionsMiddleware(1+r.IntN(3))), "maxsubs"
		case 1:
			mw, name = mocrelay.Middleware(mocrelay.NewMaxReqFiltersMiddleware(1+r.IntN(3))), "maxfilters"
		case 2:
			mw, name = mocrelay.Middleware(mocrelay.NewMaxLimitMiddleware(1+r.IntN(100))), "maxlimit"
		case 3:
			mw, name = mocrelay.Middleware(mocrelay.NewMaxSubIDLengthMiddleware(1+r.IntN(20))), "maxsubid"
		case 4:
			mw, name = mocrelay.Middleware(mocrelay.NewMaxEventTagsMiddleware(1+r.IntN(5))), "maxtags"
		case 5:
			mw, name = mocrelay.Middleware(mocrelay.NewMaxContentLengthMiddleware(1+r.IntN(50))), "maxcontent"
		case 6:
			mw, name = mocrelay.Middleware(mocrelay.NewCreatedAtLowerLimitMiddleware(int64(1+r.IntN(1<<30)))), "lower"
		case 7:
			mw, name = mocrelay.Middleware(mocrelay.NewCreatedAtUpperLimitMiddleware(int64(1+r.IntN(1<<30)))), "upper"
		case 8:
			mw, name = mocrelay.Middleware(mocrelay.NewEventCreatedAtMiddleware(-1000000*time.Hour, time.Hour)), "window"
		case 9:
			mw, name = mocrelay.Middleware(mocrelay.NewRecvEventUniqueFilterMiddleware(1+r.IntN(4))), "recvuniq"
		case 10:
			mw, name = mocrelay.Middleware(mocrelay.NewSendEventUniqueFilterMiddleware(1+r.IntN(4))), "senduniq"
		case 11:
			m := mocrelay.NewReqFilterMatcher(&mocrelay.ReqFilter{Kinds: []int64{1, 7, 5, 30000}})
			if r.IntN(2) == 0 {
				mw, name = mocrelay.Middleware(mocrelay.NewRecvEventAllowFilterMiddleware(m)), "allow"
			} else {
				mw, name = mocrelay.Middleware(mocrelay.NewRecvEventDenyFilterMiddleware(mocrelay.NewReqFilterMatcher(&mocrelay.ReqFilter{Kinds: []int64{4}}))), "deny"
			}
		case 12:
			mw, name = mocrelay.Middleware(mocrelay.NewLoggingMiddleware(slog.New(slog.NewTextHandler(io.Discard, nil)))), "logging"
		case 13:
			if c.reg == nil {
				c.reg = prometheus.NewRegistry()
				mw, name = mocrelay.Middleware(mprom.NewPrometheusMiddleware(c.reg)), "prometheus"
			} else {
				continue
			}
		default:
			doc := &mocrelay.NIP11{Name: "x"}
			if r.IntN(3) != 0 {
				doc.Limitation = &mocrelay.NIP11Limitation{MaxSubscriptions: r.IntN(4), MaxFilters: r.IntN(4), MaxLimit: r.IntN(50), MaxEventTags: r.IntN(6), MaxContentLength: r.IntN(100)}
			}
			mw, name = mocrelay.BuildMiddlewareFromNIP11(doc), "nip11"
		}
		h = mw(h)
		desc = name + ">" + desc
	}
	return h, desc
}

func c13Messages(r *rand.Rand, g *vk.StoreGen, fg *vk.FilterGen, n int) []mocrelay.ClientMsg {
	var out []mocrelay.ClientMsg
	for i := 0; i < n; i++ {
		switch c := r.IntN(10); {
		case c < 4:
			e := g.Next()
			fg.Events = g.Offered
			out = append(out, &mocrelay.ClientEventMsg{Event: e})
		case c < 7:
			out = append(out, &mocrelay.ClientReqMsg{SubscriptionID: vk.Pick(r, []string{"a", "b", "c"}), ReqFilters: fg.Filters(2)})
		case c < 8:
			out = append(out, &mocrelay.ClientCloseMsg{SubscriptionID: vk.Pick(r, []string{"a", "b", "c"})})
		case c < 9:
			out = append(out, &mocrelay.ClientCountMsg{SubscriptionID: "n", ReqFilters: fg.Filters(2)})
		default:
			out = append(out, &mocrelay.ClientAuthMsg{Event: vk.Seal(&mocrelay.Event{Kind: 22242, Pubkey: g.Authors[0], CreatedAt: 1})})
		}
	}
	return out
}

func c13Gauges(reg *prometheus.Registry) (conn, req float64, ok bool) {
	if reg == nil {
		return 0, 0, false
	}
	mfs, err := reg.Gather()
	if err != nil {
		return 0, 0, false
	}
	for _, mf := range mfs {
		for _, m := range mf.GetMetric() {
			if m.GetGauge() == nil {
				continue
			}
			switch mf.GetName() {
			case "mocrelay_connection_count":
				conn = m.GetGauge().GetValue()
			case "mocrelay_req_count":
				req = m.GetGauge().GetValue()
			}
		}
	}
	return conn, req, true
}

func TestVerif_C13(t *testing.T) {
	rep := vk.NewReport(t, "C13", "exploration")
	rep.Rule = "seeded handler compositions (default, cache - one in four holding 70-1000 events already -, router, SQLite, merges of 2-4 of them nested once) wrapped in 0-5 of the provided middlewares (all limit middlewares, both unique filters, allow/deny, quota, logging, Prometheus, NIP-11 chain); a seeded client history is cut at a seeded point (before the first message .. after the last) by {cancel with a draining peer, cancel with a stalled peer, cancel with a peer that read 1-3 messages and then stalled, inbound close with a draining peer}; oracle: ServeNostr returns within the bound (a goroutine parked in mocrelay code is the witness), no goroutine started by mocrelay code during the session survives, router registries are empty again, connection/subscription gauges are back to 0; a router-backlog scenario (subscriber with 2..buffer deliveries queued reads 0-2 of them, stalls and is cancelled; run twice per handler); plus the WebSocket clause: a raw TCP peer that completes the handshake and never reads, handler flooding 60 kB messages, for send timeout x ping interval (incl. disabled) x start delay x {silent peer, peer that keeps sending binary / non-message text frames / valid REQs beyond the burst of a 0.02 per second receive rate limit}: the handler's session must end within 50 x send timeout and Relay.ServeHTTP must return; added later: 25/300 crowds on one router (holders, publishers without pause, sessions opening and closing their only subscription) that are all cancelled: every session returns, the registry is empty; non-trivial = a session with at least one message processed and a non-default base or a middleware; distinct = distinct (composition, ending, cut position bucket)"
	defer rep.Finish()
	ctx := context.Background()
	n := vk.N(600, 12000)
	// sequential: goroutine attribution needs a quiescent process
	for i := 0; i < n; i++ {
		if rep.Violations() >= 3 {
			break
		}
		r := vk.RNG("C13", i)
		comp := &c13Comp{}
		base, bdesc := c13Base(ctx, r, t, comp, 0)
		h, mdesc := c13Wrap(r, comp, base)
		comp.h, comp.desc = h, mdesc+bdesc
		g := vk.NewStoreGen(r, 2, 50)
		fg := &vk.FilterGen{R: r, Authors: g.Authors, TimeLo: g.TimeBase, TimeHi: g.TimeBase + 50}
		nsess := 1 + r.IntN(3)
		// a goroutine that survives a session counts as a leak only if it comes back: the
		// same session is repeated once, and survivors from the same go statement must
		// appear again (a worker that a handler starts once and keeps is not the session's)
		type probe struct {
			msgs   []mocrelay.ClientMsg
			cut    int
			ending int
			first  vk.Goroutine
		}
		var repeat *probe
		for sidx := 0; sidx < nsess; sidx++ {
			msgs := c13Messages(r, g, fg, r.IntN(14))
			cut := r.IntN(len(msgs) + 1)
			ending := r.IntN(4) // 0 cancel+draining, 1 cancel+stalled, 2 inbound close+draining, 3 cancel+peer reads a few messages and then stalls
			partial := int64(1 + r.IntN(3))
			probing := repeat
			if probing != nil {
				msgs, cut, ending = probing.msgs, probing.cut, probing.ending
				repeat = nil
			}
			before := vk.GoroutineIDs()
			// the session; a draining peer reads everything, a stalled one nothing
			sctx, scancel := context.WithCancel(ctx)
			recv := make(chan mocrelay.ClientMsg)
			send := make(chan mocrelay.ServerMsg)
			done := make(chan struct{})
			var serr error
			go func() { defer close(done); serr = h.ServeNostr(sctx, send, recv) }()
			stopDrain := make(chan struct{})
			var drained atomic.Int64
			var dwg sync.WaitGroup
			if ending != 1 {
				dwg.Add(1)
				go func() {
					defer dwg.Done()
					for {
						if ending == 3 && drained.Load() >= partial {
							<-stopDrain
							return
						}
						select {
						case <-send:
							drained.Add(1)
						case <-stopDrain:
							return
						}
					}
				}()
			}
			sent := 0
			for k := 0; k < cut; k++ {
				// a stalled peer may block the handler: give up feeding after a short while
				tmo := time.NewTimer(vk.WaitBound)
				if ending == 1 || ending == 3 {
					tmo.Reset(2 * time.Millisecond)
				}
				select {
				case recv <- msgs[k]:
					sent++
				case <-done:
				case <-tmo.C:
					k = cut
				}
				tmo.Stop()
			}
			endDesc := []string{"cancel, peer draining", "cancel, peer stalled", "inbound close, peer draining", "cancel, peer stalled after reading 1-3 messages"}[ending]
			if ending == 2 {
				close(recv)
			} else {
				scancel()
			}
			returned := true
			select {
			case <-done:
			case <-time.After(vk.WaitBound):
				returned = false
			}
			wit := func(extra map[string]any) map[string]any {
				var ms []string
				for _, m := range msgs[:min(cut, len(msgs))] {
					ms = append(ms, vk.DescribeClientMsg(m))
				}
				m := map[string]any{"composition": comp.desc, "session": sidx, "ending": endDesc, "messages_before_cut": ms, "messages_taken": sent}
				for k, v := range extra {
					m[k] = v
				}
				return m
			}
			rep.Eval(1)
			if !returned {
				if p := vk.ParkedInRepo(); p != nil {
					rep.Violation("termination/serve-did-not-return", "ServeNostr did not return after "+endDesc, wit(map[string]any{"parked_goroutine": p.Stack}))
				} else {
					rep.Inconclusive("C13: ServeNostr did not return within the bound but no goroutine is parked in mocrelay code (" + comp.desc + ")")
				}
				scancel()
				close(stopDrain)
				break
			}
			_ = serr
			// goroutines started by mocrelay code during this session must be gone, while
			// the caller's context is still alive in the inbound-close case
			leaked := vk.LeakedSince(before, vk.WaitBound/2)
			if len(leaked) > 0 {
				if probing == nil {
					// first sighting: repeat this very session once more
					repeat = &probe{msgs, cut, ending, leaked[0]}
					if sidx == nsess-1 {
						nsess++
					}
					rep.Count("sessions_repeated_after_a_surviving_goroutine", 1)
				} else {
					again := false
					for _, g2 := range leaked {
						if g2.CreatedBy == probing.first.CreatedBy {
							again = true
						}
					}
					if again {
						rep.Violation("leak/goroutine/"+leakSite(leaked[0]), fmt.Sprintf("every session of this kind leaves %d goroutine(s) started by mocrelay code behind after ServeNostr returned (%s)", len(leaked), endDesc),
							wit(map[string]any{"goroutine": leaked[0].Stack, "survivor_of_the_previous_identical_session": probing.first.Stack}))
					}
				}
			} else if probing != nil {
				rep.Count("background_goroutines_started_once", 1)
			}
			scancel()
			close(stopDrain)
			dwg.Wait()
			for _, rt := range comp.routers {
				conns, subs, ok := vk.PeekRouter(rt)
				if ok {
					rep.Count("registry_observations", 1)
				}
				if ok && (conns != 0 || subs != 0) {
					rep.Violation("leak/router-registry", fmt.Sprintf("after the session ended the router registry still holds %d connection(s) and %d subscription(s)", conns, subs), wit(nil))
				}
			}
			if cg, rq, ok := c13Gauges(comp.reg); ok && (cg != 0 || rq != 0) {
				rep.Violation("leak/gauges", fmt.Sprintf("after the session ended connection gauge = %v, subscription gauge = %v", cg, rq), wit(nil))
			}
			rep.Count("sessions", 1)
			rep.Count("ending:"+endDesc, 1)
			if sent > 0 && comp.desc != "default" {
				rep.Nontrivial(fmt.Sprintf("%s/%d/%d", comp.desc, ending, cut*4/(len(msgs)+1)))
			}
			rep.Seen("compositions", comp.desc)
			if drained.Load() > 0 {
				rep.Count("sessions_with_output_drained", 1)
			}
			if sent > 0 && rep.WantSample() {
				rep.Sample(wit(nil))
			}
		}
		for _, f := range comp.cleanup {
			f()
		}
	}

	// router backlog: a subscriber reads its EOSE, other sessions publish 2..buffer matching
	// events, the subscriber reads 0-2 of them and stops, then its session is cancelled while
	// deliveries are still queued for it. The scenario is run twice on the same handler: a
	// goroutine of the first run that is still there and has a sibling from the same go
	// statement after the second run is a leak of the session.
	nBack := vk.N(60, 800)
	for i := 0; i < nBack && rep.Violations() < 3; i++ {
		r := vk.RNG("C13/backlog", i)
		buf := 2 + r.IntN(8)
		rt := mocrelay.NewRouterHandler(buf)
		var h mocrelay.Handler = rt
		desc := fmt.Sprintf("router(%d)", buf)
		switch r.IntN(3) {
		case 1:
			h, desc = mocrelay.NewMergeHandler(mocrelay.NewCacheHandler(10), rt), "merge(cache(10),"+desc+")"
		case 2:
			h, desc = mocrelay.NewMaxSubscriptionsMiddleware(5)(rt), "maxsubs(5)("+desc+")"
		}
		g := vk.NewStoreGen(r, 2, 50)
		g.NoDeletion, g.NoEphemeral = true, true
		var firstLeak *vk.Goroutine
		for round := 0; round < 2; round++ {
			before := vk.GoroutineIDs()
			a := vk.StartSession(ctx, h, 0)
			bad := ""
			if !a.Put(&mocrelay.ClientReqMsg{SubscriptionID: "backlog", ReqFilters: []*mocrelay.ReqFilter{{}}}) {
				bad = "the REQ was not taken"
			}
			for bad == "" {
				m, ok := a.Get()
				if !ok {
					bad = "no EOSE"
					break
				}
				if _, is := m.(*mocrelay.ServerEOSEMsg); is {
					break
				}
			}
			b := vk.StartSession(ctx, h, 0)
			npub := 2 + r.IntN(buf+4) // up to a few more than the subscriber's buffer holds
			publisherStuck := false
			for k := 0; k < npub && bad == ""; k++ {
				ev := g.Next()
				// a publisher that is held up by the stalled subscriber is C07's business; here the
				// scenario simply goes on: the subscriber's session must still end when cancelled
				if !b.PutWithin(&mocrelay.ClientEventMsg{Event: ev}, time.Second) {
					publisherStuck = true
					break
				}
				if _, ok := b.GetWithin(time.Second); !ok {
					publisherStuck = true
					break
				}
			}
			if publisherStuck {
				rep.Count("backlog_scenarios_with_a_publisher_held_up", 1)
			}
			nread := r.IntN(3)
			for k := 0; k < nread && bad == ""; k++ {
				if _, ok := a.GetWithin(2 * time.Second); !ok {
					nread = k
					break
				}
			}
			if bad != "" {
				// not this property's business (C07 judges delivery); without the backlog the scenario says nothing
				rep.Count("backlog_scenarios_not_set_up", 1)
				a.Stop()
				b.Stop()
				break
			}
			wit := map[string]any{"composition": desc, "published": npub, "read_by_the_subscriber_before_it_stalled": nread, "round": round}
			rep.Eval(1)
			if !a.Stop() {
				if p := vk.ParkedInRepo(); p != nil {
					wit["parked_goroutine"] = p.Stack
					rep.Violation("termination/serve-did-not-return/router-backlog", "ServeNostr did not return after cancel while deliveries were queued for a peer that had stopped reading", wit)
				} else {
					rep.Inconclusive("C13: backlog session did not return within the bound, no goroutine parked in mocrelay code")
				}
				b.Stop()
				break
			}
			b.Stop()
			leaked := vk.LeakedSince(before, vk.WaitBound/2)
			if conns, subs, ok := vk.PeekRouter(rt); ok && (conns != 0 || subs != 0) {
				rep.Violation("leak/router-registry", fmt.Sprintf("after both sessions ended the router registry still holds %d connection(s) and %d subscription(s)", conns, subs), wit)
			}
			if len(leaked) > 0 {
				if firstLeak == nil {
					firstLeak = &leaked[0]
				} else {
					for _, g2 := range leaked {
						if g2.CreatedBy == firstLeak.CreatedBy {
							wit["goroutine"] = g2.Stack
							wit["survivor_of_the_first_round"] = firstLeak.Stack
							rep.Violation("leak/goroutine/"+leakSite(g2), "a session cancelled while deliveries were queued for its stalled peer leaves a goroutine behind, every time", wit)
							break
						}
					}
				}
			}
			rep.Count("router_backlog_sessions", 1)
			rep.Nontrivial(fmt.Sprintf("backlog/%s/%d/%d", desc, npub, nread))
		}
	}

	// SQLite handler with a stalled bulk inserter: another connection holds the write
	// lock, the insert queue fills up, and the session is cancelled while an EVENT is
	// waiting for room in the queue
	nStall := vk.N(3, 24)
	vk.ParallelW(8, nStall, func(i int) {
		r := vk.RNG("C13/stall", i)
		path := filepath.Join(t.TempDir(), fmt.Sprintf("stall%d.db", i))
		dbA, err := sql.Open("sqlite3", "file:"+path+"?_busy_timeout=120000")
		if err != nil {
			return
		}
		defer dbA.Close()
		hctx, hcancel := context.WithCancel(ctx)
		defer hcancel()
		nbulk := 1 + r.IntN(2)
		h, err := sqlite.NewSQLiteHandler(hctx, dbA, &sqlite.SQLiteHandlerOption{EventBulkInsertNum: nbulk, MaxLimit: sqlite.NoLimit})
		if err != nil {
			rep.Inconclusive("C13: could not create the SQLite handler on a file database: " + err.Error())
			return
		}
		dbB, err := sql.Open("sqlite3", "file:"+path+"?_busy_timeout=50")
		if err != nil {
			return
		}
		defer dbB.Close()
		lockConn, err := dbB.Conn(ctx)
		if err != nil {
			return
		}
		defer lockConn.Close()
		if _, err := lockConn.ExecContext(ctx, "BEGIN EXCLUSIVE"); err != nil {
			rep.Inconclusive("C13: could not take the database lock: " + err.Error())
			return
		}
		defer lockConn.ExecContext(ctx, "ROLLBACK")
		s := vk.StartSession(ctx, h, 64)
		g := vk.NewStoreGen(r, 2, 50)
		g.NoEphemeral = true
		taken := 0
		for k := 0; k < 4*nbulk+4; k++ {
			tmo := time.NewTimer(300 * time.Millisecond)
			select {
			case s.Recv <- &mocrelay.ClientEventMsg{Event: g.Next()}:
				taken++
			case <-tmo.C:
				k = 1 << 20
			}
			tmo.Stop()
		}
		rep.Eval(1)
		if !s.Stop() {
			if p := vk.ParkedInRepo(); p != nil {
				rep.Violation("termination/serve-did-not-return/sqlite-inserter-stalled", "ServeNostr of the SQLite handler did not return after cancel while the bulk inserter was stalled and the queue full", map[string]any{"events_taken": taken, "bulk": nbulk, "parked_goroutine": p.Stack})
			} else {
				rep.Inconclusive("C13: SQLite session did not return within the bound, no parked goroutine found")
			}
			return
		}
		rep.Count("sqlite_stalled_inserter_sessions", 1)
		rep.Nontrivial(fmt.Sprintf("stall/%d/%d", nbulk, taken))
	})

	// SQLite handler after a query it could not answer (tens of thousands of ids): the
	// session must still end when the inbound channel is closed (peer draining) or the
	// context is cancelled
	nQ := vk.N(4, 24)
	vk.ParallelW(4, nQ, func(i int) {
		db := openMemDB(t)
		defer db.Close()
		hctx, hcancel := context.WithCancel(ctx)
		defer hcancel()
		h, err := sqlite.NewSQLiteHandler(hctx, db, &sqlite.SQLiteHandlerOption{EventBulkInsertNum: 1, MaxLimit: sqlite.NoLimit})
		if err != nil {
			return
		}
		s := vk.StartSession(ctx, h, 4)
		ids := make([]string, 33000)
		for k := range ids {
			ids[k] = vk.HexOf(fmt.Sprintf("c13 absent %d %d", i, k))
		}
		s.Put(&mocrelay.ClientReqMsg{SubscriptionID: "big", ReqFilters: []*mocrelay.ReqFilter{{IDs: ids}}})
		for {
			m, ok := s.Get()
			if !ok {
				rep.Inconclusive("C13: REQ with 33000 ids not answered")
				s.Stop()
				return
			}
			if _, is := m.(*mocrelay.ServerEOSEMsg); is {
				break
			}
		}
		stop := make(chan struct{})
		go func() {
			for {
				select {
				case <-s.Send:
				case <-stop:
					return
				}
			}
		}()
		defer close(stop)
		rep.Eval(1)
		ending := "inbound close, peer draining"
		if i%2 == 0 {
			s.CloseRecv()
		} else {
			ending = "cancel, peer draining"
			s.Cancel()
		}
		if !s.WaitDone() {
			if p := vk.ParkedInRepo(); p != nil {
				rep.Violation("termination/serve-did-not-return/after-failed-query", "ServeNostr of the SQLite handler did not return after "+ending+" in a session whose REQ named 33000 ids", map[string]any{"parked_goroutine": p.Stack})
			} else {
				rep.Inconclusive("C13: SQLite session did not return after a huge REQ, no parked goroutine found")
			}
			s.Cancel()
			return
		}
		rep.Count("sqlite_sessions_after_unanswerable_query", 1)
		rep.Nontrivial("bigquery/" + ending)
	})

	// several sessions at once on one router - some hold a subscription, one or two publish
	// without pause, two open and close their only subscription in a loop - and then all of
	// them are cancelled: every one must return, and the registry must be empty afterwards
	nCrowd := vk.N(25, 300)
	for i := 0; i < nCrowd && rep.Violations() < 3; i++ {
		r := vk.RNG("C13/crowd", i)
		rt := mocrelay.NewRouterHandler(1 + r.IntN(8))
		var h mocrelay.Handler = rt
		desc := "router"
		if r.IntN(3) == 0 {
			h, desc = mocrelay.NewMergeHandler(mocrelay.NewCacheHandler(10), rt), "merge(cache(10),router)"
		}
		var stop atomic.Bool
		var sessions []*vk.Session
		var wg sync.WaitGroup
		start := func(script func(s *vk.Session, rr *rand.Rand), k int) {
			s := vk.StartSession(ctx, h, 0)
			sessions = append(sessions, s)
			wg.Add(2)
			go func() { // the peer keeps reading until its session is over
				defer wg.Done()
				for {
					select {
					case <-s.Send:
					case <-s.Done:
						return
					}
				}
			}()
			go func() {
				defer wg.Done()
				script(s, vk.RNG("C13/crowd/s", i*16+k))
			}()
		}
		put := func(s *vk.Session, m mocrelay.ClientMsg) bool { return s.PutWithin(m, vk.WaitBound) }
		k := 0
		for n := 2 + r.IntN(6); n > 0; n-- { // holders
			start(func(s *vk.Session, rr *rand.Rand) {
				put(s, &mocrelay.ClientReqMsg{SubscriptionID: "hold", ReqFilters: []*mocrelay.ReqFilter{{}}})
			}, k)
			k++
		}
		for n := 1 + r.IntN(2); n > 0; n-- { // publishers
			start(func(s *vk.Session, rr *rand.Rand) {
				for j := 0; !stop.Load(); j++ {
					e := vk.Seal(&mocrelay.Event{Kind: 1, Pubkey: vk.FakePub(rr.IntN(3)), CreatedAt: int64(1000 + j), Content: fmt.Sprintf("c13 crowd %d %d", i, rr.Uint32()), Tags: []mocrelay.Tag{}})
					if !put(s, &mocrelay.ClientEventMsg{Event: e}) {
						return
					}
				}
			}, k)
			k++
		}
		for n := 2; n > 0; n-- { // togglers
			start(func(s *vk.Session, rr *rand.Rand) {
				for !stop.Load() {
					if !put(s, &mocrelay.ClientReqMsg{SubscriptionID: "x", ReqFilters: []*mocrelay.ReqFilter{{}}}) || !put(s, &mocrelay.ClientCloseMsg{SubscriptionID: "x"}) {
						return
					}
					if rr.IntN(4) == 0 {
						runtime.Gosched()
					}
				}
			}, k)
			k++
		}
		time.Sleep(time.Duration(5+r.IntN(25)) * time.Millisecond)
		stop.Store(true)
		for _, s := range sessions {
			s.Cancel()
		}
		rep.Eval(1)
		stuck := 0
		for _, s := range sessions {
			if !s.WaitDone() {
				stuck++
			}
		}
		if stuck > 0 {
			if p := vk.ParkedInRepo(); p != nil {
				rep.Violation("termination/serve-did-not-return/concurrent-sessions", fmt.Sprintf("%d of %d sessions on one %s did not return after all were cancelled (holders, publishers and sessions opening and closing their only subscription were running at once)", stuck, len(sessions), desc), map[string]any{"composition": desc, "sessions": len(sessions), "parked_goroutine": p.Stack})
			} else {
				rep.Inconclusive("C13: sessions of the crowd scenario did not return within the bound but no goroutine is parked in mocrelay code")
			}
			break // the parked goroutines stay: nothing after this can be attributed
		}
		wg.Wait()
		if conns, subs, ok := vk.PeekRouter(rt); ok && (conns != 0 || subs != 0) {
			rep.Violation("leak/router-registry/concurrent-sessions", fmt.Sprintf("after %d concurrent sessions on one %s had all ended the router registry still holds %d connection(s) and %d subscription(s)", len(sessions), desc, conns, subs), map[string]any{"composition": desc})
			break
		}
		rep.Count("crowd_scenarios", 1)
		rep.Nontrivial(fmt.Sprintf("crowd/%s/%d", desc, len(sessions)))
	}
	rep.Require(rep.Violations() > 0 || rep.Counter("crowd_scenarios") >= int64(nCrowd*9/10), "crowd scenarios")

	// WebSocket clause
	type wsCase struct {
		sendTimeout, ping, delay time.Duration
		noise                    int // 0: the peer is silent; 1: it keeps sending binary frames; 2: text frames that are not client messages; 3: valid REQs beyond the burst of a very low receive rate limit
	}
	var cases []wsCase
	for _, st := range []time.Duration{50 * time.Millisecond, 200 * time.Millisecond} {
		for _, pg := range []time.Duration{0, 20 * time.Millisecond, time.Hour} {
			for _, dl := range []time.Duration{0, 70 * time.Millisecond} {
				cases = append(cases, wsCase{st, pg, dl, 0})
				cases = append(cases, wsCase{st, pg, dl, 1 + len(cases)/2%3})
			}
		}
	}
	reps := vk.N(1, 4)
	var wg sync.WaitGroup
	for rp := 0; rp < reps; rp++ {
		for ci, c := range cases {
			wg.Add(1)
			go func(ci int, c wsCase) {
				defer wg.Done()
				ended := make(chan struct{})
				var once sync.Once
				started := make(chan struct{}, 1)
				h := mocrelay.HandlerFunc(func(ctx context.Context, send chan<- mocrelay.ServerMsg, recv <-chan mocrelay.ClientMsg) error {
					defer once.Do(func() { close(ended) })
					select {
					case started <- struct{}{}:
					default:
					}
					select {
					case <-time.After(c.delay):
					case <-ctx.Done():
						return ctx.Err()
					}
					big := mocrelay.NewServerNoticeMsg(strings.Repeat("x", 60000))
					for {
						select {
						case send <- big:
						case _, ok := <-recv: // keeps taking input, so that the read loop is never parked on the handler
							if !ok {
								recv = nil
							}
						case <-ctx.Done():
							return ctx.Err()
						}
					}
				})
				opt := mocrelay.NewDefaultRelayOption()
				opt.SendTimeout = c.sendTimeout
				opt.PingDuration = c.ping
				if c.noise == 3 {
					// the read loop spends its time waiting for the rate limiter
					opt.RecvRateLimitRate = 0.02
					opt.RecvRateLimitBurst = 2
				}
				rl := mocrelay.NewRelay(h, opt)
				httpDone := make(chan struct{})
				var httpOnce sync.Once
				srv := httptest.NewServer(http.HandlerFunc(func(w http.ResponseWriter, rq *http.Request) {
					defer httpOnce.Do(func() { close(httpDone) })
					rl.ServeHTTP(w, rq)
				}))
				hung := false
				defer func() {
					if !hung { // Close waits for ServeHTTP
						srv.Close()
					}
				}()
				conn, err := net.Dial("tcp", strings.TrimPrefix(srv.URL, "http://"))
				if err != nil {
					rep.Inconclusive("C13: dial failed")
					return
				}
				defer conn.Close()
				if tc, ok := conn.(*net.TCPConn); ok {
					tc.SetReadBuffer(4096)
				}
				fmt.Fprintf(conn, "GET / HTTP/1.1\r\nHost: x\r\nUpgrade: websocket\r\nConnection: Upgrade\r\nSec-WebSocket-Key: dGhlIHNhbXBsZSBub25jZQ==\r\nSec-WebSocket-Version: 13\r\n\r\n")
				br := bufio.NewReaderSize(conn, 512)
				conn.SetReadDeadline(time.Now().Add(vk.WaitBound))
				status, err := br.ReadString('\n')
				if err != nil || !strings.Contains(status, "101") {
					rep.Inconclusive("C13: websocket handshake failed: " + status)
					return
				}
				for {
					l, err := br.ReadString('\n')
					if err != nil || l == "\r\n" {
						break
					}
				}
				// from here on the peer never reads again; a noisy one keeps sending frames the relay refuses
				if c.noise != 0 {
					go func() {
						frame := []byte{0x82, 0x81, 0, 0, 0, 0, 'x'} // masked (key 0) binary frame
						if c.noise == 2 {
							frame = append([]byte{0x81, 0x88, 0, 0, 0, 0}, "not json"...)
						}
						if c.noise == 3 {
							req := `["REQ","a",{}]`
							frame = append([]byte{0x81, 0x80 | byte(len(req)), 0, 0, 0, 0}, req...)
						}
						for {
							conn.SetWriteDeadline(time.Now().Add(time.Second))
							if _, err := conn.Write(frame); err != nil {
								return
							}
							time.Sleep(3 * time.Millisecond)
						}
					}()
				}
				select {
				case <-started:
				case <-time.After(vk.WaitBound):
					rep.Inconclusive("C13: handler session did not start")
					return
				}
				t0 := time.Now()
				bound := 50*c.sendTimeout + c.delay + 2*time.Second
				desc := fmt.Sprintf("send timeout %v, ping %v, handler starts flooding after %v, peer %s", c.sendTimeout, c.ping, c.delay, []string{"silent", "sends binary frames", "sends non-message text frames", "sends REQs beyond the burst of a 0.02/s receive rate limit"}[c.noise])
				rep.Eval(1)
				select {
				case <-ended:
					rep.Count("websocket_stalled_peer_dropped", 1)
					rep.Nontrivial("ws/" + desc)
					rep.Set(fmt.Sprintf("ws_drop_ms[%s]", desc), time.Since(t0).Milliseconds())
					// the relay's side of the session (ServeHTTP and its read/write loops) must be gone too
					select {
					case <-httpDone:
						rep.Count("websocket_relay_sessions_torn_down", 1)
					case <-time.After(vk.WaitBound):
						hung = true
						if p := vk.ParkedInRepo(); p != nil {
							rep.Violation("websocket/relay-session-not-torn-down", "the handler's session ended after the stalled peer was dropped, but Relay.ServeHTTP never returned ("+desc+")", map[string]any{"options": desc, "parked_goroutine": p.Stack})
						} else {
							rep.Inconclusive("C13: Relay.ServeHTTP did not return within the bound, no goroutine parked in mocrelay code (" + desc + ")")
						}
					}
				case <-time.After(bound):
					g := ""
					for _, x := range vk.Goroutines() {
						if strings.Contains(x.Stack, "serveWriteLoop") {
							g = x.Stack
						}
					}
					sig := "websocket/stalled-peer-not-dropped"
					if c.ping == 0 {
						sig += "/ping-disabled"
					}
					hung = true
					rep.Violation(sig, fmt.Sprintf("a peer that never reads was not dropped within %v (%s)", bound, desc), map[string]any{"options": desc, "write_loop": g})
				}
			}(ci, c)
		}
		wg.Wait()
	}
	rep.Require(rep.Counter("sessions") >= int64(n), "sessions")
	if rep.Counter("registry_observations") == 0 {
		rep.Inconclusive("C13: the router registry could not be observed by reflection (structure changed); the registry clause was not judged")
	}
	rep.Require(rep.SetSize("compositions") >= 100, "distinct compositions")
	for _, e := range []string{"cancel, peer draining", "cancel, peer stalled", "inbound close, peer draining", "cancel, peer stalled after reading 1-3 messages"} {
		rep.Require(rep.Counter("ending:"+e) >= int64(n/6), "ending "+e)
	}
	rep.Require(rep.Counter("router_backlog_sessions") >= int64(nBack), "router backlog sessions")
	rep.Require(rep.Counter("sqlite_stalled_inserter_sessions") >= int64(nStall*2/3), "stalled-inserter sessions")
	rep.Require(rep.Counter("websocket_stalled_peer_dropped") >= int64(len(cases)*reps*3/4), "websocket runs")
}

func leakSite(g vk.Goroutine) string {
	f := g.CreatedBy
	if i := strings.LastIndex(f, "/"); i >= 0 {
		f = f[i+1:]
	}
	return strings.NewReplacer("(", "", ")", "", "*", "").Replace(f)
}

var c13DBSeq atomic.Int64

// openMemDB opens a private shared-cache in-memory database with one connection.
func openMemDB(t testing.TB) *sql.DB {
	name := fmt.Sprintf("file:verif_c13_%d_%d?mode=memory&cache=shared", c13DBSeq.Add(1), vk.Seed())
	db, err := sql.Open("sqlite3", name)
	if err != nil {
		t.Fatalf("open: %v", err)
	}
	db.SetMaxOpenConns(1)
	return db
}
