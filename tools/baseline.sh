#!/bin/sh
# Runs the repository's own suite with the guard OFF and compares with BASELINE.json.
cd ${VERIF_REPO:-/repo} || exit 2
GOFLAGS=-mod=mod GOPROXY=off go test -json -vet=off -count=1 -timeout 25m ./... > /tmp/baseline.$$.json 2>/tmp/baseline.$$.err
python3 - /tmp/baseline.$$.json <<'PY'
import json,sys
base=set(json.load(open('/root/.vp/BASELINE.json'))['stable_pass'])
res={}
for l in open(sys.argv[1]):
    try: o=json.loads(l)
    except: continue
    if o.get('Test') and o.get('Action') in('pass','fail','skip'):
        res[o['Package']+'::'+o['Test']]=o['Action']
missing=[t for t in base if res.get(t)!='pass']
print('baseline: %d/%d stable tests pass; failing/missing: %s'%(len(base)-len(missing),len(base),missing[:10]))
sys.exit(1 if missing else 0)
PY
rc=$?
rm -f /tmp/baseline.$$.json /tmp/baseline.$$.err
exit $rc
