package verifkit

import (
	"crypto/sha256"
	"encoding/hex"
	"fmt"
	"math/big"
	"sync"
)

// An independent BIP-340 verifier over math/big (Jacobian coordinates), written from
// the BIP text. It shares no code with btcec, which is what the repository uses.

var (
	secpP, _  = new(big.Int).SetString("FFFFFFFFFFFFFFFFFFFFFFFFFFFFFFFFFFFFFFFFFFFFFFFFFFFFFFFEFFFFFC2F", 16)
	secpN, _  = new(big.Int).SetString("FFFFFFFFFFFFFFFFFFFFFFFFFFFFFFFEBAAEDCE6AF48A03BBFD25E8CD0364141", 16)
	secpGx, _ = new(big.Int).SetString("79BE667EF9DCBBAC55A06295CE870B07029BFCDB2DCE28D959F2815B16F81798", 16)
	secpGy, _ = new(big.Int).SetString("483ADA7726A3C4655DA4FBFC0E1108A8FD17B448A68554199C47D08FFB10D4B8", 16)
	// (p+1)/4 for square roots, p = 3 mod 4
	secpSqrtExp = new(big.Int).Rsh(new(big.Int).Add(secpP, big.NewInt(1)), 2)
)

type jpoint struct{ x, y, z *big.Int } // z == 0 <=> infinity

func jInf() jpoint { return jpoint{new(big.Int), big.NewInt(1), new(big.Int)} }

func modp(v *big.Int) *big.Int { return v.Mod(v, secpP) }

func jDouble(a jpoint) jpoint {
	if a.z.Sign() == 0 || a.y.Sign() == 0 {
		return jInf()
	}
	// a = 0 curve: standard dbl-2009-l
	A := modp(new(big.Int).Mul(a.x, a.x))
	B := modp(new(big.Int).Mul(a.y, a.y))
	C := modp(new(big.Int).Mul(B, B))
	t := new(big.Int).Add(a.x, B)
	t = modp(t.Mul(t, t))
	t.Sub(t, A)
	t.Sub(t, C)
	D := modp(t.Lsh(t, 1))
	E := modp(new(big.Int).Mul(big.NewInt(3), A))
	F := modp(new(big.Int).Mul(E, E))
	x3 := new(big.Int).Sub(F, new(big.Int).Lsh(D, 1))
	modp(x3)
	y3 := new(big.Int).Sub(D, x3)
	y3.Mul(E, y3)
	y3.Sub(y3, new(big.Int).Lsh(C, 3))
	modp(y3)
	z3 := new(big.Int).Mul(a.y, a.z)
	z3.Lsh(z3, 1)
	modp(z3)
	return jpoint{x3, y3, z3}
}

func jAdd(a, b jpoint) jpoint {
	if a.z.Sign() == 0 {
		return b
	}
	if b.z.Sign() == 0 {
		return a
	}
	z1z1 := modp(new(big.Int).Mul(a.z, a.z))
	z2z2 := modp(new(big.Int).Mul(b.z, b.z))
	u1 := modp(new(big.Int).Mul(a.x, z2z2))
	u2 := modp(new(big.Int).Mul(b.x, z1z1))
	s1 := new(big.Int).Mul(a.y, b.z)
	s1 = modp(s1.Mul(s1, z2z2))
	s2 := new(big.Int).Mul(b.y, a.z)
	s2 = modp(s2.Mul(s2, z1z1))
	if u1.Cmp(u2) == 0 {
		if s1.Cmp(s2) != 0 {
			return jInf()
		}
		return jDouble(a)
	}
	h := modp(new(big.Int).Sub(u2, u1))
	rr := modp(new(big.Int).Sub(s2, s1))
	h2 := modp(new(big.Int).Mul(h, h))
	h3 := modp(new(big.Int).Mul(h2, h))
	u1h2 := modp(new(big.Int).Mul(u1, h2))
	x3 := new(big.Int).Mul(rr, rr)
	x3.Sub(x3, h3)
	x3.Sub(x3, new(big.Int).Lsh(u1h2, 1))
	modp(x3)
	y3 := new(big.Int).Sub(u1h2, x3)
	y3.Mul(rr, y3)
	y3.Sub(y3, new(big.Int).Mul(s1, h3))
	modp(y3)
	z3 := new(big.Int).Mul(a.z, b.z)
	z3 = modp(z3.Mul(z3, h))
	return jpoint{x3, y3, z3}
}

func jMul(k *big.Int, p jpoint) jpoint {
	r := jInf()
	for i := k.BitLen() - 1; i >= 0; i-- {
		r = jDouble(r)
		if k.Bit(i) == 1 {
			r = jAdd(r, p)
		}
	}
	return r
}

func jAffine(p jpoint) (x, y *big.Int, ok bool) {
	if p.z.Sign() == 0 {
		return nil, nil, false
	}
	zi := new(big.Int).ModInverse(p.z, secpP)
	zi2 := modp(new(big.Int).Mul(zi, zi))
	x = modp(new(big.Int).Mul(p.x, zi2))
	y = new(big.Int).Mul(p.y, zi2)
	y = modp(y.Mul(y, zi))
	return x, y, true
}

func liftX(x *big.Int) (jpoint, bool) {
	if x.Cmp(secpP) >= 0 {
		return jpoint{}, false
	}
	c := new(big.Int).Exp(x, big.NewInt(3), secpP)
	c.Add(c, big.NewInt(7))
	modp(c)
	y := new(big.Int).Exp(c, secpSqrtExp, secpP)
	if new(big.Int).Exp(y, big.NewInt(2), secpP).Cmp(c) != 0 {
		return jpoint{}, false
	}
	if y.Bit(0) == 1 {
		y.Sub(secpP, y)
	}
	return jpoint{new(big.Int).Set(x), y, big.NewInt(1)}, true
}

func taggedHash(tag string, parts ...[]byte) []byte {
	th := sha256.Sum256([]byte(tag))
	h := sha256.New()
	h.Write(th[:])
	h.Write(th[:])
	for _, p := range parts {
		h.Write(p)
	}
	return h.Sum(nil)
}

// BIP340Verify implements the "Verification" algorithm of BIP-340 for a 32-byte
// public key, an arbitrary message and a 64-byte signature.
func BIP340Verify(pk, msg, sig []byte) bool {
	bip340SelfTest()
	return bip340Verify(pk, msg, sig)
}

func bip340Verify(pk, msg, sig []byte) bool {
	if len(pk) != 32 || len(sig) != 64 {
		return false
	}
	P, ok := liftX(new(big.Int).SetBytes(pk))
	if !ok {
		return false
	}
	r := new(big.Int).SetBytes(sig[:32])
	s := new(big.Int).SetBytes(sig[32:])
	if r.Cmp(secpP) >= 0 || s.Cmp(secpN) >= 0 {
		return false
	}
	e := new(big.Int).SetBytes(taggedHash("BIP0340/challenge", sig[:32], pk, msg))
	e.Mod(e, secpN)
	G := jpoint{secpGx, secpGy, big.NewInt(1)}
	ne := new(big.Int).Sub(secpN, e)
	ne.Mod(ne, secpN)
	// R = s*G + (n-e)*P in one double-and-add pass (Shamir's trick)
	GP := jAdd(G, P)
	R := jInf()
	for i := 255; i >= 0; i-- {
		R = jDouble(R)
		switch sb, eb := s.Bit(i), ne.Bit(i); {
		case sb == 1 && eb == 1:
			R = jAdd(R, GP)
		case sb == 1:
			R = jAdd(R, G)
		case eb == 1:
			R = jAdd(R, P)
		}
	}
	x, y, ok := jAffine(R)
	if !ok {
		return false
	}
	if y.Bit(0) == 1 {
		return false
	}
	return x.Cmp(r) == 0
}

var bip340Once sync.Once

// bip340SelfTest checks the verifier against the official vectors once per process.
func bip340SelfTest() {
	bip340Once.Do(func() {
		for i, v := range bip340Vectors {
			pk, _ := hex.DecodeString(v.Pub)
			msg, _ := hex.DecodeString(v.Msg)
			sig, _ := hex.DecodeString(v.Sig)
			if got := bip340Verify(pk, msg, sig); got != v.Valid {
				panic(fmt.Sprintf("verifkit: BIP-340 self-test failed on vector %d: got %v want %v", i, got, v.Valid))
			}
		}
	})
}
