package mocrelay_test

import (
	"bytes"
	"encoding/json"
	"fmt"
	"io"
	"math/big"
	"reflect"
	"sort"
	"strings"
	"unicode"
	"unicode/utf8"

	"github.com/high-moctane/mocrelay"
)

// C11 — the reference validator. It is written from the property statement and NIP-01
// over a generic JSON tree (encoding/json into `any` with UseNumber); it shares nothing
// with message.go. Its verdict is three-valued:
//   bad  : the text breaks a constraint the statement names  -> must be rejected
//   open : no such break, but the text has a feature the statement does not decide
//          (DESIGN.md "Not claimed")                          -> never judged
//   else : well-formed                                        -> must be accepted

type c11Verdict struct {
	bad  []string
	open []string
}

func (v *c11Verdict) Bad(c string)  { v.bad = append(v.bad, c) }
func (v *c11Verdict) Open(c string) { v.open = append(v.open, c) }
func (v *c11Verdict) Class() string {
	switch {
	case len(v.bad) > 0:
		return "bad"
	case len(v.open) > 0:
		return "open"
	}
	return "wf"
}

func c11Decode(text string) (any, error) {
	dec := json.NewDecoder(strings.NewReader(text))
	dec.UseNumber()
	var v any
	if err := dec.Decode(&v); err != nil {
		return nil, err
	}
	if _, err := dec.Token(); err != io.EOF {
		return nil, fmt.Errorf("trailing data after the JSON value")
	}
	return v, nil
}

func c11IsHex(s string, n int) bool {
	if len(s) != n {
		return false
	}
	for i := 0; i < len(s); i++ {
		c := s[i]
		if !(c >= '0' && c <= '9' || c >= 'a' && c <= 'f') {
			return false
		}
	}
	return true
}

// c11Int classifies a JSON number token.
//
//	"int"  : -?(0|[1-9][0-9]*) — value returned
//	"open" : exponent form, "-0", or a fraction of zeros only (integral value in a form the statement does not decide)
//	"frac" : a genuine fraction
func c11Int(n json.Number) (*big.Int, string) {
	s := string(n)
	if strings.ContainsAny(s, "eE") {
		return nil, "open"
	}
	if i := strings.IndexByte(s, '.'); i >= 0 {
		if strings.Trim(s[i+1:], "0") == "" {
			return nil, "open"
		}
		return nil, "frac"
	}
	if s == "-0" {
		return nil, "open"
	}
	v, ok := new(big.Int).SetString(s, 10)
	if !ok {
		return nil, "frac"
	}
	return v, "int"
}

var (
	c11MaxKind  = big.NewInt(65535)
	c11MaxInt64 = new(big.Int).SetUint64(1<<63 - 1)
	c11Zero     = big.NewInt(0)
)

func c11RefKind(v *c11Verdict, x any, where string) {
	n, ok := x.(json.Number)
	if !ok {
		v.Bad(where + "-type")
		return
	}
	i, cl := c11Int(n)
	switch cl {
	case "open":
		v.Open("number-form")
	case "frac":
		v.Bad(where + "-fraction")
	default:
		if i.Cmp(c11Zero) < 0 || i.Cmp(c11MaxKind) > 0 {
			v.Bad(where + "-range")
		}
	}
}

// c11RefAddr: kind:pubkey:d for any d (d may contain ':').
func c11RefAddr(v *c11Verdict, s string) {
	i := strings.IndexByte(s, ':')
	if i < 0 {
		v.Bad("filter/a-form")
		return
	}
	j := strings.IndexByte(s[i+1:], ':')
	if j < 0 {
		v.Bad("filter/a-form")
		return
	}
	k, pk := s[:i], s[i+1:i+1+j]
	digits := k
	signed := false
	if strings.HasPrefix(k, "+") || strings.HasPrefix(k, "-") {
		digits = k[1:]
		signed = true
	}
	if digits == "" || strings.Trim(digits, "0123456789") != "" {
		v.Bad("filter/a-kind")
	} else {
		n, _ := new(big.Int).SetString(k, 10)
		switch {
		case n == nil || n.Cmp(c11Zero) < 0 || n.Cmp(c11MaxKind) > 0:
			v.Bad("filter/a-kind")
		case signed || (len(digits) > 1 && digits[0] == '0'):
			v.Open("a-kind-form")
		}
	}
	if !c11IsHex(pk, 64) {
		v.Bad("filter/a-pubkey")
	}
}

func c11RefEvent(v *c11Verdict, o map[string]any) {
	want := []string{"id", "pubkey", "created_at", "kind", "tags", "content", "sig"}
	for _, k := range want {
		if _, ok := o[k]; !ok {
			v.Bad("event/missing-member")
			break
		}
	}
	for k := range o {
		known := false
		for _, w := range want {
			if k == w {
				known = true
			}
		}
		if !known {
			v.Bad("event/extra-member")
			break
		}
	}
	for _, f := range []struct {
		k string
		n int
	}{{"id", 64}, {"pubkey", 64}, {"sig", 128}} {
		x, ok := o[f.k]
		if !ok {
			continue
		}
		s, ok := x.(string)
		if !ok {
			v.Bad("event/" + f.k + "-type")
		} else if !c11IsHex(s, f.n) {
			v.Bad("event/" + f.k + "-hex")
		}
	}
	if x, ok := o["kind"]; ok {
		c11RefKind(v, x, "event/kind")
	}
	if x, ok := o["created_at"]; ok {
		if n, ok := x.(json.Number); !ok {
			v.Bad("event/created_at-type")
		} else {
			i, cl := c11Int(n)
			switch cl {
			case "open":
				v.Open("number-form")
			case "frac":
				v.Bad("event/created_at-fraction")
			default:
				if i.Cmp(c11Zero) < 0 || i.Cmp(c11MaxInt64) > 0 {
					v.Open("created_at-negative-or-huge")
				}
			}
		}
	}
	if x, ok := o["content"]; ok {
		if _, ok := x.(string); !ok {
			v.Bad("event/content-type")
		}
	}
	if x, ok := o["tags"]; ok {
		tags, ok := x.([]any)
		if !ok {
			v.Bad("event/tags-type")
		} else {
			for _, t := range tags {
				tag, ok := t.([]any)
				if !ok {
					v.Bad("event/tag-type")
					continue
				}
				if len(tag) == 0 {
					v.Open("empty-tag")
				}
				for i, e := range tag {
					s, ok := e.(string)
					if !ok {
						v.Bad("event/tag-element-type")
					} else if i == 0 && s == "" {
						v.Open("empty-tag-name")
					}
				}
			}
		}
	}
}

func c11RefStamp(v *c11Verdict, x any, k string) *big.Int {
	n, ok := x.(json.Number)
	if !ok {
		v.Bad("filter/" + k + "-type")
		return nil
	}
	i, cl := c11Int(n)
	switch cl {
	case "open":
		v.Open("number-form")
		return nil
	case "frac":
		v.Bad("filter/" + k + "-fraction")
		return nil
	}
	if i.Cmp(c11Zero) < 0 {
		v.Bad("filter/" + k + "-negative")
		return nil
	}
	if i.Cmp(c11MaxInt64) > 0 {
		v.Open("huge-integer")
		return nil
	}
	return i
}

func c11RefFilter(v *c11Verdict, o map[string]any) {
	var since, until *big.Int
	for k, x := range o {
		switch {
		case k == "ids" || k == "authors":
			l, ok := x.([]any)
			if !ok {
				v.Bad("filter/" + k + "-type")
				continue
			}
			for _, e := range l {
				s, ok := e.(string)
				if !ok {
					v.Bad("filter/" + k + "-element-type")
				} else if !c11IsHex(s, 64) {
					v.Bad("filter/" + k + "-hex")
				}
			}
		case k == "kinds":
			l, ok := x.([]any)
			if !ok {
				v.Bad("filter/kinds-type")
				continue
			}
			for _, e := range l {
				c11RefKind(v, e, "filter/kinds-element")
			}
		case k == "since":
			since = c11RefStamp(v, x, k)
		case k == "until":
			until = c11RefStamp(v, x, k)
		case k == "limit":
			c11RefStamp(v, x, k)
		case len(k) == 2 && k[0] == '#' && (k[1] >= 'a' && k[1] <= 'z' || k[1] >= 'A' && k[1] <= 'Z'):
			l, ok := x.([]any)
			if !ok {
				v.Bad("filter/tag-type")
				continue
			}
			for _, e := range l {
				s, ok := e.(string)
				if !ok {
					v.Bad("filter/tag-value-type")
					continue
				}
				switch k[1] {
				case 'e':
					if !c11IsHex(s, 64) {
						v.Bad("filter/e-hex")
					}
				case 'p':
					if !c11IsHex(s, 64) {
						v.Bad("filter/p-hex")
					}
				case 'a':
					c11RefAddr(v, s)
				}
			}
		default:
			if strings.HasPrefix(k, "#") && len(k) > 2 {
				if c, sz := utf8.DecodeRuneInString(k[1:]); sz == len(k)-1 && c >= 0x80 && unicode.IsLetter(c) {
					v.Open("non-ascii-letter-tag-key")
					continue
				}
			}
			v.Bad("filter/unknown-key")
		}
	}
	if since != nil && until != nil && since.Cmp(until) > 0 {
		v.Open("since>until")
	}
}

func c11RefSubID(v *c11Verdict, x any) {
	switch s := x.(type) {
	case nil:
		v.Open("null-subid")
	case string:
		if n := utf8.RuneCountInString(s); n == 0 || n > 64 || len(s) > 64 {
			v.Open("subid-length")
		}
	default:
		v.Bad("envelope/subid-type")
	}
}

func c11RefValid(tree any) *c11Verdict {
	v := &c11Verdict{}
	arr, ok := tree.([]any)
	if !ok {
		v.Bad("envelope/not-array")
		return v
	}
	if len(arr) == 0 {
		v.Bad("envelope/arity")
		return v
	}
	label, ok := arr[0].(string)
	if !ok {
		v.Bad("envelope/label-type")
		return v
	}
	switch label {
	case "EVENT", "AUTH":
		if len(arr) != 2 {
			v.Bad("envelope/arity")
			return v
		}
		switch o := arr[1].(type) {
		case nil:
			v.Open("null-object")
		case map[string]any:
			c11RefEvent(v, o)
		default:
			v.Bad("envelope/event-type")
		}
	case "CLOSE":
		if len(arr) != 2 {
			v.Bad("envelope/arity")
			return v
		}
		c11RefSubID(v, arr[1])
	case "REQ", "COUNT":
		if len(arr) < 3 {
			v.Open("no-filter")
		}
		if len(arr) >= 2 {
			c11RefSubID(v, arr[1])
		}
		for _, f := range arr[min(2, len(arr)):] {
			switch o := f.(type) {
			case nil:
				v.Open("null-object")
			case map[string]any:
				c11RefFilter(v, o)
			default:
				v.Bad("envelope/filter-type")
			}
		}
	default:
		v.Bad("envelope/label-unknown")
	}
	return v
}

// ---------------------------------------------------------------------------
// soundness on the output: the constraints of the statement checked on the value that
// the gate let through (independent of the text it came from).

func c11CheckEventValue(e *mocrelay.Event) []string {
	var bad []string
	if e == nil {
		return nil
	}
	if !c11IsHex(e.ID, 64) {
		bad = append(bad, "event/id-hex")
	}
	if !c11IsHex(e.Pubkey, 64) {
		bad = append(bad, "event/pubkey-hex")
	}
	if !c11IsHex(e.Sig, 128) {
		bad = append(bad, "event/sig-hex")
	}
	if e.Kind < 0 || e.Kind > 65535 {
		bad = append(bad, "event/kind-range")
	}
	return bad
}

func c11CheckFilterValue(f *mocrelay.ReqFilter) []string {
	var bad []string
	if f == nil {
		return nil
	}
	for _, s := range f.IDs {
		if !c11IsHex(s, 64) {
			bad = append(bad, "filter/ids-hex")
		}
	}
	for _, s := range f.Authors {
		if !c11IsHex(s, 64) {
			bad = append(bad, "filter/authors-hex")
		}
	}
	for _, k := range f.Kinds {
		if k < 0 || k > 65535 {
			bad = append(bad, "filter/kinds-element-range")
		}
	}
	for k, vals := range f.Tags {
		if !(len(k) == 1 && (k[0] >= 'a' && k[0] <= 'z' || k[0] >= 'A' && k[0] <= 'Z')) {
			bad = append(bad, "filter/tag-key")
			continue
		}
		for _, s := range vals {
			switch k {
			case "e":
				if !c11IsHex(s, 64) {
					bad = append(bad, "filter/e-hex")
				}
			case "p":
				if !c11IsHex(s, 64) {
					bad = append(bad, "filter/p-hex")
				}
			case "a":
				v := &c11Verdict{}
				c11RefAddr(v, s)
				bad = append(bad, v.bad...)
			}
		}
	}
	if f.Since != nil && *f.Since < 0 {
		bad = append(bad, "filter/since-negative")
	}
	if f.Until != nil && *f.Until < 0 {
		bad = append(bad, "filter/until-negative")
	}
	if f.Limit != nil && *f.Limit < 0 {
		bad = append(bad, "filter/limit-negative")
	}
	return bad
}

func c11CheckValue(msg mocrelay.ClientMsg) []string {
	switch m := msg.(type) {
	case *mocrelay.ClientEventMsg:
		return c11CheckEventValue(m.Event)
	case *mocrelay.ClientAuthMsg:
		return c11CheckEventValue(m.Event)
	case *mocrelay.ClientReqMsg:
		var bad []string
		for _, f := range m.ReqFilters {
			bad = append(bad, c11CheckFilterValue(f)...)
		}
		return bad
	case *mocrelay.ClientCountMsg:
		var bad []string
		for _, f := range m.ReqFilters {
			bad = append(bad, c11CheckFilterValue(f)...)
		}
		return bad
	}
	return nil
}

// ---------------------------------------------------------------------------
// "is parsed": the value handed on denotes the same message as the text. Both sides are
// brought to a generic tree with integers as int64 (only used for well-formed texts).

func c11NormTree(x any) any {
	switch t := x.(type) {
	case json.Number:
		i, cl := c11Int(t)
		if cl == "int" && i.IsInt64() {
			return i.Int64()
		}
		return string(t)
	case []any:
		out := make([]any, len(t))
		for i, e := range t {
			out[i] = c11NormTree(e)
		}
		return out
	case map[string]any:
		out := map[string]any{}
		for k, e := range t {
			out[k] = c11NormTree(e)
		}
		return out
	}
	return x
}

func c11StrList(ss []string) []any {
	out := make([]any, len(ss))
	for i, s := range ss {
		out[i] = s
	}
	return out
}

func c11EventTree(e *mocrelay.Event) any {
	if e == nil {
		return nil
	}
	tags := make([]any, len(e.Tags))
	for i, t := range e.Tags {
		tags[i] = c11StrList(t)
	}
	return map[string]any{"id": e.ID, "pubkey": e.Pubkey, "created_at": e.CreatedAt, "kind": e.Kind,
		"tags": tags, "content": e.Content, "sig": e.Sig}
}

func c11FilterTree(f *mocrelay.ReqFilter) any {
	if f == nil {
		return nil
	}
	o := map[string]any{}
	if f.IDs != nil {
		o["ids"] = c11StrList(f.IDs)
	}
	if f.Authors != nil {
		o["authors"] = c11StrList(f.Authors)
	}
	if f.Kinds != nil {
		l := make([]any, len(f.Kinds))
		for i, k := range f.Kinds {
			l[i] = k
		}
		o["kinds"] = l
	}
	for k, v := range f.Tags {
		if v == nil {
			o["#"+k] = nil
		} else {
			o["#"+k] = c11StrList(v)
		}
	}
	if f.Since != nil {
		o["since"] = *f.Since
	}
	if f.Until != nil {
		o["until"] = *f.Until
	}
	if f.Limit != nil {
		o["limit"] = *f.Limit
	}
	return o
}

func c11ValueTree(msg mocrelay.ClientMsg) any {
	switch m := msg.(type) {
	case *mocrelay.ClientEventMsg:
		return []any{"EVENT", c11EventTree(m.Event)}
	case *mocrelay.ClientAuthMsg:
		return []any{"AUTH", c11EventTree(m.Event)}
	case *mocrelay.ClientCloseMsg:
		return []any{"CLOSE", m.SubscriptionID}
	case *mocrelay.ClientReqMsg:
		out := []any{"REQ", m.SubscriptionID}
		for _, f := range m.ReqFilters {
			out = append(out, c11FilterTree(f))
		}
		return out
	case *mocrelay.ClientCountMsg:
		out := []any{"COUNT", m.SubscriptionID}
		for _, f := range m.ReqFilters {
			out = append(out, c11FilterTree(f))
		}
		return out
	}
	return fmt.Sprintf("%T", msg)
}

// c11SameMessage: the value denotes the message of the text. The value lists of a filter
// (ids, authors, kinds, #x) are conditions "one of", i.e. sets: a gate that hands on a
// filter with repeated values dropped or reordered hands on the same filter.
func c11SameMessage(tree any, msg mocrelay.ClientMsg) bool {
	return reflect.DeepEqual(c11FilterListsAsSets(c11NormTree(tree)), c11FilterListsAsSets(c11ValueTree(msg)))
}

func c11FilterListsAsSets(tree any) any {
	l, ok := tree.([]any)
	if !ok || len(l) < 3 || (l[0] != "REQ" && l[0] != "COUNT") {
		return tree
	}
	out := append([]any{}, l[:2]...)
	for _, f := range l[2:] {
		o, ok := f.(map[string]any)
		if !ok {
			out = append(out, f)
			continue
		}
		c := map[string]any{}
		for k, v := range o {
			vl, isList := v.([]any)
			if !isList || !(k == "ids" || k == "authors" || k == "kinds" || strings.HasPrefix(k, "#")) {
				c[k] = v
				continue
			}
			seen := map[string]bool{}
			keys := []string{}
			byKey := map[string]any{}
			for _, e := range vl {
				ks := fmt.Sprintf("%T:%v", e, e)
				if !seen[ks] {
					seen[ks] = true
					keys = append(keys, ks)
					byKey[ks] = e
				}
			}
			sort.Strings(keys)
			set := make([]any, len(keys))
			for i, ks := range keys {
				set[i] = byKey[ks]
			}
			c[k] = set
		}
		out = append(out, c)
	}
	return out
}

// c11Compact re-renders a decoded tree without whitespace or optional escapes.
func c11Compact(tree any) string {
	var b bytes.Buffer
	enc := json.NewEncoder(&b)
	enc.SetEscapeHTML(false)
	enc.Encode(tree)
	return strings.TrimRight(b.String(), "\n")
}
