#!/usr/bin/env python3
"""Regenerates /verif/MANIFEST.json from the table below (kept in one place so the
manifest stays valid while checks are added)."""
import json
import os

V = os.path.dirname(os.path.dirname(os.path.abspath(__file__)))

# id -> (category, technique, text, note, design_ref)
CHECKS = {}


def add(pid, cat, technique, text, note, ref):
    CHECKS[pid] = (cat, technique, text, note, ref)


RACE = " The whole run is under the Go race detector (reports in mocrelay frames are violations)."

add("C02", "exploration",
    "runtime monitoring: reference-predicate oracle over seeded (event, filter) pairs and limit-matcher traces, race detector",
    "Every generated (event, filter) pair and every prefix of every event sequence fed to the limit-counting matcher is judged by an independent transliteration of the NIP-01 predicate and shadow counters; held on the executions listed in the evidence (truth-table coverage reported), not a proof." + RACE,
    "Trusts the hand-written reference predicate (kit/refmatch.go) and the seeded generator's reach; filters are built as values, not parsed.",
    "DESIGN.md section 4, C02")

add("C01", "exploration",
    "runtime monitoring: reference-model oracle (independent NIP-01 canonicaliser + SHA-256 + independent BIP-340 verifier) over freshly signed hostile events, a tamper catalogue, a full BMP code-point sweep and wrong-canonicalisation forgeries; race detector/checkptr",
    "Every generated event is signed with a real key and must be reported authentic; every alteration from a 25-entry catalogue and every forgery over a non-canonical serialisation must be reported not authentic; Serialize must equal the reference canonical bytes. Held on the events listed in the evidence (all BMP scalars swept each run), not a proof." + RACE,
    "Trusts kit/canon.go and kit/bip340.go (self-tested on the official BIP-340 vectors at start-up; cross-checks every signed event in the thorough tier, 1/16 in quick) and btcec for *signing* only. The end-to-end gate behind Relay.ServeHTTP is exercised by C12.",
    "DESIGN.md section 4, C01")

add("C03", "exploration",
    "runtime monitoring: query-specification oracle (tie-aware, with b-matching for limit cuts) over the observed retained set after every step of seeded insertion histories; access-path-flipped re-queries; race detector",
    "After every insertion of every generated history the match-everything listing is taken as the specification state and a panel of filter lists is answered by the real store; each answer must be an allowed answer (order, no duplicates, exactly the limit newest per filter, merged). Each list is re-asked in a form that forces the other access path. Held on the histories/queries counted in the evidence." + RACE,
    "Trusts kit/storespec.go CheckQuery and kit/refmatch.go; filters are built as values (non-nil empty tag maps, which the wire format cannot express, are not generated).",
    "DESIGN.md section 4, C03")

add("C04", "exploration",
    "runtime monitoring: step-wise refinement of observed (state, Add, flag, state') transitions against the retention transition relation, plus invariants; race detector",
    "Every step of every generated history is judged: the observed transition must be one the retention/deletion specification allows (sets of allowed successors at ties and evictions), and the global invariants (capacity, distinct ids, one version per address, no ephemeral event served, Len) must hold after it. Held on the steps counted per transition class in the evidence." + RACE,
    "Trusts kit/storespec.go CheckCacheStep; addressable events without a d tag are judged only loosely (C05); self-referencing deletion requests are not constructible with real ids.",
    "DESIGN.md section 4, C04")

add("C05", "exploration",
    "runtime monitoring: the C04 refinement engine driven by a multi-author, deletion-heavy generator with author-isolation classification; race detector",
    "Histories of 2-4 authors with deletion requests in every arrival order; every step must be an allowed transition (a removal must be explained by the inserting author's own events or by eviction; suppressed events stay out while the request is retained; requests are served like regular events). Held on the steps counted in the evidence." + RACE,
    "Same trusted base as C04; a-tag references are exercised on addressable kinds only (as the property's quantifier says).",
    "DESIGN.md section 4, C05")

add("C06", "exploration",
    "runtime monitoring: executable model of the stored-and-live set + query-specification oracle over seeded batch histories against the generated SQL on real SQLite; race detector",
    "Every batch of every generated history is inserted with insertEvents into a real (in-memory) SQLite database and a filter panel is answered by queryEvent after each batch; every answer must be an allowed answer over the model's live set with all seven fields identical to what was inserted. Held on the histories/queries counted in the evidence." + RACE,
    "Trusts kit/sqlmodel.go and kit/storespec.go; 64-bit key collisions are detected and such histories discarded; sub-cases the statement leaves open (equal created_at on one address, d-less addressable events, a-tags naming plain replaceable kinds, an empty filter list) are not generated.",
    "DESIGN.md section 4, C06")

add("C14", "fault_enumeration",
    "runtime monitoring with fault injection: a database/sql driver wrapper numbers the driver calls of a batch and fails, cancels or kills the process at every call index; model comparison after every attempt, retry, repetition and reopen; race detector",
    "For the chosen batch of each history every driver call (begin, each prepare, every statement exec, commit) is faulted in turn with an injected error and with a context cancellation, and sampled (thorough: all) calls with a process kill in a child process; after each faulted attempt, each retry, the final success, two repetitions and every close/reopen the query panel must equal the model (failed = no-op, returned nil = applied once). Exhaustive over call indexes per enumerated batch; histories are sampled." + RACE,
    "Trusts the fault driver wrapper (kit/faultsql, forwards every optional interface go-sqlite3 implements) and the SQLite model; faults inside SQLite's own I/O layer are not injected; kill = os.Exit in a child, not power loss.",
    "DESIGN.md section 4, C14")

add("C16", "exploration",
    "runtime monitoring: reply-grouping checker over pipelined sessions on CacheHandler/SQLiteHandler, retention and query specification as oracles, dump/restore differential; race detector",
    "Each generated client message sequence runs as one real session; the reply stream must parse into per-request groups in request order (one OK with the id, events+one EOSE with the sub id, one COUNT, nothing for CLOSE/AUTH); cache OK verdicts are judged by the retention specification and REQ answers by the query specification; Dump->Restore into a fresh cache must answer a 41-list panel identically. Held on the sequences counted in the evidence." + RACE,
    "Trusts kit/storespec.go, kit/sqlmodel.go; the cache handler's verdict for ephemeral events is not judged (C04 and C16 read differently there); SQLite REQs are issued at quiescence (sentinel row polled).",
    "DESIGN.md section 4, C16")

NOT_YET = "check not built yet in this revision (work in progress; see DESIGN.md)"


def main():
    props = [json.loads(l) for l in open(os.path.join(V, "properties.jsonl"))]
    checks, na = [], []
    for p in props:
        pid = p["id"]
        if pid in CHECKS:
            cat, tech, text, note, ref = CHECKS[pid]
            checks.append({
                "property_id": pid,
                "quick_cmd": "./check %s --tier quick" % pid,
                "thorough_cmd": "./check %s --tier thorough" % pid,
                "evidence_file": "/verif/evidence/%s.json" % pid,
                "replay_cmd_template": "./check %s --replay {path}" % pid,
                "engine": "monitors",
                "level_claimed": {"category": cat, "text": text, "design_ref": ref},
                "level_note": note,
                "technique": tech,
            })
        else:
            na.append({"property_id": pid, "reason": NOT_YET})
    hooks_commits = []
    hp = os.path.join(V, "hooks_commits.txt")
    if os.path.exists(hp):
        hooks_commits = [l.split()[0] for l in open(hp) if l.strip() and not l.startswith("#")]
    man = {
        "version": 1,
        "setup_cmd": "./setup.sh",
        "hooks": {
            "guard": "verif",
            "enable": "go test -tags verif (the driver ./check passes -race -tags verif -overlay <monitors> -modfile <copy of go.mod + porcupine>)",
            "baseline_off_cmd": "cd /repo && GOFLAGS=-mod=mod go test -json -vet=off -count=1 -timeout 25m ./...",
            "source_commits": hooks_commits,
            "add_only": True,
        },
        "engines": [{
            "name": "monitors",
            "path": "/verif/check",
            "serves_properties": [c["property_id"] for c in checks],
            "kind_free_text": "runtime monitors (Go test files injected with -overlay) run under the Go race detector; oracles in /verif/kit",
        }],
        "checks": checks,
        "not_applicable": na,
        "notes": "Technique family: runtime monitoring and sanitizers. One go test process per property, built from /repo's working tree at every invocation; VERIF_REPO points the driver at a scratch copy for seeded breaks.",
    }
    json.dump(man, open(os.path.join(V, "MANIFEST.json"), "w"), indent=1)
    print("MANIFEST.json: %d checks, %d not_applicable" % (len(checks), len(na)))


if __name__ == "__main__":
    main()
