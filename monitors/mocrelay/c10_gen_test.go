package mocrelay_test

import (
	"bytes"
	"fmt"
	"math"
	"math/rand/v2"
	"sort"
	"strings"
	"unicode/utf8"

	"github.com/high-moctane/mocrelay"
	vk "github.com/high-moctane/mocrelay/internal/verifkit"
)

// C10 workload: well-formed values of every wire type, an independent JSON writer
// (ordered tree, random insignificant whitespace, random escape style, duplicate keys
// possible), and the mutators that turn valid texts into hostile ones.

// ---------------------------------------------------------------------------
// well-formed values

var c10Prefixes = []string{
	"", mocrelay.MachineReadablePrefixPoW, mocrelay.MachineReadablePrefixDuplicate,
	mocrelay.MachineReadablePrefixBlocked, mocrelay.MachineReadablePrefixRateLimited,
	mocrelay.MachineReadablePrefixInvalid, mocrelay.MachineReadablePrefixError,
}

func c10Hex(r *rand.Rand, n int) string {
	const hexd = "0123456789abcdef"
	b := make([]byte, n)
	for i := range b {
		b[i] = hexd[r.IntN(16)]
	}
	return string(b)
}

// c10Time: non-negative integers across the whole int64 range (NIP-01 puts no upper bound).
func c10Time(r *rand.Rand) int64 {
	switch r.IntN(10) {
	case 0:
		return 0
	case 1:
		return int64(r.IntN(1000))
	case 2:
		return 1 << 31
	case 3:
		return 1<<32 + int64(r.IntN(10))
	case 4:
		return 1<<53 + int64(r.IntN(3)) // not exactly representable as float64 when odd
	case 5:
		return math.MaxInt64 - int64(r.IntN(3))
	case 6:
		return r.Int64N(math.MaxInt64)
	default:
		return 1_600_000_000 + int64(r.IntN(200_000_000))
	}
}

func c10Kind(r *rand.Rand) int64 {
	switch r.IntN(6) {
	case 0:
		return vk.Pick(r, []int64{0, 1, 3, 5, 7, 40, 1984, 9735, 10000, 10002, 20000, 22242, 30000, 30023, 65535})
	default:
		return int64(r.IntN(65536))
	}
}

// c10SubID: NIP-01 subscription id, 1..64 characters.
func c10SubID(r *rand.Rand) string {
	switch r.IntN(4) {
	case 0:
		return c10Hex(r, 1+r.IntN(64))
	case 1:
		return fmt.Sprintf("sub-%d", r.IntN(1000))
	default:
		for {
			s := vk.HostileString(r, 12)
			if n := utf8.RuneCountInString(s); n >= 1 && n <= 64 {
				return s
			}
		}
	}
}

func c10Text(r *rand.Rand) string {
	switch r.IntN(8) {
	case 0:
		return ""
	case 1:
		return strings.Repeat(vk.HostileString(r, 8), 1+r.IntN(40))
	default:
		return vk.HostileString(r, 40)
	}
}

func c10Event(r *rand.Rand) *mocrelay.Event {
	e := &mocrelay.Event{
		Pubkey:    c10Hex(r, 64),
		CreatedAt: c10Time(r),
		Kind:      c10Kind(r),
		Tags:      []mocrelay.Tag{},
		Content:   c10Text(r),
	}
	nt := r.IntN(6)
	if r.IntN(20) == 0 {
		nt = 30
	}
	for i := 0; i < nt; i++ {
		var name string
		switch r.IntN(4) {
		case 0:
			name = vk.Pick(r, []string{"e", "p", "a", "d", "t", "E", "client", "nonce", "relay"})
		case 1:
			name = string(rune('a' + r.IntN(26)))
		default:
			for name == "" {
				name = vk.HostileString(r, 6)
			}
		}
		tag := mocrelay.Tag{name}
		for k := r.IntN(4); k > 0; k-- {
			switch r.IntN(3) {
			case 0:
				tag = append(tag, c10Hex(r, 64))
			case 1:
				tag = append(tag, "")
			default:
				tag = append(tag, vk.HostileString(r, 16))
			}
		}
		e.Tags = append(e.Tags, tag)
	}
	return vk.Seal(e) // real id over the canonical form, well-formed 128-hex sig
}

func c10StrList(r *rand.Rand, gen func() string) []string {
	switch r.IntN(4) {
	case 0:
		return []string{}
	case 1:
		return []string{gen()}
	default:
		n := 2 + r.IntN(5)
		out := make([]string, n)
		for i := range out {
			out[i] = gen()
		}
		return out
	}
}

func c10Filter(r *rand.Rand) *mocrelay.ReqFilter {
	f := &mocrelay.ReqFilter{}
	hex64 := func() string { return c10Hex(r, 64) }
	if r.IntN(2) == 0 {
		f.IDs = c10StrList(r, hex64)
	}
	if r.IntN(2) == 0 {
		f.Authors = c10StrList(r, hex64)
	}
	if r.IntN(2) == 0 {
		f.Kinds = []int64{}
		for k := r.IntN(4); k > 0; k-- {
			f.Kinds = append(f.Kinds, c10Kind(r))
		}
	}
	if r.IntN(2) == 0 {
		f.Tags = map[string][]string{}
		for k := r.IntN(4); k > 0; k-- {
			var name string
			if r.IntN(2) == 0 {
				name = string(rune('a' + r.IntN(26)))
			} else {
				name = string(rune('A' + r.IntN(26)))
			}
			switch name {
			case "e", "p":
				f.Tags[name] = c10StrList(r, hex64)
			default:
				f.Tags[name] = c10StrList(r, func() string { return vk.HostileString(r, 12) })
			}
		}
	}
	if r.IntN(2) == 0 {
		f.Since = vk.Ptr(c10Time(r))
	}
	if r.IntN(2) == 0 {
		f.Until = vk.Ptr(c10Time(r))
	}
	if f.Since != nil && f.Until != nil && *f.Since > *f.Until {
		f.Since, f.Until = f.Until, f.Since
	}
	if r.IntN(2) == 0 {
		f.Limit = vk.Ptr(vk.Pick(r, []int64{0, 1, 10, 500, 5000, 1 << 40, math.MaxInt64}))
	}
	return f
}

func c10Filters(r *rand.Rand) []*mocrelay.ReqFilter {
	n := 1 + r.IntN(3)
	if r.IntN(15) == 0 {
		n = 12
	}
	fs := make([]*mocrelay.ReqFilter, n)
	for i := range fs {
		fs[i] = c10Filter(r)
	}
	return fs
}

// c10Value draws a well-formed value for decoder number di of c10Decoders.
func c10Value(r *rand.Rand, name string) any {
	switch name {
	case "Event":
		return c10Event(r)
	case "ReqFilter":
		return c10Filter(r)
	case "ClientEventMsg":
		return &mocrelay.ClientEventMsg{Event: c10Event(r)}
	case "ClientReqMsg":
		return &mocrelay.ClientReqMsg{SubscriptionID: c10SubID(r), ReqFilters: c10Filters(r)}
	case "ClientCloseMsg":
		return &mocrelay.ClientCloseMsg{SubscriptionID: c10SubID(r)}
	case "ClientAuthMsg":
		e := c10Event(r)
		e.Kind = 22242
		return &mocrelay.ClientAuthMsg{Event: vk.Seal(e)}
	case "ClientCountMsg":
		return &mocrelay.ClientCountMsg{SubscriptionID: c10SubID(r), ReqFilters: c10Filters(r)}
	case "ServerEOSEMsg":
		return mocrelay.NewServerEOSEMsg(c10SubID(r))
	case "ServerEventMsg":
		return mocrelay.NewServerEventMsg(c10SubID(r), c10Event(r))
	case "ServerNoticeMsg":
		return mocrelay.NewServerNoticeMsg(c10Text(r))
	case "ServerOKMsg":
		prefix, msg := vk.Pick(r, c10Prefixes), c10Text(r)
		if r.IntN(6) == 0 { // a text that itself starts with a machine-readable prefix
			msg = vk.Pick(r, c10Prefixes[1:]) + msg
		}
		id := c10Hex(r, 64)
		if r.IntN(8) == 0 {
			// the codec takes any string as the event id (hex is the gate's business): exactly 64
			// bytes with characters that need escaping, mostly with nothing else to say
			b := []byte(id)
			for k := 1 + r.IntN(3); k > 0; k-- {
				b[r.IntN(64)] = "\"\\\n\x00\x1f/<&\x7f"[r.IntN(9)]
			}
			id = string(b)
			if r.IntN(3) != 0 {
				prefix, msg = "", ""
			}
		}
		return mocrelay.NewServerOKMsg(id, r.IntN(2) == 0, prefix, msg)
	case "ServerAuthMsg":
		return &mocrelay.ServerAuthMsg{Challenge: c10Text(r)}
	case "ServerCountMsg":
		var ap *bool
		if k := r.IntN(3); k > 0 {
			ap = vk.Ptr(k == 1)
		}
		cnt := vk.Pick(r, []uint64{0, 1, 42, 1 << 32, 1<<53 + 1, math.MaxInt64, math.MaxUint64, r.Uint64()})
		return mocrelay.NewServerCountMsg(c10SubID(r), cnt, ap)
	case "ServerClosedMsg":
		prefix, msg := vk.Pick(r, c10Prefixes), c10Text(r)
		if r.IntN(6) == 0 {
			msg = vk.Pick(r, c10Prefixes[1:]) + msg
		}
		return mocrelay.NewServerClosedMsg(c10SubID(r), prefix, msg)
	}
	panic("c10Value: " + name)
}

// ---------------------------------------------------------------------------
// ordered JSON tree and writer (independent of the repository's encoders)

const (
	c10Null = iota
	c10Bool
	c10Num // literal written verbatim
	c10Raw // raw text written verbatim (may be invalid JSON)
	c10Str
	c10Arr
	c10Obj
)

type c10Node struct {
	kind int
	b    bool
	s    string
	kids []*c10Node
	keys []string // objects: parallel to kids; duplicates allowed
}

func c10NNull() *c10Node         { return &c10Node{kind: c10Null} }
func c10NBool(b bool) *c10Node   { return &c10Node{kind: c10Bool, b: b} }
func c10NNum(s string) *c10Node  { return &c10Node{kind: c10Num, s: s} }
func c10NRaw(s string) *c10Node  { return &c10Node{kind: c10Raw, s: s} }
func c10NStr(s string) *c10Node  { return &c10Node{kind: c10Str, s: s} }
func c10NInt(v int64) *c10Node   { return c10NNum(fmt.Sprint(v)) }
func c10NUint(v uint64) *c10Node { return c10NNum(fmt.Sprint(v)) }
func c10NArr(k ...*c10Node) *c10Node {
	return &c10Node{kind: c10Arr, kids: k}
}
func c10NObj() *c10Node { return &c10Node{kind: c10Obj} }
func (n *c10Node) put(k string, v *c10Node) *c10Node {
	n.keys = append(n.keys, k)
	n.kids = append(n.kids, v)
	return n
}

func c10NStrs(ss []string) *c10Node {
	a := c10NArr()
	for _, s := range ss {
		a.kids = append(a.kids, c10NStr(s))
	}
	return a
}

func (n *c10Node) clone() *c10Node {
	c := *n
	c.keys = append([]string(nil), n.keys...)
	c.kids = make([]*c10Node, len(n.kids))
	for i, k := range n.kids {
		c.kids[i] = k.clone()
	}
	return &c
}

func c10TreeEvent(e *mocrelay.Event) *c10Node {
	tags := c10NArr()
	for _, t := range e.Tags {
		tags.kids = append(tags.kids, c10NStrs(t))
	}
	return c10NObj().put("id", c10NStr(e.ID)).put("pubkey", c10NStr(e.Pubkey)).
		put("created_at", c10NInt(e.CreatedAt)).put("kind", c10NInt(e.Kind)).
		put("tags", tags).put("content", c10NStr(e.Content)).put("sig", c10NStr(e.Sig))
}

func c10TreeFilter(f *mocrelay.ReqFilter) *c10Node {
	o := c10NObj()
	if f.IDs != nil {
		o.put("ids", c10NStrs(f.IDs))
	}
	if f.Authors != nil {
		o.put("authors", c10NStrs(f.Authors))
	}
	if f.Kinds != nil {
		ks := c10NArr()
		for _, k := range f.Kinds {
			ks.kids = append(ks.kids, c10NInt(k))
		}
		o.put("kinds", ks)
	}
	names := make([]string, 0, len(f.Tags))
	for k := range f.Tags {
		names = append(names, k)
	}
	sort.Strings(names)
	for _, k := range names {
		o.put("#"+k, c10NStrs(f.Tags[k]))
	}
	if f.Since != nil {
		o.put("since", c10NInt(*f.Since))
	}
	if f.Until != nil {
		o.put("until", c10NInt(*f.Until))
	}
	if f.Limit != nil {
		o.put("limit", c10NInt(*f.Limit))
	}
	return o
}

// c10Tree is the wire form of a value, written down from NIP-01 / NIP-42 / NIP-45.
func c10Tree(v any) *c10Node {
	L := c10NStr
	switch m := v.(type) {
	case *mocrelay.Event:
		return c10TreeEvent(m)
	case *mocrelay.ReqFilter:
		return c10TreeFilter(m)
	case *mocrelay.ClientEventMsg:
		return c10NArr(L("EVENT"), c10TreeEvent(m.Event))
	case *mocrelay.ClientReqMsg:
		a := c10NArr(L("REQ"), L(m.SubscriptionID))
		for _, f := range m.ReqFilters {
			a.kids = append(a.kids, c10TreeFilter(f))
		}
		return a
	case *mocrelay.ClientCloseMsg:
		return c10NArr(L("CLOSE"), L(m.SubscriptionID))
	case *mocrelay.ClientAuthMsg:
		return c10NArr(L("AUTH"), c10TreeEvent(m.Event))
	case *mocrelay.ClientCountMsg:
		a := c10NArr(L("COUNT"), L(m.SubscriptionID))
		for _, f := range m.ReqFilters {
			a.kids = append(a.kids, c10TreeFilter(f))
		}
		return a
	case *mocrelay.ServerEOSEMsg:
		return c10NArr(L("EOSE"), L(m.SubscriptionID))
	case *mocrelay.ServerEventMsg:
		return c10NArr(L("EVENT"), L(m.SubscriptionID), c10TreeEvent(m.Event))
	case *mocrelay.ServerNoticeMsg:
		return c10NArr(L("NOTICE"), L(m.Message))
	case *mocrelay.ServerOKMsg:
		return c10NArr(L("OK"), L(m.EventID), c10NBool(m.Accepted), L(m.MsgPrefix+m.Msg))
	case *mocrelay.ServerAuthMsg:
		return c10NArr(L("AUTH"), L(m.Challenge))
	case *mocrelay.ServerCountMsg:
		p := c10NObj().put("count", c10NUint(m.Count))
		if m.Approximate != nil {
			p.put("approximate", c10NBool(*m.Approximate))
		}
		return c10NArr(L("COUNT"), L(m.SubscriptionID), p)
	case *mocrelay.ServerClosedMsg:
		return c10NArr(L("CLOSED"), L(m.SubscriptionID), L(m.MsgPrefix+m.Msg))
	}
	panic(fmt.Sprintf("c10Tree: %T", v))
}

type c10Style struct {
	r       *rand.Rand
	ws      int  // 0 none, 1 sparse, 2 heavy insignificant whitespace
	esc     int  // 0 minimal escapes, 1 mixed, 2 \uXXXX wherever possible
	shuffle bool // permute object members
	plain   bool // label and member names stay verbatim
	depth   int
}

func (st *c10Style) space(b *bytes.Buffer) {
	n := 0
	switch st.ws {
	case 1:
		if st.r.IntN(4) == 0 {
			n = 1
		}
	case 2:
		n = st.r.IntN(4)
	}
	for ; n > 0; n-- {
		b.WriteByte(" \t\n\r"[st.r.IntN(4)])
	}
}

func c10WriteU(b *bytes.Buffer, r *rand.Rand, c rune) {
	digits := "0123456789abcdef"
	if r.IntN(2) == 0 {
		digits = "0123456789ABCDEF"
	}
	unit := func(u rune) {
		b.WriteString(`\u`)
		b.WriteByte(digits[u>>12&15])
		b.WriteByte(digits[u>>8&15])
		b.WriteByte(digits[u>>4&15])
		b.WriteByte(digits[u&15])
	}
	if c >= 0x10000 {
		c -= 0x10000
		unit(0xd800 + (c >> 10))
		unit(0xdc00 + (c & 0x3ff))
		return
	}
	unit(c)
}

func (st *c10Style) str(b *bytes.Buffer, s string, plain bool) {
	b.WriteByte('"')
	for _, c := range s {
		short := ""
		switch c {
		case '"':
			short = `\"`
		case '\\':
			short = `\\`
		case '\n':
			short = `\n`
		case '\r':
			short = `\r`
		case '\t':
			short = `\t`
		case '\b':
			short = `\b`
		case '\f':
			short = `\f`
		case '/':
			if !plain && st.esc == 1 {
				short = `\/`
			}
		}
		must := c < 0x20 || c == '"' || c == '\\'
		mode := 0 // 0 verbatim, 1 short escape, 2 \uXXXX
		switch {
		case plain || st.esc == 0:
			if must {
				mode = 2
				if short != "" {
					mode = 1
				}
			}
		case st.esc == 2:
			mode = 2
		default:
			mode = st.r.IntN(3)
			if mode == 1 && short == "" {
				mode = 0
			}
			if mode == 0 && must {
				mode = 2
			}
		}
		switch mode {
		case 0:
			b.WriteRune(c)
		case 1:
			b.WriteString(short)
		default:
			c10WriteU(b, st.r, c)
		}
	}
	b.WriteByte('"')
}

func (st *c10Style) write(b *bytes.Buffer, n *c10Node, label bool) {
	switch n.kind {
	case c10Null:
		b.WriteString("null")
	case c10Bool:
		if n.b {
			b.WriteString("true")
		} else {
			b.WriteString("false")
		}
	case c10Num, c10Raw:
		b.WriteString(n.s)
	case c10Str:
		st.str(b, n.s, label && st.plain)
	case c10Arr:
		b.WriteByte('[')
		st.depth++
		for i, x := range n.kids {
			if i > 0 {
				b.WriteByte(',')
			}
			st.space(b)
			st.write(b, x, st.depth == 1 && i == 0)
			st.space(b)
		}
		if len(n.kids) == 0 {
			st.space(b)
		}
		st.depth--
		b.WriteByte(']')
	case c10Obj:
		order := make([]int, len(n.kids))
		for i := range order {
			order[i] = i
		}
		if st.shuffle {
			st.r.Shuffle(len(order), func(i, j int) { order[i], order[j] = order[j], order[i] })
		}
		b.WriteByte('{')
		st.depth++
		for k, i := range order {
			if k > 0 {
				b.WriteByte(',')
			}
			st.space(b)
			st.str(b, n.keys[i], st.plain)
			st.space(b)
			b.WriteByte(':')
			st.space(b)
			st.write(b, n.kids[i], false)
			st.space(b)
		}
		if len(n.kids) == 0 {
			st.space(b)
		}
		st.depth--
		b.WriteByte('}')
	}
}

// c10Render writes a tree. With wellFormed the label and the member names stay
// unescaped (escaped labels are outside what the statement claims for ParseClientMsg).
func c10Render(r *rand.Rand, tree *c10Node, wellFormed bool) []byte {
	st := &c10Style{r: r, ws: r.IntN(3), esc: r.IntN(2), shuffle: r.IntN(2) == 0}
	if r.IntN(8) == 0 {
		st.esc = 2
	}
	st.plain = wellFormed || r.IntN(4) != 0
	var b bytes.Buffer
	st.space(&b)
	st.write(&b, tree, false)
	st.space(&b)
	return b.Bytes()
}

// ---------------------------------------------------------------------------
// tree-level mutators

var c10NumberCatalogue = []string{
	"1e999", "-1e999", "-0", "0", "1", "-1", "9223372036854775807", "9223372036854775808", "-9223372036854775808",
	"-9223372036854775809", "18446744073709551615", "18446744073709551616", "1.0", "1e2", "1E2", "100e-2", "0.5",
	"1.5", "01", "+1", ".5", "1.", "1e", "0x10", "NaN", "Infinity", "-Infinity", "1_000", "65535", "65536",
	"4294967296", "9007199254740993", "1e18", "1e19", "0e0", "-0.0", "0.00000000000000000000000010e25", "1e-999",
	strings.Repeat("9", 400), "-" + strings.Repeat("1", 400), "1." + strings.Repeat("0", 400), "1" + strings.Repeat("0", 30),
}

var c10RawStrings = []string{
	"\"\xff\xfe\"", "\"\xc0\x80\"", "\"\xed\xa0\x80\"", "\"\xf4\x90\x80\x80\"", "\"abc\xe2\x82\"", "\"\x80\"",
	`"\ud800"`, `"\udc00\ud800"`, `"\ud83d"`, `"\ud83d\ude00"`, `"\uD83DA"`, `"\udfff"`,
	"\"\x00\"", `"\u0000"`, "\"\x7f\"", "\"\t\"", "\"\n\"", `"\x41"`, `"\u12"`, `"\u12G4"`, `"\`, `"\"`, `"abc`, `'abc'`,
	"\"\xef\xbb\xbf\"", "\"\ufeff\"", "\"\ufffe\uffff\"", `"  "`, `"\/\b\f"`, `""`, `"\\"`, `"\\\""`,
	`"EVENT"`, `"EVENT"`, `"event"`, `"EVENT "`, `" EVENT"`,
}

var c10Labels = []string{"EVENT", "REQ", "CLOSE", "AUTH", "COUNT", "EOSE", "NOTICE", "OK", "CLOSED"}

func c10Nest(open, close string, depth int, core string) string {
	return strings.Repeat(open, depth) + core + strings.Repeat(close, depth)
}

func c10Replacement(r *rand.Rand) *c10Node {
	switch r.IntN(16) {
	case 0:
		return c10NNull()
	case 1:
		return c10NBool(r.IntN(2) == 0)
	case 2, 3:
		return c10NNum(vk.Pick(r, c10NumberCatalogue))
	case 4:
		return c10NStr("")
	case 5:
		return c10NStr(vk.HostileString(r, 10))
	case 6:
		return c10NArr()
	case 7:
		return c10NObj()
	case 8:
		return c10NArr(c10NArr())
	case 9:
		return c10NObj().put("a", c10NNum("1"))
	case 10, 11:
		return c10NRaw(vk.Pick(r, c10RawStrings))
	case 12:
		return c10NArr(c10NNull())
	case 13:
		return c10NRaw(c10Nest("[", "]", vk.Pick(r, []int{3, 40, 300}), vk.Pick(r, []string{"", "1", `"x"`, "null"})))
	case 14:
		return c10NRaw(c10Nest(`{"a":`, "}", vk.Pick(r, []int{3, 40, 300}), vk.Pick(r, []string{"1", `"x"`, "null", "{}"})))
	default:
		return c10NStr(vk.Pick(r, append([]string{"event", "EVENT2", "ids", "#e"}, c10Labels...)))
	}
}

type c10Slot struct {
	parent *c10Node
	i      int
}

func c10Slots(root *c10Node) []c10Slot {
	var out []c10Slot
	var walk func(n *c10Node)
	walk = func(n *c10Node) {
		for i, k := range n.kids {
			out = append(out, c10Slot{n, i})
			walk(k)
		}
	}
	walk(root)
	return out
}

var c10TreeMutators = []string{
	"tree/type-swap", "tree/delete", "tree/duplicate-key-or-element", "tree/rename-key", "tree/add-member",
	"tree/swap-values", "tree/number", "tree/raw-string", "tree/string-tweak", "tree/wrap-deeper", "tree/label",
}

// c10MutateTree applies one structural mutation to a copy of tree and names it.
func c10MutateTree(r *rand.Rand, tree *c10Node) (*c10Node, string) {
	holder := c10NArr(tree.clone()) // so that the root is a slot as well
	slots := c10Slots(holder)
	name := c10TreeMutators[r.IntN(len(c10TreeMutators))]
	pick := func(ok func(s c10Slot) bool) (c10Slot, bool) {
		var c []c10Slot
		for _, s := range slots {
			if ok(s) {
				c = append(c, s)
			}
		}
		if len(c) == 0 {
			return c10Slot{}, false
		}
		return c[r.IntN(len(c))], true
	}
	all := func(c10Slot) bool { return true }
	inner := func(s c10Slot) bool { return s.parent != holder }
	ofKind := func(k int) func(s c10Slot) bool {
		return func(s c10Slot) bool { return s.parent.kids[s.i].kind == k }
	}
	switch name {
	case "tree/type-swap":
		s, _ := pick(all)
		s.parent.kids[s.i] = c10Replacement(r)
	case "tree/delete":
		if s, ok := pick(inner); ok {
			p := s.parent
			p.kids = append(p.kids[:s.i:s.i], p.kids[s.i+1:]...)
			if p.kind == c10Obj {
				p.keys = append(p.keys[:s.i:s.i], p.keys[s.i+1:]...)
			}
		}
	case "tree/duplicate-key-or-element":
		if s, ok := pick(inner); ok {
			p := s.parent
			d := p.kids[s.i].clone()
			if r.IntN(2) == 0 {
				d = c10Replacement(r)
			}
			if p.kind == c10Obj {
				if r.IntN(2) == 0 { // duplicate last (the one most decoders keep) or first
					p.put(p.keys[s.i], d)
				} else {
					p.keys = append([]string{p.keys[s.i]}, p.keys...)
					p.kids = append([]*c10Node{d}, p.kids...)
				}
			} else {
				p.kids = append(p.kids, d)
			}
		}
	case "tree/rename-key":
		if s, ok := pick(func(s c10Slot) bool { return s.parent.kind == c10Obj }); ok {
			k := s.parent.keys[s.i]
			switch r.IntN(8) {
			case 0:
				k = strings.ToUpper(k)
			case 1:
				k = strings.ReplaceAll(strings.ReplaceAll(k, "k", "K"), "s", "ſ") // Kelvin sign, long s
			case 2:
				k = k + "x"
			case 3:
				k = ""
			case 4:
				k = vk.Pick(r, []string{"#", "#ee", "#1", "#é", "#_", "# e", "#E", "#e", "##"})
			case 5:
				k = vk.Pick(r, []string{"id", "ids", "kind", "kinds", "since", "until", "limit", "count", "approximate", "tags", "sig", "authors", "search"})
			case 6:
				if len(k) > 0 {
					k = strings.ToUpper(k[:1]) + k[1:]
				}
			default:
				k = vk.HostileString(r, 5)
			}
			s.parent.keys[s.i] = k
		}
	case "tree/add-member":
		if s, ok := pick(func(s c10Slot) bool { k := s.parent.kids[s.i].kind; return k == c10Arr || k == c10Obj }); ok {
			n := s.parent.kids[s.i]
			if n.kind == c10Arr {
				n.kids = append(n.kids, c10Replacement(r))
			} else {
				n.put(vk.Pick(r, []string{"extra", "id", "limit", "#e", "#x", "search", "count", "approximate", "COUNT", "Kind", "ID", ""}), c10Replacement(r))
			}
		}
	case "tree/swap-values":
		a, _ := pick(all)
		b, _ := pick(all)
		va, vb := a.parent.kids[a.i].clone(), b.parent.kids[b.i].clone()
		a.parent.kids[a.i], b.parent.kids[b.i] = vb, va
	case "tree/number":
		if s, ok := pick(ofKind(c10Num)); ok {
			s.parent.kids[s.i] = c10NNum(vk.Pick(r, c10NumberCatalogue))
		} else if s, ok := pick(ofKind(c10Str)); ok {
			s.parent.kids[s.i] = c10NNum(vk.Pick(r, c10NumberCatalogue))
		}
	case "tree/raw-string":
		if s, ok := pick(ofKind(c10Str)); ok {
			s.parent.kids[s.i] = c10NRaw(vk.Pick(r, c10RawStrings))
		}
	case "tree/string-tweak":
		if s, ok := pick(ofKind(c10Str)); ok {
			n := s.parent.kids[s.i]
			switch r.IntN(7) {
			case 0:
				n.s = strings.ToUpper(n.s)
			case 1:
				if len(n.s) > 0 {
					n.s = strings.ToValidUTF8(n.s[:len(n.s)-1], "")
				}
			case 2:
				n.s += "0"
			case 3:
				n.s = strings.Repeat("a", vk.Pick(r, []int{1000, 70000}))
			case 4:
				n.s = vk.Pick(r, c10Prefixes[1:]) + n.s
			case 5:
				n.s = ""
			default:
				n.s = vk.HostileString(r, 30)
			}
		}
	case "tree/wrap-deeper":
		s, _ := pick(all)
		v := s.parent.kids[s.i]
		for k := 1 + r.IntN(4); k > 0; k-- {
			if r.IntN(2) == 0 {
				v = c10NArr(v)
			} else {
				v = c10NObj().put(vk.Pick(r, []string{"a", "tags", "ids", "#e"}), v)
			}
		}
		s.parent.kids[s.i] = v
	case "tree/label":
		root := holder.kids[0]
		if root.kind == c10Arr && len(root.kids) > 0 {
			root.kids[0] = c10NStr(vk.Pick(r, c10Labels))
		} else {
			holder.kids[0] = c10NArr(c10NStr(vk.Pick(r, c10Labels)), root)
		}
	}
	return holder.kids[0], name
}

// ---------------------------------------------------------------------------
// text-level mutators

type c10Span struct{ a, b int }

// c10Tokens splits a text loosely into JSON-ish tokens (strings, bare words/numbers,
// single punctuation characters); whitespace is skipped.
func c10Tokens(t []byte) []c10Span {
	var out []c10Span
	for i := 0; i < len(t); {
		c := t[i]
		switch {
		case c == ' ' || c == '\t' || c == '\n' || c == '\r':
			i++
		case c == '"':
			j := i + 1
			for j < len(t) && t[j] != '"' {
				if t[j] == '\\' {
					j++
				}
				j++
			}
			if j >= len(t) {
				j = len(t) - 1
			}
			out = append(out, c10Span{i, j + 1})
			i = j + 1
		case c == '-' || c == '+' || c == '.' || c >= '0' && c <= '9' || c >= 'a' && c <= 'z' || c >= 'A' && c <= 'Z':
			j := i + 1
			for j < len(t) && (t[j] == '-' || t[j] == '+' || t[j] == '.' || t[j] >= '0' && t[j] <= '9' || t[j] >= 'a' && t[j] <= 'z' || t[j] >= 'A' && t[j] <= 'Z') {
				j++
			}
			out = append(out, c10Span{i, j})
			i = j
		default:
			out = append(out, c10Span{i, i + 1})
			i++
		}
	}
	return out
}

var c10TextMutators = []string{
	"text/bit-flip", "text/byte-set", "text/insert", "text/delete-range", "text/truncate", "text/duplicate-range",
	"text/token-delete", "text/token-duplicate", "text/token-swap", "text/token-replace", "text/splice",
	"text/prefix", "text/suffix", "text/invalid-utf8", "text/nul",
}

var c10TokenCatalogue = []string{
	"null", "true", "false", "0", "-1", "1e999", "-0", "1.5", "9223372036854775808", `""`, `"x"`, "[]", "{}", "[[]]", `{"a":1}`,
	"[", "]", "{", "}", ",", ":", `"`, "\\", `"\ud800"`, "\"\xff\"", `"EVENT"`, `"REQ"`, `"id"`, `"#e"`, "nul", "tru", "\x00", "\xef\xbb\xbf",
}

func c10Splice(t []byte, a, b int, ins []byte) []byte {
	out := make([]byte, 0, len(t)-(b-a)+len(ins))
	out = append(out, t[:a]...)
	out = append(out, ins...)
	return append(out, t[b:]...)
}

// c10MutateText applies one byte- or token-level mutation and names it. other is a
// second seed text for splicing.
func c10MutateText(r *rand.Rand, t, other []byte) ([]byte, string) {
	name := c10TextMutators[r.IntN(len(c10TextMutators))]
	if len(t) == 0 {
		return []byte(vk.Pick(r, c10TokenCatalogue)), "text/insert"
	}
	pos := r.IntN(len(t))
	switch name {
	case "text/bit-flip":
		out := append([]byte(nil), t...)
		out[pos] ^= 1 << r.IntN(8)
		return out, name
	case "text/byte-set":
		out := append([]byte(nil), t...)
		if r.IntN(2) == 0 {
			out[pos] = byte(r.IntN(256))
		} else {
			const structural = `[]{},:"\0-e.nt `
			out[pos] = structural[r.IntN(len(structural))]
		}
		return out, name
	case "text/insert":
		return c10Splice(t, pos, pos, []byte(vk.Pick(r, c10TokenCatalogue))), name
	case "text/delete-range":
		n := 1 + r.IntN(8)
		if pos+n > len(t) {
			n = len(t) - pos
		}
		return c10Splice(t, pos, pos+n, nil), name
	case "text/truncate":
		return append([]byte(nil), t[:pos]...), name
	case "text/duplicate-range":
		n := 1 + r.IntN(40)
		if pos+n > len(t) {
			n = len(t) - pos
		}
		return c10Splice(t, pos, pos, t[pos:pos+n]), name
	case "text/splice":
		if len(other) == 0 {
			other = t
		}
		q := r.IntN(len(other))
		return append(append([]byte(nil), t[:pos]...), other[q:]...), name
	case "text/prefix":
		p := vk.Pick(r, []string{"\xef\xbb\xbf", " ", "\n\t\r ", "\x00", "\x0b", "\xa0", "x", "[", "null", "[]", ",", "/**/", "\ufeff\ufeff", " "})
		return append([]byte(p), t...), name
	case "text/suffix":
		s := vk.Pick(r, []string{" ", "\n", "\x00", "]", "}", ",", "null", "[]", "x", `["CLOSE","x"]`, "\xef\xbb\xbf", "//", "\x0b"})
		return append(append([]byte(nil), t...), s...), name
	case "text/invalid-utf8":
		bad := vk.Pick(r, []string{"\xff", "\xc0\x80", "\xed\xa0\x80", "\xf4\x90\x80\x80", "\xe2\x82", "\x80", "\xf8\x88\x80\x80\x80"})
		return c10Splice(t, pos, pos, []byte(bad)), name
	case "text/nul":
		return c10Splice(t, pos, pos, []byte{0}), name
	}
	toks := c10Tokens(t)
	if len(toks) == 0 {
		return append([]byte(nil), t...), name
	}
	k := toks[r.IntN(len(toks))]
	switch name {
	case "text/token-delete":
		return c10Splice(t, k.a, k.b, nil), name
	case "text/token-duplicate":
		return c10Splice(t, k.b, k.b, t[k.a:k.b]), name
	case "text/token-swap":
		k2 := toks[r.IntN(len(toks))]
		if k2.a < k.a {
			k, k2 = k2, k
		}
		if k.b > k2.a {
			return append([]byte(nil), t...), name
		}
		out := append([]byte(nil), t[:k.a]...)
		out = append(out, t[k2.a:k2.b]...)
		out = append(out, t[k.b:k2.a]...)
		out = append(out, t[k.a:k.b]...)
		return append(out, t[k2.b:]...), name
	default: // text/token-replace
		return c10Splice(t, k.a, k.b, []byte(vk.Pick(r, c10TokenCatalogue))), "text/token-replace"
	}
}

// c10Soup: byte strings that are not derived from any valid text.
func c10Soup(r *rand.Rand) []byte {
	n := r.IntN(40)
	out := make([]byte, 0, n)
	switch r.IntN(3) {
	case 0:
		for i := 0; i < n; i++ {
			out = append(out, byte(r.IntN(256)))
		}
	case 1:
		for i := 0; i < n; i++ {
			out = append(out, vk.Pick(r, c10TokenCatalogue)...)
		}
	default:
		out = append(out, `["`+vk.Pick(r, c10Labels)+`"`...)
		for i := 0; i < n/4; i++ {
			out = append(out, ',')
			out = append(out, vk.Pick(r, c10TokenCatalogue)...)
		}
		if r.IntN(2) == 0 {
			out = append(out, ']')
		}
	}
	return out
}

// c10DepthBomb: nesting far beyond what any message needs, in the positions where a
// decoder descends (top level, event member, tag list, filter member, payload).
func c10DepthBomb(r *rand.Rand, depth int) ([]byte, string) {
	ev := `"id":"` + c10Hex(r, 64) + `","pubkey":"` + c10Hex(r, 64) + `","created_at":1,"kind":1,"content":"","sig":"` + c10Hex(r, 128) + `"`
	shape := r.IntN(12)
	closed := r.IntN(3) != 0
	nest := func(open, close, core string) string {
		if closed {
			return c10Nest(open, close, depth, core)
		}
		return strings.Repeat(open, depth)
	}
	var s string
	switch shape {
	case 0:
		s = nest("[", "]", "")
	case 1:
		s = nest(`{"a":`, "}", "1")
	case 2:
		s = `["EVENT",` + nest("[", "]", "") + `]`
	case 3:
		s = `["EVENT",{` + ev + `,"tags":` + nest("[", "]", "") + `}]`
	case 4:
		s = `{` + ev + `,"tags":[[` + nest("[", "]", `"e"`) + `]]}`
	case 5:
		s = `["REQ","s",{"#e":` + nest("[", "]", `"x"`) + `}]`
	case 6:
		s = `["REQ","s",` + nest(`{"ids":`, "}", "[]") + `]`
	case 7:
		s = `{"kinds":` + nest("[", "]", "1") + `}`
	case 8:
		s = `["COUNT","s",{"count":` + nest("[", "]", "1") + `}]`
	case 9:
		s = `["EVENT","s",` + nest(`{"tags":`, "}", "[]") + `]`
	case 10:
		s = `["OK","` + c10Hex(r, 64) + `",true,` + nest("[", "]", `""`) + `]`
	default:
		s = `["AUTH",` + nest(`[{"a":`, "}]", "null") + `]`
	}
	return []byte(s), fmt.Sprintf("bomb/shape%d", shape)
}
