#!/usr/bin/env python3
"""ownmut.py [names...] — small hand-written mutations of /repo (textual replacements) used as a
sensitivity check of the monitors. For each: build the diff in a scratch worktree, run the
repository's own suite (does the existing suite already catch it?), run the property's quick check,
store the patch under seeded/own/<ID>/<name>.diff and append the outcome to seeded/own/RESULTS.md."""
import json, os, subprocess, sys

V = os.path.dirname(os.path.dirname(os.path.abspath(__file__)))
M = []


def m(prop, name, file, old, new, checks=None, desc=""):
    M.append(dict(prop=prop, name=name, file=file, old=old, new=new, checks=checks or [prop], desc=desc))


# ---- C03
m("C03", "index-topk-off-by-one", "event_cache.go", "\t\tif cnt > limit {", "\t\tif cnt >= limit && limit > 0 {", desc="index path keeps limit-1 events")
m("C03", "scan-ignores-limit", "event_cache.go", "\t\t\t\tif m.Done() {\n\t\t\t\t\tbreak\n\t\t\t\t}\n", "", desc="scan path no longer stops at the limit")
m("C03", "stale-index-on-delete", "event_cache.go", "\t// evsIndex\n\tc.evsIndex.Delete(cand)\n", "\t// evsIndex\n", desc="removed events stay in the index")
# ---- C04
m("C04", "evict-one-early", "event_cache.go", "\tif len(c.evs) > c.Cap {", "\tif len(c.evs) >= c.Cap && c.Cap > 1 {", desc="store holds capacity-1 events")
m("C04", "no-suppression-check", "event_cache.go", "\tif c.isDeleted(eventKey, event.Pubkey) || c.isDeleted(event.ID, event.Pubkey) {\n\t\treturn false\n\t}\n", "", desc="suppressed events are inserted")
m("C04", "older-version-replaces", "event_cache.go", "\t\tif old.CreatedAt >= event.CreatedAt {", "\t\tif old.CreatedAt == event.CreatedAt {", desc="an older version displaces the newer one")
# ---- C05
m("C05", "no-author-check-on-delete", "event_cache.go", "\tif cand.Pubkey != delEvKey.Pubkey {\n\t\treturn\n\t}\n", "", desc="any author can delete by id")
m("C05", "registry-not-cleaned", "event_cache.go", "\tif cand.Kind == 5 {\n\t\tkeys := c.getEventKeyFromKind5Tags(cand)", "\tif cand.Kind == 5 && false {\n\t\tkeys := c.getEventKeyFromKind5Tags(cand)", desc="targets stay blocked after their deletion request left")
# ---- C06
m("C06", "upsert-ignores-age", "handler/sqlite/insert.go", " \tand\n \tevents.created_at < excluded.created_at\n", "", desc="an older version overwrites the newer one")
m("C06", "since-exclusive", "handler/sqlite/query.go", "b = b.Where(createdAtCol.Gte(*since))", "b = b.Where(createdAtCol.Gt(*since))", desc="since is exclusive")
m("C06", "tombstone-ignores-author", "handler/sqlite/query.go", "\t\t\t\tWhere(dIDPubkey.Eq(pubkeyCol)),", "\t\t\t\tWhere(dIDPubkey.IsNotNull()),", desc="a foreign deletion request hides the event")
# ---- C07
m("C07", "blocking-enqueue", "handler.go", "\t\ttrySendCtx(context.TODO(), sub.Ch,", "\t\tsendCtx(context.TODO(), sub.Ch,", desc="publish blocks on a full subscriber buffer")
m("C07", "no-unsubscribe-all", "handler.go", "\tdefer router.subs.UnsubscribeAll(reqID)\n", "", checks=["C07", "C13"], desc="registry keeps finished connections")
m("C07", "close-ignored", "handler.go", "\t\trouter.subs.Unsubscribe(reqID, msg.SubscriptionID)\n", "", desc="CLOSE does not stop delivery")
# ---- C08
m("C08", "eose-on-first-child", "handler.go", "\ts.SetEOSE(m.SubscriptionID, msg.Idx)\n\tif !s.AllEOSE(m.SubscriptionID) {\n\t\treturn nil\n\t}\n", "\ts.SetEOSE(m.SubscriptionID, msg.Idx)\n", desc="every child EOSE is forwarded")
m("C08", "no-dedup", "handler.go", "\tif stat.seen[msg.SubscriptionID] == nil || stat.seen[msg.SubscriptionID][msg.Event.ID] {\n\t\treturn false\n\t}\n", "\tif stat.seen[msg.SubscriptionID] == nil {\n\t\treturn false\n\t}\n", desc="duplicates forwarded before EOSE")
m("C08", "no-limit", "handler.go", "\tif stat.matcher[msg.SubscriptionID].Done() {\n\t\treturn false\n\t}\n", "", desc="limit not enforced before EOSE")
# ---- C09
m("C09", "accept-if-any-accepts", "handler.go", "\tif len(ngs) > 0 {\n\t\treturn joinServerOKMsgs(ngs...)\n\t}\n\n\treturn joinServerOKMsgs(oks...)", "\tif len(oks) > 0 {\n\t\treturn joinServerOKMsgs(oks...)\n\t}\n\n\treturn joinServerOKMsgs(ngs...)", desc="accepted when any child accepts")
m("C09", "count-minimum", "handler.go", "\treturn slices.MaxFunc(\n\t\tstat.counts[subID][0],", "\treturn slices.MinFunc(\n\t\tstat.counts[subID][0],", desc="minimum instead of maximum")
# ---- C12
m("C12", "binary-frames-accepted", "relay.go", "\tif typ != websocket.MessageText {", "\tif typ != websocket.MessageText && false {", desc="binary frames are parsed like text")
m("C12", "silent-on-invalid-json", "relay.go", "\t\tnotice := NewServerNoticeMsgf(\"invalid json msg\")\n\t\tsendServerMsgCtx(ctx, send, notice)\n", "", desc="no rejection for frames that are not JSON")
m("C12", "no-signature-check", "relay.go", "\t\tif !valid {", "\t\tif !valid && false {", checks=["C12"], desc="forged events reach the handler")
# ---- C13
m("C13", "merge-keeps-children-inbound-open", "handler.go", "\t\tdefer ss.closeRecvs()\n", "", desc="children's inbound channels are never closed")
m("C13", "prometheus-no-dec", "middleware/prometheus/prometheus.go", "func (c *connectionCounter) ServeNostrEnd(ctx context.Context) error {\n\tc.c.Dec()", "func (c *connectionCounter) ServeNostrEnd(ctx context.Context) error {", checks=["C13", "C19"], desc="connection gauge never decremented")
# ---- C14
m("C14", "commit-on-error", "handler/sqlite/insert.go", "\t\t\terr = errors.Join(err, tx.Rollback())\n\t\t\treturn\n", "\t\t\terr = errors.Join(err, tx.Commit())\n\t\t\treturn\n", desc="a failed batch is committed")
m("C14", "seed-regenerated", "handler/sqlite/migrate.go", "\tif err := db.QueryRowContext(ctx, \"select seed from xxhash_seed\").Scan(&seed); err != nil {\n\t\tif err == sql.ErrNoRows {", "\tif err := db.QueryRowContext(ctx, \"select seed from xxhash_seed where 1 = 0\").Scan(&seed); err != nil {\n\t\tdb.ExecContext(ctx, \"delete from xxhash_seed\")\n\t\tif err == sql.ErrNoRows {", desc="a new hash seed at every open")
# ---- C15
m("C15", "find-without-lock", "event_cache.go", "\tc.mu.RLock()\n\tdefer c.mu.RUnlock()\n\n\tif c.len() == 0 {\n\t\treturn nil\n\t}\n\tverifPoint(\"cache.find.locked\")", "\tif c.len() == 0 {\n\t\treturn nil\n\t}\n\tverifPoint(\"cache.find.locked\")", desc="queries read the store without the lock")
# ---- C16
m("C16", "cache-ok-always-true", "handler.go", "\t\t\tokMsg = NewServerOKMsg(msg.Event.ID, false, MachineReadablePrefixDuplicate, \"already have this event\")", "\t\t\tokMsg = NewServerOKMsg(msg.Event.ID, true, \"\", \"\")", desc="rejected insertions answered with OK true")
m("C16", "eose-before-events", "handler.go", "\t\tfor _, ev := range evs {\n\t\t\tsmsgCh <- NewServerEventMsg(msg.SubscriptionID, ev)\n\t\t}\n\t\tsmsgCh <- NewServerEOSEMsg(msg.SubscriptionID)\n\t\treturn smsgCh, nil", "\t\tsmsgCh <- NewServerEOSEMsg(msg.SubscriptionID)\n\t\tfor _, ev := range evs {\n\t\t\tsmsgCh <- NewServerEventMsg(msg.SubscriptionID, ev)\n\t\t}\n\t\treturn smsgCh, nil", desc="EOSE sent before the stored events")
m("C16", "dump-drops-oldest", "handler.go", "\tb, err := json.Marshal(events)\n\tif err != nil {\n\t\treturn fmt.Errorf(\"failed to marshal events: %w\", err)", "\tif len(events) > 3 {\n\t\tevents = events[:len(events)-1]\n\t}\n\tb, err := json.Marshal(events)\n\tif err != nil {\n\t\treturn fmt.Errorf(\"failed to marshal events: %w\", err)", desc="the dump omits the oldest event")
# ---- C01 / C02
m("C01", "verify-skips-signature", "message.go", "\treturn sig.Verify(idBin, pubkey), nil", "\t_ = sig\n\t_ = pubkey\n\treturn true, nil", desc="signature not verified")
m("C02", "until-exclusive", "event_matcher.go", "\t\tif *m.f.Until < event.CreatedAt {", "\t\tif *m.f.Until <= event.CreatedAt {", desc="until is exclusive")


def sh(cmd, cwd=None):
    p = subprocess.run(cmd, shell=True, cwd=cwd, stdout=subprocess.PIPE, stderr=subprocess.STDOUT, text=True)
    return p.returncode, p.stdout


def main():
    want = sys.argv[1:]
    res_path = os.path.join(V, "seeded", "own", "RESULTS.md")
    lines = []
    for mu in M:
        tag = "%s/%s" % (mu["prop"], mu["name"])
        if want and tag not in want and mu["prop"] not in want:
            continue
        W = "/tmp/ownmut.%d" % os.getpid()
        sh("git -C /repo worktree add --detach %s HEAD" % W)
        try:
            p = os.path.join(W, mu["file"])
            s = open(p).read()
            if s.count(mu["old"]) != 1:
                print(tag, "PATTERN NOT FOUND (%d)" % s.count(mu["old"]))
                continue
            open(p, "w").write(s.replace(mu["old"], mu["new"]))
            rc, out = sh("GOFLAGS=-mod=mod GOPROXY=off GOTOOLCHAIN=local go build ./... 2>&1 | tail -3", W)
            if "error" in out or ".go:" in out:
                print(tag, "DOES NOT BUILD", out.strip()[:200])
                continue
            d = os.path.join(V, "seeded", "own", mu["prop"])
            os.makedirs(d, exist_ok=True)
            patch = os.path.join(d, "mine-%s.diff" % mu["name"])
            rc, diff = sh("git diff", W)
            open(patch, "w").write(diff)
            rc, out = sh("VERIF_REPO=%s %s/tools/baseline.sh" % (W, V))
            suite = "suite passes" if rc == 0 else "SUITE FAILS (%s)" % out.strip()[-120:]
        finally:
            sh("git -C /repo worktree remove --force %s" % W)
        outcome = []
        for c in mu["checks"]:
            rc, out = sh("LINES_MAX=6 %s/tools/trymut.sh %s %s" % (V, patch, c))
            fired = "VIOLATION property=" in out
            sig = [l.strip().split(" ")[0].replace("signature=", "") for l in out.splitlines() if "signature=" in l][:1]
            outcome.append("%s: %s" % (c, ("DETECTED " + (sig[0] if sig else "")) if fired else "missed"))
        line = "| %s | %s | %s | %s |" % (tag, mu["desc"], suite, "; ".join(outcome))
        print(line)
        lines.append(line)
    if lines and not want:
        hdr = ["# Hand-written mutations (sensitivity check)", "", "Generated by `tools/ownmut.py` (quick tier, seed 1).", "",
               "| mutation | what | repository suite | checks |", "|---|---|---|---|"]
        open(res_path, "w").write("\n".join(hdr + lines) + "\n")


if __name__ == "__main__":
    main()
