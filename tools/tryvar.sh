#!/bin/sh
# tryvar.sh <ID> [checks...] : run the checks against every property-preserving variation
# delivered in /tmp/var/<ID>/out/v*/patch.diff (expected outcome: OK, no violation)
VH=$(cd "$(dirname "$0")/.." && pwd)
ID=$1; shift
CH=${@:-$ID}
for p in /tmp/var/$ID/out/v*/patch.diff; do
  [ -f "$p" ] || continue
  for c in $CH; do
    r=$($VH/tools/trymut.sh $p $c 2>&1 | grep -v conda | grep "signature=\|^OK\|HARNESS\|INCONCLUSIVE\|patch does not" | head -3 | cut -c1-220 | tr '\n' ' ')
    echo "$ID $(basename $(dirname $p)) -> $c: $r"
  done
done
