package verifkit

import (
	"fmt"
	"sort"
	"strconv"

	"github.com/high-moctane/mocrelay"
)

// Specification of the stores, written from the statements of C03-C06 (NIP-01 /
// NIP-09), not from the implementation. The observed state (the match-everything
// listing) is the specification state; CheckCacheStep decides whether an observed
// transition is one the specification allows. Where the statement leaves a choice
// (equal timestamps, which of several oldest events is evicted, which tied event falls
// under a limit) every choice is accepted.

type Class int

const (
	Regular Class = iota
	Replaceable
	Ephemeral
	Addressable
)

func ClassOf(kind int64) Class {
	switch {
	case kind == 0 || kind == 3 || (kind >= 10000 && kind <= 19999):
		return Replaceable
	case kind >= 20000 && kind <= 29999:
		return Ephemeral
	case kind >= 30000 && kind <= 39999:
		return Addressable
	}
	return Regular
}

// DValue returns the d value of an addressable event (first d tag; "" if it has no
// value) and whether a d tag is present at all.
func DValue(e *mocrelay.Event) (string, bool) {
	for _, t := range e.Tags {
		if len(t) >= 1 && t[0] == "d" {
			if len(t) >= 2 {
				return t[1], true
			}
			return "", true
		}
	}
	return "", false
}

// Address is the replacement address of an event: "kind:pubkey" for replaceable kinds,
// "kind:pubkey:d" for addressable ones ("" for the other classes). An addressable event
// without a d tag is addressed like d = "" (NIP-01/NIP-33 reading; monitors that judge
// strictly do not generate such events).
func Address(e *mocrelay.Event) string {
	switch ClassOf(e.Kind) {
	case Replaceable:
		return strconv.FormatInt(e.Kind, 10) + ":" + e.Pubkey
	case Addressable:
		d, _ := DValue(e)
		return strconv.FormatInt(e.Kind, 10) + ":" + e.Pubkey + ":" + d
	}
	return ""
}

// DeletionRefs lists what a deletion request references: ids (e tags) and addresses
// (a tags); tags need a name and a value, further elements (relay hints) are ignored.
func DeletionRefs(k *mocrelay.Event) (ids, addrs []string) {
	if k.Kind != 5 {
		return
	}
	for _, t := range k.Tags {
		if len(t) < 2 {
			continue
		}
		switch t[0] {
		case "e":
			ids = append(ids, t[1])
		case "a":
			addrs = append(addrs, t[1])
		}
	}
	return
}

// References tells whether deletion request k (already known to be kind 5) references x
// by id, or by address when x is addressable.
func References(k, x *mocrelay.Event) bool {
	ids, addrs := DeletionRefs(k)
	for _, id := range ids {
		if id == x.ID {
			return true
		}
	}
	if ClassOf(x.Kind) == Addressable {
		a := Address(x)
		for _, ad := range addrs {
			if ad == a {
				return true
			}
		}
	}
	return false
}

// SuppressedBy returns a retained deletion request of x's author that references x.
func SuppressedBy(R []*mocrelay.Event, x *mocrelay.Event) *mocrelay.Event {
	for _, k := range R {
		if k.Kind == 5 && k.Pubkey == x.Pubkey && k.ID != x.ID && References(k, x) {
			return k
		}
	}
	return nil
}

func idSet(R []*mocrelay.Event) map[string]*mocrelay.Event {
	m := make(map[string]*mocrelay.Event, len(R))
	for _, e := range R {
		m[e.ID] = e
	}
	return m
}

func sortedIDs(R []*mocrelay.Event) []string {
	s := make([]string, len(R))
	for i, e := range R {
		s[i] = e.ID
	}
	sort.Strings(s)
	return s
}

func sameIDs(a, b []*mocrelay.Event) bool {
	if len(a) != len(b) {
		return false
	}
	x, y := sortedIDs(a), sortedIDs(b)
	for i := range x {
		if x[i] != y[i] {
			return false
		}
	}
	return true
}

// CheckInvariants: the global retention invariants of C04 on a listing.
func CheckInvariants(capacity int, R []*mocrelay.Event) (sig, why string) {
	if len(R) > capacity {
		return "invariant/over-capacity", fmt.Sprintf("%d events retained, capacity %d", len(R), capacity)
	}
	ids := map[string]bool{}
	addrs := map[string]string{}
	for _, e := range R {
		if ids[e.ID] {
			return "invariant/duplicate-id", "id " + e.ID + " listed twice"
		}
		ids[e.ID] = true
		if ClassOf(e.Kind) == Ephemeral {
			return "invariant/ephemeral-served", "ephemeral event " + e.ID + " is served from storage"
		}
		if a := Address(e); a != "" {
			if o, ok := addrs[a]; ok {
				return "invariant/two-versions", "address " + a + " holds " + o + " and " + e.ID
			}
			addrs[a] = e.ID
		}
	}
	for _, e := range R {
		if k := SuppressedBy(R, e); k != nil {
			return "invariant/deleted-yet-retained", "event " + e.ID + " is retained together with deletion request " + k.ID + " of its author that references it"
		}
	}
	return "", ""
}

// StepVerdict is the judgement of one observed Add.
type StepVerdict struct {
	OK    bool
	Sig   string // violation signature
	Why   string
	Class string // transition class (coverage)
}

func minus(R []*mocrelay.Event, drop map[string]bool) []*mocrelay.Event {
	var out []*mocrelay.Event
	for _, e := range R {
		if !drop[e.ID] {
			out = append(out, e)
		}
	}
	return out
}

// CheckCacheStep decides whether (before, Add(e) -> flag, after) is allowed by the
// retention/deletion specification for a store of the given capacity.
func CheckCacheStep(capacity int, before []*mocrelay.Event, e *mocrelay.Event, flag bool, after []*mocrelay.Event) StepVerdict {
	bad := func(class, sig, why string) StepVerdict {
		return StepVerdict{false, sig, why, class}
	}
	unchanged := sameIDs(before, after)
	explainDiff := func(want []*mocrelay.Event) string {
		w, g := idSet(want), idSet(after)
		s := ""
		for id, x := range w {
			if g[id] == nil {
				s += fmt.Sprintf(" missing %s(kind %d, author %.6s, at %d)", id[:8], x.Kind, x.Pubkey, x.CreatedAt)
			}
		}
		for id, x := range g {
			if w[id] == nil {
				s += fmt.Sprintf(" unexpected %s(kind %d, author %.6s, at %d)", id[:8], x.Kind, x.Pubkey, x.CreatedAt)
			}
		}
		return s
	}
	if ClassOf(e.Kind) == Ephemeral {
		if !unchanged {
			return bad("ephemeral", "step/ephemeral-changed-store", "an ephemeral event changed the retained set:"+explainDiff(before))
		}
		if !flag {
			return bad("ephemeral", "step/ephemeral-flag", "an ephemeral event was reported as not new although it is neither a duplicate, older, nor suppressed")
		}
		return StepVerdict{true, "", "", "ephemeral"}
	}
	if k := SuppressedBy(before, e); k != nil {
		if flag || !unchanged {
			sig := "step/suppressed-inserted"
			if unchanged {
				sig = "step/suppressed-flag"
			}
			return bad("suppressed", sig, fmt.Sprintf("event %.8s is referenced by retained deletion request %.8s of its author, yet flag=%v and the store changed=%v:%s", e.ID, k.ID, flag, !unchanged, explainDiff(before)))
		}
		return StepVerdict{true, "", "", "suppressed"}
	}
	bset := idSet(before)
	if bset[e.ID] != nil {
		if flag || !unchanged {
			return bad("duplicate", "step/duplicate", fmt.Sprintf("duplicate id %.8s: flag=%v, store changed=%v", e.ID, flag, !unchanged))
		}
		return StepVerdict{true, "", "", "duplicate"}
	}
	var cur *mocrelay.Event
	if a := Address(e); a != "" {
		for _, x := range before {
			if Address(x) == a {
				cur = x
			}
		}
	}
	if cur != nil && cur.CreatedAt > e.CreatedAt {
		if flag || !unchanged {
			return bad("older", "step/older-version", fmt.Sprintf("older version %.8s (at %d) of address held by %.8s (at %d): flag=%v, store changed=%v:%s", e.ID, e.CreatedAt, cur.ID, cur.CreatedAt, flag, !unchanged, explainDiff(before)))
		}
		return StepVerdict{true, "", "", "older"}
	}
	tie := cur != nil && cur.CreatedAt == e.CreatedAt
	if tie && !flag && unchanged {
		return StepVerdict{true, "", "", "tie-kept"}
	}
	// insertion path
	class := "new"
	drop := map[string]bool{}
	if cur != nil {
		drop[cur.ID] = true
		class = "replace"
	}
	base := append(minus(before, drop), e)
	if e.Kind == 5 {
		del := map[string]bool{}
		for _, x := range base {
			if x.Pubkey == e.Pubkey && x.ID != e.ID && References(e, x) {
				del[x.ID] = true
			}
		}
		if len(del) > 0 {
			class = "delete-" + strconv.Itoa(min(len(del), 3))
		} else {
			class = "deletion-request"
		}
		base = minus(base, del)
	}
	if !flag {
		why := "event is neither a duplicate, nor older than the retained version of its address, nor suppressed by a deletion request, but was reported as not new"
		return bad(class, "step/new-reported-old", why)
	}
	if e.Kind == 5 && References(e, e) {
		// a request that names itself: whether it stays ("the request itself is kept") or goes
		// ("removes the events it references") is left open; its other targets go either way
		without := minus(base, map[string]bool{e.ID: true})
		if len(without) <= capacity && sameIDs(without, after) {
			return StepVerdict{true, "", "", class + "+self-reference-removed"}
		}
		class += "+self-reference"
	}
	if len(base) <= capacity {
		if !sameIDs(base, after) {
			return bad(class, classifyDiff(before, e, base, after), "after inserting "+e.ID[:8]+":"+explainDiff(base))
		}
		if tie {
			class = "tie-replaced"
		}
		return StepVerdict{true, "", "", class}
	}
	// one event with the smallest created_at leaves
	minAt := base[0].CreatedAt
	for _, x := range base {
		if x.CreatedAt < minAt {
			minAt = x.CreatedAt
		}
	}
	for _, v := range base {
		if v.CreatedAt != minAt {
			continue
		}
		cand := minus(base, map[string]bool{v.ID: true})
		if sameIDs(cand, after) {
			if v.ID == e.ID {
				return StepVerdict{true, "", "", "evict-self"}
			}
			return StepVerdict{true, "", "", class + "+evict"}
		}
	}
	return bad(class+"+evict", classifyDiff(before, e, base, after), fmt.Sprintf("after inserting %.8s into a full store (capacity %d) one event with created_at %d should leave:%s", e.ID, capacity, minAt, explainDiff(base)))
}

// classifyDiff names the kind of disagreement between the expected set (before eviction)
// and the observed one, so that different defects carry different signatures.
func classifyDiff(before []*mocrelay.Event, e *mocrelay.Event, want, got []*mocrelay.Event) string {
	w, g, b := idSet(want), idSet(got), idSet(before)
	minAt := int64(1) << 62
	for _, x := range want {
		if x.CreatedAt < minAt {
			minAt = x.CreatedAt
		}
	}
	for id, x := range w {
		if g[id] != nil {
			continue
		}
		if id == e.ID {
			if x.CreatedAt == minAt {
				continue
			}
			return "step/inserted-event-missing"
		}
		if x.Pubkey != e.Pubkey && x.CreatedAt != minAt {
			return "step/foreign-event-removed"
		}
		if x.CreatedAt != minAt {
			return "step/own-event-removed"
		}
	}
	for id, x := range g {
		if w[id] != nil {
			continue
		}
		if b[id] != nil && e.Kind == 5 && x.Pubkey == e.Pubkey && References(e, x) {
			return "step/deletion-target-kept"
		}
		if b[id] != nil && Address(x) != "" && Address(x) == Address(e) {
			return "step/old-version-kept"
		}
		if b[id] == nil {
			return "step/unknown-event-appeared"
		}
	}
	if len(got) > len(want) {
		return "step/not-evicted"
	}
	return "step/wrong-eviction"
}

// ---------------------------------------------------------------------------
// query specification

type QueryVerdict struct {
	OK   bool
	Sig  string
	Why  string
	Ties int // filters whose limit cuts through a group of equal timestamps
}

// CheckQuery decides whether ans is an allowed answer for the filter list over the
// retained set R: for each filter the limit newest matching events (all without a
// limit), merged without duplicates in non-increasing created_at order.
func CheckQuery(R []*mocrelay.Event, fs []*mocrelay.ReqFilter, ans []*mocrelay.Event) QueryVerdict {
	bad := func(sig, why string) QueryVerdict { return QueryVerdict{false, sig, why, 0} }
	inR := idSet(R)
	seen := map[string]bool{}
	for i, a := range ans {
		if a == nil {
			return bad("query/nil-event", "nil event in answer")
		}
		if seen[a.ID] {
			return bad("query/duplicate", "event "+a.ID+" returned twice")
		}
		seen[a.ID] = true
		if i > 0 && ans[i-1].CreatedAt < a.CreatedAt {
			return bad("query/order", fmt.Sprintf("created_at increases from %d to %d at position %d", ans[i-1].CreatedAt, a.CreatedAt, i))
		}
		r := inR[a.ID]
		if r == nil {
			return bad("query/not-retained", "event "+a.ID+" is returned but is not in the retained/stored set")
		}
		if !EventsEqual(r, a) {
			return bad("query/altered-event", "event "+a.ID+" differs from the stored one")
		}
	}
	type fspec struct {
		must map[string]bool
		tie  []string // ids at the cut
		need int      // how many of tie must be chosen
	}
	specs := make([]fspec, len(fs))
	eligible := map[string]bool{}
	mustAll := map[string]bool{}
	ties := 0
	for i, f := range fs {
		var M []*mocrelay.Event
		for _, x := range R {
			if RefMatch(f, x) {
				M = append(M, x)
			}
		}
		sort.SliceStable(M, func(a, b int) bool { return M[a].CreatedAt > M[b].CreatedAt })
		sp := fspec{must: map[string]bool{}}
		if f.Limit == nil || int64(len(M)) <= *f.Limit {
			for _, x := range M {
				sp.must[x.ID] = true
			}
		} else if *f.Limit > 0 {
			n := int(*f.Limit)
			cut := M[n-1].CreatedAt
			newer := 0
			for _, x := range M {
				if x.CreatedAt > cut {
					sp.must[x.ID] = true
					newer++
				} else if x.CreatedAt == cut {
					sp.tie = append(sp.tie, x.ID)
				}
			}
			sp.need = n - newer
			if len(sp.tie) == sp.need {
				for _, id := range sp.tie {
					sp.must[id] = true
				}
				sp.tie, sp.need = nil, 0
			} else {
				ties++
			}
		}
		for id := range sp.must {
			eligible[id] = true
			mustAll[id] = true
		}
		for _, id := range sp.tie {
			eligible[id] = true
		}
		specs[i] = sp
	}
	for id := range mustAll {
		if !seen[id] {
			x := inR[id]
			return bad("query/missing", fmt.Sprintf("event %.8s (kind %d, at %d) matches a filter within its limit but is not returned", id, x.Kind, x.CreatedAt))
		}
	}
	for _, a := range ans {
		if !eligible[a.ID] {
			if RefMatchAny(fs, a) {
				return bad("query/beyond-limit", fmt.Sprintf("event %.8s (at %d) matches only beyond the limit of every filter it matches", a.ID, a.CreatedAt))
			}
			return bad("query/non-matching", fmt.Sprintf("event %.8s matches no filter of the list", a.ID))
		}
	}
	if ties == 0 {
		return QueryVerdict{true, "", "", 0}
	}
	// tie situations: every filter must be able to pick `need` tied events inside the
	// answer, and every answer element that no filter must include has to be picked.
	var free []string
	for _, a := range ans {
		if !mustAll[a.ID] {
			free = append(free, a.ID)
		}
	}
	cap_ := make([]int, len(fs))
	adj := map[string][]int{}
	for i, sp := range specs {
		inAns := 0
		for _, id := range sp.tie {
			if seen[id] {
				inAns++
				adj[id] = append(adj[id], i)
			}
		}
		if inAns < sp.need {
			return QueryVerdict{false, "query/too-few-at-limit", fmt.Sprintf("filter %d has limit %d but only %d of its %d newest-tied candidates are returned", i, *fs[i].Limit, inAns, sp.need), ties}
		}
		cap_[i] = sp.need
	}
	// bipartite b-matching of free elements to filters
	assigned := map[string]int{}
	load := make([]int, len(fs))
	members := make([][]string, len(fs))
	var try func(id string, vis map[int]bool) bool
	try = func(id string, vis map[int]bool) bool {
		for _, f := range adj[id] {
			if vis[f] {
				continue
			}
			vis[f] = true
			if load[f] < cap_[f] {
				load[f]++
				members[f] = append(members[f], id)
				assigned[id] = f
				return true
			}
			for k, other := range members[f] {
				if try(other, vis) {
					members[f][k] = id
					assigned[id] = f
					return true
				}
			}
		}
		return false
	}
	for _, id := range free {
		if !try(id, map[int]bool{}) {
			return QueryVerdict{false, "query/too-many-at-limit", fmt.Sprintf("event %.8s is returned although the limits of the filters it ties under are exhausted by other returned events", id), ties}
		}
	}
	return QueryVerdict{true, "", "", ties}
}

// ---------------------------------------------------------------------------
// deterministic sequential specification (used as the porcupine model). It is only
// deterministic when no two events of a history share a created_at: then there is no
// tie at replacement, eviction or a limit cut.

// SpecAdd applies Add(e) to the retained set R of a store with the given capacity.
func SpecAdd(capacity int, R []*mocrelay.Event, e *mocrelay.Event) (bool, []*mocrelay.Event) {
	if ClassOf(e.Kind) == Ephemeral {
		return true, R
	}
	if SuppressedBy(R, e) != nil {
		return false, R
	}
	for _, x := range R {
		if x.ID == e.ID {
			return false, R
		}
	}
	drop := map[string]bool{}
	if a := Address(e); a != "" {
		for _, x := range R {
			if Address(x) == a {
				if x.CreatedAt >= e.CreatedAt {
					return false, R
				}
				drop[x.ID] = true
			}
		}
	}
	base := append(minus(R, drop), e)
	if e.Kind == 5 {
		del := map[string]bool{}
		for _, x := range base {
			if x.Pubkey == e.Pubkey && x.ID != e.ID && References(e, x) {
				del[x.ID] = true
			}
		}
		base = minus(base, del)
	}
	if len(base) > capacity {
		v := base[0]
		for _, x := range base {
			if x.CreatedAt < v.CreatedAt {
				v = x
			}
		}
		base = minus(base, map[string]bool{v.ID: true})
	}
	return true, base
}

// SpecQuery computes the unique answer of a filter list over R (no ties assumed).
func SpecQuery(R []*mocrelay.Event, fs []*mocrelay.ReqFilter) []*mocrelay.Event {
	pick := map[string]*mocrelay.Event{}
	for _, f := range fs {
		var M []*mocrelay.Event
		for _, x := range R {
			if RefMatch(f, x) {
				M = append(M, x)
			}
		}
		sort.SliceStable(M, func(a, b int) bool { return M[a].CreatedAt > M[b].CreatedAt })
		if f.Limit != nil && int64(len(M)) > *f.Limit {
			M = M[:*f.Limit]
		}
		for _, x := range M {
			pick[x.ID] = x
		}
	}
	out := make([]*mocrelay.Event, 0, len(pick))
	for _, x := range pick {
		out = append(out, x)
	}
	sort.Slice(out, func(a, b int) bool { return out[a].CreatedAt > out[b].CreatedAt })
	return out
}
