package sqlite

import (
	"context"
	"database/sql"
	"encoding/hex"
	"encoding/json"
	"fmt"
	"math/rand/v2"
	"os"
	"os/exec"
	"path/filepath"
	"strings"
	"testing"
	"time"

	"github.com/high-moctane/mocrelay"
	vk "github.com/high-moctane/mocrelay/internal/verifkit"
	"github.com/high-moctane/mocrelay/internal/verifkit/faultsql"
)

// C14 — SQLite batches are atomic and idempotent; data and semantics survive reopen.

type c14Child struct {
	DB     string            `json:"db"`
	Batch  []*mocrelay.Event `json:"batch"`
	KillAt int               `json:"kill_at"` // driver call to die at; 0: die right after a successful insert
}

// c14RunChild is executed in a child process: insert one batch and die at call KillAt.
func c14RunChild(path string) {
	var c c14Child
	b, err := os.ReadFile(path)
	if err != nil || json.Unmarshal(b, &c) != nil {
		os.Exit(2)
	}
	ctx := context.Background()
	db, plan := faultsql.Open(c.DB)
	db.SetMaxOpenConns(1)
	if err := Migrate(ctx, db); err != nil {
		os.Exit(3)
	}
	seed, err := setOrLoadXXHashSeed(ctx, db)
	if err != nil {
		os.Exit(3)
	}
	plan.Arm(c.KillAt, faultsql.ModeKill, nil)
	err = insertEvents(ctx, db, seed, c.Batch)
	if c.KillAt == 0 && err == nil {
		os.Exit(faultsql.ExitCode) // die without closing anything
	}
	if err != nil {
		os.Exit(4)
	}
	os.Exit(0) // the fault point was beyond the calls of this batch
}

type c14DB struct {
	path string
	db   *sql.DB
	plan *faultsql.Plan
	seed uint32
}

func c14Open(ctx context.Context, path string) (*c14DB, error) {
	db, plan := faultsql.Open("file:" + path)
	db.SetMaxOpenConns(1)
	if err := Migrate(ctx, db); err != nil {
		db.Close()
		return nil, err
	}
	seed, err := setOrLoadXXHashSeed(ctx, db)
	if err != nil {
		db.Close()
		return nil, err
	}
	return &c14DB{path, db, plan, seed}, nil
}

func c14Panel(r *rand.Rand, fg *vk.FilterGen) [][]*mocrelay.ReqFilter {
	p := [][]*mocrelay.ReqFilter{{{}}, {{Kinds: []int64{5}}}}
	for i := 0; i < 4; i++ {
		p = append(p, fg.Filters(2))
	}
	return p
}

func TestVerif_C14(t *testing.T) {
	if f := os.Getenv("VERIF_C14_CHILD"); f != "" {
		c14RunChild(f)
		return
	}
	if f := os.Getenv("VERIF_C14_STRACE"); f != "" {
		c14RunUnderStrace(f)
		return
	}
	rep := vk.NewReport(t, "C14", "fault_enumeration")
	rep.Rule = "file-backed databases opened through a fault-injecting database/sql driver; for a generated batch history and a chosen batch, every driver call index k (begin, each of the 5 prepares, every statement exec, commit) is failed in turn with {error returned by the driver, context cancelled at the call}, and sampled k (all k in the thorough tier) with {process killed at the call (child process, no rollback, parent reopens)}; after every faulted attempt, every retry, the final success and one more repetition a query panel must equal the model (failed => no-op, succeeded => applied once); close/reopen at seeded points between batches, followed by newer versions / deletion requests aimed at pre-restart rows; a few cases run through NewSQLiteHandler's retry loop; handler-level restarts (history through one handler, stop, close, reopen, new handler: a REQ panel is answered as before and as the model says, also after further events through the new handler; deletion requests by address only / by id only / mixed); shutdown flushes with one buffered event that can never be written (all-or-nothing); added later: after a batch that the handler wrote on its second attempt a panel of id, author/kind, per-tag and generated filters is compared with the model; every second shutdown-flush case buffers a deletion request for a stored event; non-trivial = a fault that fired inside a batch that would have changed the database; distinct = distinct (fault kind, driver call kind, batch shape)"
	rep.Assume("a batch is 'failed' iff insertEvents returned an error (or its process died before the commit call was made)")
	defer rep.Finish()
	ctx := context.Background()
	dir := t.TempDir()
	nHist := vk.N(40, 600)
	killsPerBatch := vk.N(3, 1000)
	self, _ := os.Executable()

	vk.Parallel(nHist, func(i int) {
		r := vk.RNG("C14", i)
		path := filepath.Join(dir, fmt.Sprintf("h%d.db", i))
		d, err := c14Open(ctx, path)
		if err != nil {
			rep.Violation("open/error", err.Error(), nil)
			return
		}
		defer func() { d.db.Close() }()
		g := sqlHistoryGen(r)
		g.BigEvery = 0
		g.HostileContent = r.IntN(2) == 0
		model := vk.NewSQLModel()
		fg := &vk.FilterGen{R: r, Authors: g.Authors, TimeLo: g.TimeBase, TimeHi: g.TimeBase + g.TimeRange}
		var hist []string
		wit := func(extra map[string]any) map[string]any {
			m := map[string]any{"history": hist}
			for k, v := range extra {
				m[k] = v
			}
			return m
		}
		verify := func(stage string, batch []*mocrelay.Event) bool {
			live := model.Live()
			for _, fs := range c14Panel(r, fg) {
				ans, err := queryEvent(ctx, d.db, d.seed, fs, NoLimit)
				rep.Eval(1)
				if err != nil {
					rep.Violation("query/error-after-"+stageClass(stage), "queryEvent failed after "+stage+": "+oneline(err.Error()), wit(map[string]any{"batch": shortEvs(batch)}))
					return false
				}
				if v := vk.CheckQuery(live, fs, ans); !v.OK {
					rep.Violation(stageClass(stage)+"/"+classifySQLAnswer(v.Sig, false, model, g.Offered, ans),
						"after "+stage+": "+v.Why, wit(map[string]any{"batch": shortEvs(batch), "filters": fs, "answer": shortEvs(ans), "model_live": shortEvs(live)}))
					return false
				}
			}
			return true
		}
		reopen := func() bool {
			d.db.Close()
			nd, err := c14Open(ctx, path)
			if err != nil {
				rep.Violation("reopen/error", err.Error(), wit(nil))
				return false
			}
			if nd.seed != d.seed {
				rep.Violation("reopen/seed-changed", fmt.Sprintf("hash seed %d before, %d after reopening", d.seed, nd.seed), wit(nil))
				return false
			}
			d = nd
			rep.Count("reopens", 1)
			return true
		}
		nb := 2 + r.IntN(5)
		faultBatch := r.IntN(nb)
		for b := 0; b < nb; b++ {
			var batch []*mocrelay.Event
			for k, n := 0, 1+r.IntN(6); k < n; k++ {
				batch = append(batch, g.Next())
			}
			if b == faultBatch || r.IntN(3) == 0 {
				// make sure deletion statements of both kinds run inside fault-enumerated
				// batches: a request naming a stored addressable event by address and a
				// stored event by id
				var byAddr, byID *mocrelay.Event
				for _, x := range model.Live() {
					if _, has := vk.DValue(x); has && vk.ClassOf(x.Kind) == vk.Addressable && byAddr == nil {
						byAddr = x
					} else if x.Kind != 5 && byID == nil {
						byID = x
					}
				}
				if byAddr != nil || byID != nil {
					author := ""
					k := &mocrelay.Event{Kind: 5, CreatedAt: g.TimeBase + r.Int64N(g.TimeRange), Content: fmt.Sprintf("crafted deletion %d %d", i, b), Tags: []mocrelay.Tag{}}
					if byAddr != nil {
						author = byAddr.Pubkey
						k.Tags = append(k.Tags, mocrelay.Tag{"a", vk.AddrTag(byAddr), "wss://hint"})
					}
					if byID != nil && (author == "" || byID.Pubkey == author) {
						author = byID.Pubkey
						k.Tags = append(k.Tags, mocrelay.Tag{"e", byID.ID})
					}
					k.Pubkey = author
					batch = append(batch, vk.Seal(k))
					g.Offered = append(g.Offered, k)
					rep.Count("crafted_deletions_in_faulted_batches", 1)
				}
			}
			fg.Events = g.Offered
			if keyCollision(d.seed, g.Offered) {
				rep.Count("histories_discarded_for_key_collision", 1)
				return
			}
			hist = append(hist, fmt.Sprintf("batch %d: %v", b, shortEvs(batch)))
			if b != faultBatch && r.IntN(3) != 0 {
				if err := insertEvents(ctx, d.db, d.seed, batch); err != nil {
					rep.Violation("insert/error", err.Error(), wit(nil))
					return
				}
				model.InsertBatch(batch)
				if !verify("a fault-free batch", batch) {
					return
				}
			} else {
				// how many driver calls does this batch make? (counted on the first
				// faulted attempt: fail at call 1 gives no information, so count with a
				// dry run on a scratch copy of the model's expectation: just try k until
				// the fault no longer fires)
				would := model.Clone()
				would.InsertBatch(batch)
				changes := len(would.Stored()) != len(model.Stored()) || !sameLive(would, model)
				applied := false
				for k := 1; !applied; k++ {
					for _, mode := range []faultsql.Mode{faultsql.ModeError, faultsql.ModeCancel} {
						cctx, cancel := context.WithCancel(ctx)
						d.plan.Arm(k, mode, cancel)
						err := insertEvents(cctx, d.db, d.seed, batch)
						cancel()
						_, kinds, fired := d.plan.Disarm()
						if !fired {
							if err != nil {
								rep.Violation("insert/error", "fault-free attempt failed: "+err.Error(), wit(nil))
								return
							}
							model.InsertBatch(batch)
							hist = append(hist, fmt.Sprintf("  attempt without fault: applied, %d driver calls", len(kinds)))
							rep.Count("driver_calls_per_batch_total", int64(len(kinds)))
							if !verify("the successful attempt", batch) {
								return
							}
							applied = true
							break
						}
						kind := kinds[len(kinds)-1]
						modeName := []string{"error", "cancel"}[mode]
						rep.Seen("fault_points", modeName+"@"+kind)
						rep.Count("faults_"+modeName, 1)
						stage := fmt.Sprintf("a %s fault at driver call %d (%s)", modeName, k, kind)
						if err == nil {
							// the call went through in spite of the fault (a cancellation that
							// arrives too late): the batch counts as applied
							model.InsertBatch(batch)
							rep.Count("faulted_attempts_that_succeeded", 1)
							hist = append(hist, "  "+stage+": insertEvents returned nil")
						} else {
							hist = append(hist, "  "+stage+": insertEvents returned an error")
							if changes {
								rep.Nontrivial(fmt.Sprintf("%s@%s/%d", modeName, kind, len(batch)))
							}
						}
						if !verify(stage, batch) {
							return
						}
					}
					if k > 2000 {
						rep.Inconclusive("C14: batch with more than 2000 driver calls")
						break
					}
				}
				// idempotence: the same batch twice more
				for rpt := 0; rpt < 2; rpt++ {
					if err := insertEvents(ctx, d.db, d.seed, batch); err != nil {
						rep.Violation("insert/error", "repeat failed: "+err.Error(), wit(nil))
						return
					}
					model.InsertBatch(batch)
					if !verify("repeating the batch", batch) {
						return
					}
					rep.Count("repetitions", 1)
				}
				rep.Count("batches_fault_enumerated", 1)
			}
			if r.IntN(3) == 0 {
				hist = append(hist, "close + reopen")
				if !reopen() || !verify("close and reopen", nil) {
					return
				}
			}
		}
		// a large batch (hundreds of events): faults at sampled calls, in particular
		// late ones, must still leave nothing of the batch behind
		if i%8 == 0 {
			var batch []*mocrelay.Event
			for k, n := 0, 520+r.IntN(200); k < n; k++ {
				batch = append(batch, g.Next())
			}
			fg.Events = g.Offered
			if keyCollision(d.seed, g.Offered) {
				return
			}
			ncalls := c14CountCalls(ctx, path, batch, d)
			hist = append(hist, fmt.Sprintf("large batch of %d events, %d driver calls", len(batch), ncalls))
			if ncalls > 10 {
				for _, k := range []int{ncalls, ncalls - 2, ncalls * 97 / 100, ncalls * 9 / 10, ncalls * 85 / 100, ncalls / 2, 7, 1} {
					for _, mode := range []faultsql.Mode{faultsql.ModeError, faultsql.ModeCancel} {
						cctx, cancel := context.WithCancel(ctx)
						d.plan.Arm(k, mode, cancel)
						err := insertEvents(cctx, d.db, d.seed, batch)
						cancel()
						_, kinds, fired := d.plan.Disarm()
						if !fired {
							continue
						}
						stage := fmt.Sprintf("a %s fault at driver call %d of %d (%s) of a %d-event batch", []string{"error", "cancel"}[mode], k, ncalls, kinds[len(kinds)-1], len(batch))
						if err == nil {
							model.InsertBatch(batch)
						}
						hist = append(hist, fmt.Sprintf("  %s: returned error=%v", stage, err != nil))
						rep.Count("large_batch_faults", 1)
						rep.Nontrivial(fmt.Sprintf("large/%d/%d/%d", mode, k*20/ncalls, len(batch)/100))
						if !verify(stage, nil) {
							return
						}
					}
				}
				if err := insertEvents(ctx, d.db, d.seed, batch); err != nil {
					rep.Violation("insert/error", "large batch failed without a fault: "+err.Error(), wit(nil))
					return
				}
				model.InsertBatch(batch)
				if !verify("the large batch applied", nil) {
					return
				}
			}
		}
		// kill faults: a fresh batch, killed in a child process at call k
		for kk := 0; kk < killsPerBatch; kk++ {
			var batch []*mocrelay.Event
			for k, n := 0, 1+r.IntN(5); k < n; k++ {
				batch = append(batch, g.Next())
			}
			fg.Events = g.Offered
			if keyCollision(d.seed, g.Offered) {
				return
			}
			d.plan.Arm(0, faultsql.ModeError, nil)
			// count the calls with a dry run on a copy of the file
			ncalls := c14CountCalls(ctx, path, batch, d)
			d.plan.Disarm()
			if ncalls == 0 {
				// nothing storable in the batch (ephemeral events only): no driver call to die at
				model.InsertBatch(batch)
				continue
			}
			if ncalls < 0 {
				rep.Inconclusive("C14: could not count driver calls for the kill scenario")
				return
			}
			killAt := 0
			if vk.Tier() == "thorough" {
				killAt = kk % (ncalls + 1) // every call in turn, and 0 = after success
				if kk > ncalls {
					break
				}
			} else if kk > 0 {
				killAt = 1 + r.IntN(ncalls)
			}
			d.db.Close()
			spec := c14Child{DB: "file:" + path, Batch: batch, KillAt: killAt}
			sf := filepath.Join(dir, fmt.Sprintf("child-%d-%d.json", i, kk))
			sb, _ := json.Marshal(spec)
			os.WriteFile(sf, sb, 0o644)
			cmd := exec.Command(self, "-test.run", "^TestVerif_C14$")
			cmd.Env = append(os.Environ(), "VERIF_C14_CHILD="+sf)
			out, _ := cmd.CombinedOutput()
			code := cmd.ProcessState.ExitCode()
			os.Remove(sf)
			stage := fmt.Sprintf("killing the process at driver call %d of %d", killAt, ncalls)
			if killAt == 0 {
				stage = "killing the process right after a successful batch"
			}
			hist = append(hist, fmt.Sprintf("kill batch: %v; %s; child exit %d", shortEvs(batch), stage, code))
			if code != faultsql.ExitCode {
				rep.Inconclusive(fmt.Sprintf("C14: kill child exited %d instead of dying at the fault point: %s", code, oneline(string(out))))
				nd, err := c14Open(ctx, path)
				if err != nil {
					return
				}
				d = nd
				return
			}
			nd, err := c14Open(ctx, path)
			if err != nil {
				rep.Violation("reopen/error-after-kill", err.Error(), wit(nil))
				return
			}
			if nd.seed != d.seed {
				rep.Violation("reopen/seed-changed", "hash seed changed after a killed process", wit(nil))
				return
			}
			d = nd
			rep.Count("kills", 1)
			if killAt == 0 {
				model.InsertBatch(batch)
				rep.Seen("fault_points", "kill@after-success")
			} else {
				rep.Seen("fault_points", "kill@call")
				rep.Nontrivial(fmt.Sprintf("kill/%d/%d", killAt, len(batch)))
			}
			if !verify(stage, batch) {
				return
			}
			// retry after the crash, and once more
			for rpt := 0; rpt < 2; rpt++ {
				if err := insertEvents(ctx, d.db, d.seed, batch); err != nil {
					rep.Violation("insert/error", "retry after kill failed: "+err.Error(), wit(nil))
					return
				}
				model.InsertBatch(batch)
				if !verify("retrying the batch after the crash", batch) {
					return
				}
			}
		}
		rep.Count("histories", 1)
		if rep.WantSample() {
			rep.Sample(map[string]any{"history": hist[:min(len(hist), 14)]})
		}
	})

	// through the handler's retry loop
	nH := vk.N(16, 80)
	vk.ParallelW(16, nH, func(i int) {
		r := vk.RNG("C14/handler", i)
		path := filepath.Join(dir, fmt.Sprintf("hh%d.db", i))
		db, plan := faultsql.Open("file:" + path)
		db.SetMaxOpenConns(1)
		defer db.Close()
		hctx, hcancel := context.WithCancel(ctx)
		defer hcancel()
		h, err := NewSQLiteHandler(hctx, db, &SQLiteHandlerOption{EventBulkInsertNum: 1, MaxLimit: NoLimit})
		if err != nil {
			rep.Violation("sqlite/new-handler", err.Error(), nil)
			return
		}
		g := sqlHistoryGen(r)
		g.BigEvery = 0
		s := vk.StartSession(ctx, h, 256)
		defer s.Stop()
		model := vk.NewSQLModel()
		var evs []*mocrelay.Event
		n := 3 + r.IntN(4)
		failOn := r.IntN(n)
		for k := 0; k < n; k++ {
			e := g.Next()
			if vk.ClassOf(e.Kind) == vk.Ephemeral {
				continue
			}
			evs = append(evs, e)
			if k == failOn {
				plan.Arm(1+r.IntN(8), faultsql.ModeError, nil)
			}
			s.Put(&mocrelay.ClientEventMsg{Event: e})
			if m, ok := s.Get(); !ok {
				rep.Violation("handler/no-ok", "EVENT not answered: "+vk.DescribeServerMsg(m), nil)
				return
			}
			model.Insert(e)
			if k == failOn {
				// wait until the retried insertion went through: the row (or a newer version) is there
				deadline := time.Now().Add(vk.WaitBound)
				for {
					var cnt int
					db.QueryRowContext(ctx, "select count(*) from events").Scan(&cnt)
					if cnt >= len(model.Stored()) {
						break
					}
					if time.Now().After(deadline) {
						rep.Violation("handler/retry-lost-batch", "after one injected driver failure the handler never stored the batch", map[string]any{"events": shortEvs(evs)})
						return
					}
					time.Sleep(5 * time.Millisecond)
				}
				if _, _, fired := plan.Disarm(); fired {
					rep.Count("handler_retries_after_fault", 1)
					rep.Nontrivial(fmt.Sprintf("handler/%d/%d", k, e.Kind))
				}
			}
		}
		// quiescence: a marker event sent last is stored (the inserter works in order)
		mk := vk.Seal(&mocrelay.Event{Kind: 1, Pubkey: vk.FakePub(78000 + i), CreatedAt: 997, Tags: []mocrelay.Tag{}, Content: fmt.Sprintf("marker of handler case %d", i)})
		s.Put(&mocrelay.ClientEventMsg{Event: mk})
		s.Get()
		model.Insert(mk)
		evs = append(evs, mk)
		mkid, _ := hex.DecodeString(mk.ID)
		deadline := time.Now().Add(vk.WaitBound)
		for {
			var cnt int
			db.QueryRowContext(ctx, "select count(*) from events where id = ?", mkid).Scan(&cnt)
			if cnt >= 1 {
				break
			}
			if time.Now().After(deadline) {
				rep.Inconclusive("C14: handler did not reach quiescence")
				return
			}
			time.Sleep(2 * time.Millisecond)
		}
		var seed uint32
		db.QueryRowContext(ctx, "select seed from xxhash_seed").Scan(&seed)
		if keyCollision(seed, evs) {
			return
		}
		ans, err := queryEvent(ctx, db, seed, []*mocrelay.ReqFilter{{}}, NoLimit)
		rep.Eval(1)
		if err != nil {
			rep.Violation("query/error", err.Error(), nil)
			return
		}
		if v := vk.CheckQuery(model.Live(), []*mocrelay.ReqFilter{{}}, ans); !v.OK {
			rep.Violation("handler-retry/"+v.Sig, v.Why, map[string]any{"events": shortEvs(evs), "answer": shortEvs(ans)})
			return
		}
		// what was written on the second attempt is found through every access path: by each
		// single-letter tag the events carry, and by a panel of generated filters
		var panel [][]*mocrelay.ReqFilter
		for _, e := range evs {
			panel = append(panel, []*mocrelay.ReqFilter{{IDs: []string{e.ID}}}, []*mocrelay.ReqFilter{{Authors: []string{e.Pubkey}, Kinds: []int64{e.Kind}}})
			for _, t := range e.Tags {
				if len(t) >= 2 && len(t[0]) == 1 && (t[0][0] >= 'a' && t[0][0] <= 'z' || t[0][0] >= 'A' && t[0][0] <= 'Z') {
					panel = append(panel, []*mocrelay.ReqFilter{{Tags: map[string][]string{t[0]: {t[1]}}}})
				}
			}
		}
		fg := &vk.FilterGen{R: r, Events: evs, Authors: g.Authors, TimeLo: g.TimeBase, TimeHi: g.TimeBase + g.TimeRange}
		for k := 0; k < 20; k++ {
			panel = append(panel, fg.Filters(2))
		}
		for _, fs := range panel {
			ans, err := queryEvent(ctx, db, seed, fs, NoLimit)
			rep.Eval(1)
			if err != nil {
				rep.Violation("query/error", oneline(err.Error()), map[string]any{"filters": vk.JSON(fs)})
				return
			}
			if v := vk.CheckQuery(model.Live(), fs, ans); !v.OK {
				rep.Violation("handler-retry/"+v.Sig, "after a batch that went through on the handler's second attempt: "+v.Why, map[string]any{"events": shortEvs(evs), "filters": vk.JSON(fs), "answer": shortEvs(ans)})
				return
			}
		}
		rep.Count("handler_cases", 1)
	})

	// restart at the handler level: a history goes through one SQLiteHandler, the handler is
	// stopped, the database closed and reopened, and a new handler over it must answer every
	// REQ of a panel as the first one did (and as the model says); one case in three keeps
	// only deletion requests that reference by address, one in three only those by id
	nR := vk.N(12, 120)
	vk.ParallelW(12, nR, func(i int) {
		r := vk.RNG("C14/handler-restart", i)
		path := filepath.Join(dir, fmt.Sprintf("hr%d.db", i))
		g := sqlHistoryGen(r)
		g.BigEvery = 0
		fg := &vk.FilterGen{R: r, Authors: g.Authors, TimeLo: g.TimeBase, TimeHi: g.TimeBase + g.TimeRange}
		keep := r.IntN(3) // 0: all deletion requests, 1: only pure a-tag ones, 2: only pure e-tag ones
		var evs []*mocrelay.Event
		for k, n := 0, 12+r.IntN(30); k < n; k++ {
			e := g.Next()
			if vk.ClassOf(e.Kind) == vk.Ephemeral {
				continue
			}
			if e.Kind == 5 && keep != 0 {
				ids, addrs := vk.DeletionRefs(e)
				if keep == 1 && len(ids) > 0 || keep == 2 && len(addrs) > 0 {
					continue
				}
			}
			evs = append(evs, e)
		}
		// crafted on top (every second case): the stored version of an address is deleted by id
		// before the restart and an older version of the same address arrives after it - the
		// deleted version is still the newest one, the address must stay empty
		var lateOld *mocrelay.Event
		if i%2 == 0 {
			a := vk.Pick(r, g.Authors)
			kind := vk.Pick(r, []int64{0, 10002, 30023})
			tags := []mocrelay.Tag{}
			if kind == 30023 {
				tags = append(tags, mocrelay.Tag{"d", "crafted"})
			}
			x := vk.Seal(&mocrelay.Event{Kind: kind, Pubkey: a, CreatedAt: g.TimeBase + 20, Tags: tags, Content: "newest version, deleted by id"})
			k := vk.Seal(&mocrelay.Event{Kind: 5, Pubkey: a, CreatedAt: g.TimeBase + 30, Tags: []mocrelay.Tag{{"e", x.ID}}, Content: ""})
			lateOld = vk.Seal(&mocrelay.Event{Kind: kind, Pubkey: a, CreatedAt: g.TimeBase + 10, Tags: tags, Content: "older version, arrives after the restart"})
			if keep != 1 {
				evs = append(evs, x, k)
			} else {
				lateOld = nil
			}
		}
		model := vk.NewSQLModel()
		open := func() (*sql.DB, mocrelay.Handler, context.CancelFunc, bool) {
			db, _ := faultsql.Open("file:" + path)
			db.SetMaxOpenConns(1)
			hctx, hcancel := context.WithCancel(ctx)
			h, err := NewSQLiteHandler(hctx, db, &SQLiteHandlerOption{EventBulkInsertNum: 1, MaxLimit: NoLimit})
			if err != nil {
				hcancel()
				db.Close()
				rep.Violation("sqlite/new-handler", err.Error(), nil)
				return nil, nil, nil, false
			}
			return db, h, hcancel, true
		}
		ask := func(h mocrelay.Handler, panel [][]*mocrelay.ReqFilter) ([][]*mocrelay.Event, bool) {
			s := vk.StartSession(ctx, h, 64)
			defer s.Stop()
			out := make([][]*mocrelay.Event, len(panel))
			for k, fs := range panel {
				if !s.Put(&mocrelay.ClientReqMsg{SubscriptionID: fmt.Sprintf("q%d", k), ReqFilters: fs}) {
					return nil, false
				}
				for {
					m, ok := s.Get()
					if !ok {
						return nil, false
					}
					if _, is := m.(*mocrelay.ServerEOSEMsg); is {
						break
					}
					if em, is := m.(*mocrelay.ServerEventMsg); is {
						out[k] = append(out[k], em.Event)
					}
				}
			}
			return out, true
		}
		db, h, hcancel, ok := open()
		if !ok {
			return
		}
		s := vk.StartSession(ctx, h, 256)
		for _, e := range evs {
			s.Put(&mocrelay.ClientEventMsg{Event: e})
			if _, ok := s.Get(); !ok {
				rep.Inconclusive("C14: handler-restart history was not acknowledged")
				s.Stop()
				hcancel()
				db.Close()
				return
			}
			model.Insert(e)
		}
		// quiescence of the background inserter: a marker event sent last is stored (the inserter
		// takes the events in order, one batch per event here)
		mk1 := vk.Seal(&mocrelay.Event{Kind: 1, Pubkey: vk.FakePub(77000 + i), CreatedAt: 999, Tags: []mocrelay.Tag{}, Content: fmt.Sprintf("marker before the restart %d", i)})
		s.Put(&mocrelay.ClientEventMsg{Event: mk1})
		s.Get()
		model.Insert(mk1)
		evs = append(evs, mk1)
		s.Stop()
		mk1id, _ := hex.DecodeString(mk1.ID)
		deadline := time.Now().Add(vk.WaitBound)
		for {
			var cnt int
			db.QueryRowContext(ctx, "select count(*) from events where id = ?", mk1id).Scan(&cnt)
			if cnt >= 1 {
				break
			}
			if time.Now().After(deadline) {
				rep.Inconclusive("C14: handler did not reach quiescence before the restart")
				hcancel()
				db.Close()
				return
			}
			time.Sleep(2 * time.Millisecond)
		}
		var seed uint32
		db.QueryRowContext(ctx, "select seed from xxhash_seed").Scan(&seed)
		if keyCollision(seed, evs) {
			hcancel()
			db.Close()
			return
		}
		panel := c14Panel(r, fg)
		judge := func(stage string, got [][]*mocrelay.Event) bool {
			for k, fs := range panel {
				rep.Eval(1)
				if v := vk.CheckQuery(model.Live(), fs, got[k]); !v.OK {
					rep.Violation("handler-"+stage+"/"+classifySQLAnswer(v.Sig, false, model, g.Offered, got[k]), "a REQ answered by the handler "+stage+": "+v.Why,
						map[string]any{"events": shortEvs(evs), "filters": fs, "answer": shortEvs(got[k]), "model_live": shortEvs(model.Live()), "deletion_requests_kept": []string{"all", "by address only", "by id only"}[keep]})
					return false
				}
			}
			return true
		}
		before, ok := ask(h, panel)
		hcancel()
		db.Close()
		if !ok {
			rep.Inconclusive("C14: the first handler did not answer the panel")
			return
		}
		if !judge("before-restart", before) {
			return
		}
		db2, h2, hcancel2, ok := open()
		if !ok {
			return
		}
		defer db2.Close()
		defer hcancel2()
		after, ok := ask(h2, panel)
		if !ok {
			rep.Violation("handler-after-restart/no-answer", "the handler over the reopened database did not answer the panel", map[string]any{"events": shortEvs(evs)})
			return
		}
		if !judge("after-restart", after) {
			return
		}
		// the history goes on through the new handler: older and newer versions of pre-restart
		// addresses, deletion requests aimed at pre-restart rows, events deleted before the restart
		s2 := vk.StartSession(ctx, h2, 256)
		var more []*mocrelay.Event
		for k, n := 0, 6+r.IntN(14); k < n; k++ {
			e := g.Next()
			if r.IntN(4) == 0 && len(evs) > 0 {
				e = vk.Pick(r, evs) // something that was offered before the restart, once more
			}
			if k == 0 && lateOld != nil {
				e = lateOld
				rep.Count("handler_restarts_with_older_version_after_id_deletion", 1)
			}
			if vk.ClassOf(e.Kind) == vk.Ephemeral {
				continue
			}
			more = append(more, e)
			s2.Put(&mocrelay.ClientEventMsg{Event: e})
			if _, ok := s2.Get(); !ok {
				rep.Inconclusive("C14: post-restart history was not acknowledged")
				s2.Stop()
				return
			}
			model.Insert(e)
		}
		mk2 := vk.Seal(&mocrelay.Event{Kind: 1, Pubkey: vk.FakePub(77000 + i), CreatedAt: 998, Tags: []mocrelay.Tag{}, Content: fmt.Sprintf("marker after the restart %d", i)})
		s2.Put(&mocrelay.ClientEventMsg{Event: mk2})
		s2.Get()
		model.Insert(mk2)
		more = append(more, mk2)
		s2.Stop()
		all := append(append([]*mocrelay.Event{}, evs...), more...)
		if keyCollision(seed, all) {
			return
		}
		mk2id, _ := hex.DecodeString(mk2.ID)
		deadline = time.Now().Add(vk.WaitBound)
		for {
			var cnt int
			db2.QueryRowContext(ctx, "select count(*) from events where id = ?", mk2id).Scan(&cnt)
			if cnt >= 1 {
				break
			}
			if time.Now().After(deadline) {
				rep.Inconclusive("C14: handler did not reach quiescence after the restart")
				return
			}
			time.Sleep(2 * time.Millisecond)
		}
		evs = all
		later, ok := ask(h2, panel)
		if !ok {
			rep.Violation("handler-after-restart/no-answer", "the handler over the reopened database did not answer the panel after further events", map[string]any{"events": shortEvs(evs)})
			return
		}
		if !judge("after-restart-and-further-events", later) {
			return
		}
		rep.Count("handler_restarts", 1)
		rep.Count(fmt.Sprintf("handler_restarts_deletions_%s", []string{"all", "by_address_only", "by_id_only"}[keep]), 1)
		rep.Nontrivial(fmt.Sprintf("handler-restart/%d/%d/%d", keep, len(evs), len(model.Live())))
	})

	// the flush at shutdown: events are still buffered when the handler's context ends, and one
	// of them cannot be written however often it is tried (every statement carrying its id
	// fails). The batch fails as a whole: afterwards the database answers as before the batch
	// (or, had a retry succeeded, as after the whole batch) - never something in between.
	nFlush := vk.N(8, 24)
	vk.ParallelW(12, nFlush, func(i int) {
		r := vk.RNG("C14/shutdown-flush", i)
		path := filepath.Join(dir, fmt.Sprintf("hf%d.db", i))
		db, plan := faultsql.Open("file:" + path)
		db.SetMaxOpenConns(1)
		defer db.Close()
		hctx, hcancel := context.WithCancel(ctx)
		defer hcancel()
		h, err := NewSQLiteHandler(hctx, db, &SQLiteHandlerOption{EventBulkInsertNum: 1000, EventBulkInsertDur: time.Hour, MaxLimit: NoLimit})
		if err != nil {
			rep.Violation("sqlite/new-handler", err.Error(), nil)
			return
		}
		var seed uint32
		db.QueryRowContext(ctx, "select seed from xxhash_seed").Scan(&seed)
		g := sqlHistoryGen(r)
		g.BigEvery, g.NoDeletion, g.NoEphemeral = 0, i%2 == 0, true
		before := vk.NewSQLModel()
		var pre, batch []*mocrelay.Event
		for k := 0; k < 3; k++ {
			pre = append(pre, g.Next())
		}
		// in every second case the buffered events hold a deletion request for a stored event:
		// what it deletes is part of its batch like everything else
		var crafted *mocrelay.Event
		if i%2 == 1 {
			for _, x := range pre {
				if x.Kind != 5 && vk.ClassOf(x.Kind) != vk.Ephemeral {
					crafted = vk.Seal(&mocrelay.Event{Kind: 5, Pubkey: x.Pubkey, CreatedAt: x.CreatedAt + 5, Content: fmt.Sprintf("c14 flush deletion %d", i), Tags: []mocrelay.Tag{{"e", x.ID}}})
					if vk.ClassOf(x.Kind) == vk.Addressable {
						if _, has := vk.DValue(x); has {
							crafted.Tags = append(crafted.Tags, mocrelay.Tag{"a", vk.AddrTag(x)})
							vk.Seal(crafted)
						}
					}
					break
				}
			}
		}
		if err := insertEvents(ctx, db, seed, pre); err != nil {
			rep.Inconclusive("C14: could not prepare the shutdown-flush case: " + err.Error())
			return
		}
		before.InsertBatch(pre)
		s := vk.StartSession(ctx, h, 64)
		n := 3 + r.IntN(5)
		craftAt := r.IntN(n)
		for k := 0; k < n; k++ {
			e := g.Next()
			if crafted != nil && k == craftAt {
				e = crafted
				rep.Count("shutdown_flushes_with_a_deletion_request_for_a_stored_event", 1)
			}
			batch = append(batch, e)
			s.Put(&mocrelay.ClientEventMsg{Event: e})
			s.Get()
		}
		s.Stop()
		if keyCollision(seed, append(append([]*mocrelay.Event{}, pre...), batch...)) {
			return
		}
		// not the last one: a salvage "everything but the unwritable one" must leave a hole
		vi := r.IntN(len(batch) - 1)
		victim := batch[vi]
		idb, _ := hex.DecodeString(victim.ID)
		// let the inserter take everything out of its queue (what is still queued when the
		// context ends is not part of the last batch)
		time.Sleep(300 * time.Millisecond)
		plan.Poison(idb)
		hcancel()
		// the handler gives its last flush three seconds; nothing is attempted after that
		time.Sleep(4500 * time.Millisecond)
		bitten := plan.Unpoison()
		rep.Eval(1)
		// The last batch is what the inserter had taken from its queue when the context ended:
		// the first k of the offered events, in order. If it holds the unwritable event it
		// fails as a whole (state as before); otherwise it is written as a whole. So the legal
		// states are "before" plus the first k events for some k up to the unwritable one.
		for _, fs := range [][]*mocrelay.ReqFilter{{{}}, {{Authors: g.Authors}}} {
			ans, err := queryEvent(ctx, db, seed, fs, NoLimit)
			if err != nil {
				rep.Violation("query/error-after-shutdown-flush", oneline(err.Error()), nil)
				return
			}
			// (if no statement carrying the unwritable id was executed after it had become
			// unwritable, it was either written before or never taken: any prefix is legal)
			// How the writer cuts the acknowledged events into batches is its own business (in
			// offered order, by kind, one by one ...): every batch is written as a whole or not
			// at all, and the one holding the unwritable event is not written. So the legal
			// states are "before" plus any subset of the buffered events without the unwritable one.
			legal, why := false, ""
			for mask := 0; mask < 1<<len(batch) && !legal; mask++ {
				if bitten > 0 && mask&(1<<vi) != 0 {
					continue
				}
				var sub []*mocrelay.Event
				for k, e := range batch {
					if mask&(1<<k) != 0 {
						sub = append(sub, e)
					}
				}
				m := before.Clone()
				m.InsertBatch(sub)
				v := vk.CheckQuery(m.Live(), fs, ans)
				legal = v.OK
				if mask == 0 {
					why = v.Why
				}
			}
			if !legal {
				rep.Violation("shutdown-flush/partial-batch", fmt.Sprintf("%d events were buffered when the handler stopped and number %d of them could not be written (%d statement executions failed): afterwards the database answers neither as before (%s) nor as before plus any set of the other buffered events", len(batch), vi, bitten, why),
					map[string]any{"stored_before": shortEvs(pre), "buffered_batch": shortEvs(batch), "unwritable": victim.ID, "answer": shortEvs(ans)})
				return
			}
		}
		if bitten > 0 {
			rep.Count("shutdown_flushes_with_an_unwritable_event", 1)
			rep.Nontrivial(fmt.Sprintf("shutdown-flush/%d/%d", len(batch), bitten))
		}
	})

	// faults below the driver: the same kind of histories in a child process whose
	// pwrite64 / fsync / fdatasync system calls are failed by strace (EIO / ENOSPC at the
	// N-th call), which reaches SQLite's own error paths (journal write, sync, commit)
	if _, err := exec.LookPath("strace"); err != nil {
		rep.Inconclusive("C14: strace not available, syscall-level fault injection skipped")
	} else {
		nS := vk.N(12, 160)
		vk.ParallelW(8, nS, func(j int) {
			r := vk.RNG("C14/strace", j)
			sc := vk.Pick(r, []string{"pwrite64", "fsync,fdatasync", "pwrite64,fsync,fdatasync"})
			errno := vk.Pick(r, []string{"EIO", "ENOSPC"})
			when := 1 + r.IntN(60)
			out := filepath.Join(dir, fmt.Sprintf("strace-%d.json", j))
			cmd := exec.Command("strace", "-f", "-qq", "-o", "/dev/null", "-e", "trace="+sc, "-e", fmt.Sprintf("inject=%s:error=%s:when=%d", sc, errno, when), self, "-test.run", "^TestVerif_C14$")
			cmd.Env = append(os.Environ(), "VERIF_C14_STRACE="+out, fmt.Sprintf("VERIF_C14_STRACE_CASE=%d", j), "VERIF_C14_STRACE_DIR="+dir)
			cout, _ := cmd.CombinedOutput()
			b, err := os.ReadFile(out)
			var res c14StraceResult
			if err != nil || json.Unmarshal(b, &res) != nil {
				rep.Inconclusive(fmt.Sprintf("C14: strace child %d (%s %s when=%d) produced no result: %s", j, sc, errno, when, oneline(string(cout))))
				return
			}
			rep.Eval(res.Verifications)
			rep.Count("strace_runs", 1)
			rep.Count("strace_batches", int64(res.Batches))
			rep.Count("strace_insert_errors_seen", int64(res.InsertErrors))
			rep.Count("strace_query_errors_seen", int64(res.QueryErrors))
			if res.InsertErrors > 0 {
				rep.Nontrivial(fmt.Sprintf("strace/%s/%s/%d", sc, errno, when))
				rep.Seen("fault_points", "syscall:"+sc+":"+errno)
			}
			for _, v := range res.Violations {
				rep.Violation("syscall-fault/"+v.Sig, fmt.Sprintf("with %s failing with %s at call %d: %s", sc, errno, when, v.Why), map[string]any{"history": v.History})
			}
		})
		rep.Require(rep.Counter("strace_runs") >= int64(nS*2/3), "strace runs")
		if rep.Counter("strace_insert_errors_seen") == 0 {
			// strace counts calls per thread and the Go scheduler decides which thread makes
			// them, so a run in which no injected fault surfaced is possible
			rep.Inconclusive("C14: no injected syscall fault surfaced as an insertEvents error in this run")
		}
	}
	rep.Require(rep.Counter("batches_fault_enumerated") >= int64(nHist*8/10), "fault-enumerated batches")
	rep.Require(rep.Counter("faults_error") > 500 && rep.Counter("faults_cancel") > 500, "fault counts")
	rep.Require(rep.Counter("kills") >= int64(nHist), "kill runs")
	rep.Require(rep.Counter("large_batch_faults") >= int64(nHist/8*6), "large-batch faults")
	rep.Require(rep.Counter("reopens") > 5, "reopens")
	rep.Require(rep.Counter("handler_restarts") >= int64(nR*2/3), "handler restarts")
	if rep.Counter("shutdown_flushes_with_an_unwritable_event") == 0 {
		rep.Inconclusive("C14: in none of the shutdown-flush cases did the last batch contain the unwritable event (the inserter had not taken it from its queue yet)")
	}
	rep.Require(rep.SetSize("fault_points") >= 20, "fault point kinds (mode x call kind)")
	rep.Require(rep.Counter("handler_retries_after_fault") >= 1, "handler retry cases")
}

func stageClass(stage string) string {
	switch {
	case strings.Contains(stage, "error fault"):
		return "atomicity-error"
	case strings.Contains(stage, "cancel fault"):
		return "atomicity-cancel"
	case strings.Contains(stage, "killing"):
		return "atomicity-kill"
	case strings.Contains(stage, "repeating"), strings.Contains(stage, "retrying"):
		return "idempotence"
	case strings.Contains(stage, "reopen"):
		return "reopen"
	case strings.Contains(stage, "successful attempt"):
		return "after-retry"
	}
	return "fault-free"
}

func sameLive(a, b *vk.SQLModel) bool {
	x, y := a.Live(), b.Live()
	if len(x) != len(y) {
		return false
	}
	m := map[string]bool{}
	for _, e := range x {
		m[e.ID] = true
	}
	for _, e := range y {
		if !m[e.ID] {
			return false
		}
	}
	return true
}

// c14CountCalls counts the driver calls of a batch by a dry run on a copy of the database file.
func c14CountCalls(ctx context.Context, path string, batch []*mocrelay.Event, d *c14DB) int {
	cp := path + ".dry"
	defer os.Remove(cp)
	defer os.Remove(cp + "-journal")
	// checkpoint state is in the main file (rollback-journal mode, no open transaction)
	b, err := os.ReadFile(path)
	if err != nil || os.WriteFile(cp, b, 0o644) != nil {
		return -1
	}
	db, plan := faultsql.Open("file:" + cp)
	defer db.Close()
	db.SetMaxOpenConns(1)
	plan.Arm(0, faultsql.ModeError, nil)
	if err := insertEvents(ctx, db, d.seed, batch); err != nil {
		return -1
	}
	n, _, _ := plan.Disarm()
	return n
}

type c14StraceViolation struct {
	Sig, Why string
	History  []string
}

type c14StraceResult struct {
	Batches, InsertErrors, QueryErrors, Verifications int
	Violations                                        []c14StraceViolation
}

// c14RunUnderStrace runs in a child process traced by strace: plain histories on
// file-backed databases (no driver faults); whatever insertEvents returns decides
// whether the model applies the batch; failed batches are retried.
func c14RunUnderStrace(outfile string) {
	var res c14StraceResult
	defer func() {
		b, _ := json.Marshal(res)
		os.WriteFile(outfile, b, 0o644)
		os.Exit(0)
	}()
	ctx := context.Background()
	var caseNo int
	fmt.Sscanf(os.Getenv("VERIF_C14_STRACE_CASE"), "%d", &caseNo)
	dir := os.Getenv("VERIF_C14_STRACE_DIR")
	for h := 0; h < 3; h++ {
		r := vk.RNG("C14/strace/child", caseNo*16+h)
		path := filepath.Join(dir, fmt.Sprintf("strace-%d-%d.db", caseNo, h))
		d, err := c14Open(ctx, path)
		if err != nil {
			// the fault hit the schema set-up: nothing to judge in this history
			continue
		}
		g := sqlHistoryGen(r)
		g.BigEvery = 0
		model := vk.NewSQLModel()
		fg := &vk.FilterGen{R: r, Authors: g.Authors, TimeLo: g.TimeBase, TimeHi: g.TimeBase + g.TimeRange}
		var hist []string
		verify := func(stage string) bool {
			live := model.Live()
			for _, fs := range c14Panel(r, fg) {
				var ans []*mocrelay.Event
				var err error
				for try := 0; try < 2; try++ {
					if ans, err = queryEvent(ctx, d.db, d.seed, fs, NoLimit); err == nil {
						break
					}
				}
				if err != nil {
					res.QueryErrors++
					continue
				}
				res.Verifications++
				if v := vk.CheckQuery(live, fs, ans); !v.OK {
					res.Violations = append(res.Violations, c14StraceViolation{classifySQLAnswer(v.Sig, false, model, g.Offered, ans), "after " + stage + ": " + v.Why, hist})
					return false
				}
			}
			return true
		}
		for b := 0; b < 6; b++ {
			var batch []*mocrelay.Event
			for k, n := 0, 1+r.IntN(6); k < n; k++ {
				batch = append(batch, g.Next())
			}
			fg.Events = g.Offered
			if keyCollision(d.seed, g.Offered) {
				break
			}
			res.Batches++
			for attempt := 0; attempt < 3; attempt++ {
				err := insertEvents(ctx, d.db, d.seed, batch)
				if err == nil {
					model.InsertBatch(batch)
					hist = append(hist, fmt.Sprintf("batch %d attempt %d: ok %v", b, attempt, shortEvs(batch)))
					if !verify("a successful batch") {
						return
					}
					break
				}
				res.InsertErrors++
				hist = append(hist, fmt.Sprintf("batch %d attempt %d: insertEvents failed: %s", b, attempt, oneline(err.Error())))
				if !verify("a batch that failed with " + oneline(err.Error())) {
					return
				}
			}
			if b == 2 {
				d.db.Close()
				nd, err := c14Open(ctx, path)
				if err != nil {
					break
				}
				if nd.seed != d.seed {
					res.Violations = append(res.Violations, c14StraceViolation{"reopen/seed-changed", "hash seed changed across reopen", hist})
					return
				}
				d = nd
				if !verify("close and reopen") {
					return
				}
			}
		}
		d.db.Close()
	}
}
