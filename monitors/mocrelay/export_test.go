package mocrelay

// In-package shim for the external monitors (package mocrelay_test): white-box
// observations the properties name as optional observation points.

// VerifRouterRegistrySize is the number of connections the router's registry holds.
func VerifRouterRegistrySize(r *RouterHandler) int {
	r.subs.subs.mu.RLock()
	defer r.subs.subs.mu.RUnlock()
	return len(r.subs.subs.m)
}

// VerifRouterSubscriptions is the total number of registered subscriptions.
func VerifRouterSubscriptions(r *RouterHandler) int {
	n := 0
	r.subs.subs.Loop(func(_ string, m *safeMap[string, *subscriber]) {
		m.mu.RLock()
		n += len(m.m)
		m.mu.RUnlock()
	})
	return n
}
