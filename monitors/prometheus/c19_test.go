package prometheus

// C19 — the Prometheus middleware is transparent; gauges and counters equal what
// happened at every quiescent point.
//
// Set-up of one group: a fresh registry, NewPrometheusMiddleware(reg)(B) where B is the
// monitor's boundary handler. B is the far side for client messages (it records every
// message it takes from the middleware) and the near side for server messages (it
// records every message it hands to the middleware); the client side of each session
// (the driver goroutines writing `recv`, a reader goroutine draining `send`) is the
// near side for client messages and the far side for server messages. Below B there is
// either nothing (server messages come from the script) or a real
// NewMaxSubscriptionsMiddleware(k)(sink) whose CLOSED replies B forwards upwards.
//
// The oracle never looks inside the middleware: it compares reg.Gather() with what the
// two sides of the middleware recorded.

import (
	"context"
	"errors"
	"fmt"
	"math/rand/v2"
	"net/http"
	"net/http/httptest"
	"reflect"
	"runtime"
	"sort"
	"strconv"
	"strings"
	"sync"
	"sync/atomic"
	"testing"
	"time"

	"github.com/coder/websocket"
	"github.com/high-moctane/mocrelay"
	vk "github.com/high-moctane/mocrelay/internal/verifkit"
	prom "github.com/prometheus/client_golang/prometheus"
	dto "github.com/prometheus/client_model/go"
)

const (
	c19Cli = 0 // client -> handler direction
	c19Srv = 1 // handler -> client direction

	c19Pending = 0
	c19Handed  = 1
	c19Aborted = 2

	c19RoundBound = 30 * time.Second // a round that is not quiescent by then is inconclusive
	c19Grace      = 2 * time.Second  // after this a probe message is sent behind a lagging one
)

var c19DirName = [2]string{"client", "server"}

// ---------------------------------------------------------------------------
// independent rendering of a message (follows pointers; used for "unaltered")

func c19Render(v any) string {
	var b strings.Builder
	c19render(&b, reflect.ValueOf(v), 0)
	return b.String()
}

func c19render(b *strings.Builder, v reflect.Value, depth int) {
	if depth > 16 {
		b.WriteString("<deep>")
		return
	}
	switch v.Kind() {
	case reflect.Invalid:
		b.WriteString("nil")
	case reflect.Ptr, reflect.Interface:
		if v.IsNil() {
			b.WriteString("nil")
			return
		}
		if v.Kind() == reflect.Ptr {
			b.WriteByte('&')
		}
		c19render(b, v.Elem(), depth+1)
	case reflect.Struct:
		b.WriteString(v.Type().Name())
		b.WriteByte('{')
		for i := 0; i < v.NumField(); i++ {
			if i > 0 {
				b.WriteByte(' ')
			}
			b.WriteString(v.Type().Field(i).Name)
			b.WriteByte(':')
			c19render(b, v.Field(i), depth+1)
		}
		b.WriteByte('}')
	case reflect.Slice:
		if v.IsNil() {
			b.WriteString("nil[]")
			return
		}
		b.WriteByte('[')
		for i := 0; i < v.Len(); i++ {
			if i > 0 {
				b.WriteByte(' ')
			}
			c19render(b, v.Index(i), depth+1)
		}
		b.WriteByte(']')
	case reflect.Map:
		if v.IsNil() {
			b.WriteString("nilmap")
			return
		}
		type kv struct{ k, v string }
		var kvs []kv
		it := v.MapRange()
		for it.Next() {
			var kb, vb strings.Builder
			c19render(&kb, it.Key(), depth+1)
			c19render(&vb, it.Value(), depth+1)
			kvs = append(kvs, kv{kb.String(), vb.String()})
		}
		sort.Slice(kvs, func(i, j int) bool { return kvs[i].k < kvs[j].k })
		b.WriteString("map{")
		for i, e := range kvs {
			if i > 0 {
				b.WriteByte(' ')
			}
			b.WriteString(e.k + ":" + e.v)
		}
		b.WriteByte('}')
	case reflect.String:
		b.WriteString(strconv.Quote(v.String()))
	case reflect.Bool:
		b.WriteString(strconv.FormatBool(v.Bool()))
	case reflect.Int, reflect.Int8, reflect.Int16, reflect.Int32, reflect.Int64:
		b.WriteString(strconv.FormatInt(v.Int(), 10))
	case reflect.Uint, reflect.Uint8, reflect.Uint16, reflect.Uint32, reflect.Uint64:
		b.WriteString(strconv.FormatUint(v.Uint(), 10))
	case reflect.Float32, reflect.Float64:
		b.WriteString(strconv.FormatFloat(v.Float(), 'g', -1, 64))
	default:
		b.WriteString("<" + v.Kind().String() + ">")
	}
}

// c19Classify names a message by its NIP-01 label (the monitor's own table).
func c19Classify(m any) (label, sub string, kind int64) {
	switch x := m.(type) {
	case *mocrelay.ClientEventMsg:
		if x != nil && x.Event != nil {
			kind = x.Event.Kind
		}
		return "EVENT", "", kind
	case *mocrelay.ClientReqMsg:
		if x != nil {
			sub = x.SubscriptionID
		}
		return "REQ", sub, 0
	case *mocrelay.ClientCloseMsg:
		if x != nil {
			sub = x.SubscriptionID
		}
		return "CLOSE", sub, 0
	case *mocrelay.ClientAuthMsg:
		return "AUTH", "", 0
	case *mocrelay.ClientCountMsg:
		if x != nil {
			sub = x.SubscriptionID
		}
		return "COUNT", sub, 0
	case *mocrelay.ServerEOSEMsg:
		if x != nil {
			sub = x.SubscriptionID
		}
		return "EOSE", sub, 0
	case *mocrelay.ServerEventMsg:
		if x != nil {
			sub = x.SubscriptionID
		}
		return "EVENT", sub, 0
	case *mocrelay.ServerNoticeMsg:
		return "NOTICE", "", 0
	case *mocrelay.ServerOKMsg:
		return "OK", "", 0
	case *mocrelay.ServerAuthMsg:
		return "AUTH", "", 0
	case *mocrelay.ServerCountMsg:
		if x != nil {
			sub = x.SubscriptionID
		}
		return "COUNT", sub, 0
	case *mocrelay.ServerClosedMsg:
		if x != nil {
			sub = x.SubscriptionID
		}
		return "CLOSED", sub, 0
	}
	return fmt.Sprintf("?%T", m), "", 0
}

// ---------------------------------------------------------------------------
// recorded state

type c19Entry struct {
	dir     int
	label   string
	sub     string
	kind    int64
	render  string
	msg     any
	origin  string // script | inner | probe
	status  int
	seenAt  int64 // logical stamp of the far-side observation, 0 = not observed
	samePtr bool
	reacted bool // REQ with an inner middleware: the inner reaction has been observed
	race    int  // > 0: released together with the other message carrying the same tag
}

func (e *c19Entry) String() string {
	st := [...]string{"pending", "handed", "aborted"}[e.status]
	s := fmt.Sprintf("%s %q %s", e.label, e.sub, st)
	if e.label == "EVENT" && e.dir == c19Cli {
		s = fmt.Sprintf("EVENT kind=%d %s", e.kind, st)
	}
	if e.seenAt != 0 {
		s += fmt.Sprintf(" seen@%d", e.seenAt)
	}
	if e.origin != "script" {
		s += " (" + e.origin + ")"
	}
	if e.race != 0 {
		s += fmt.Sprintf(" raced#%d", e.race)
	}
	return s
}

type c19Key struct{}

type c19Cmd struct {
	msg    mocrelay.ServerMsg
	origin string
	ret    bool
	err    error
	ack    chan *c19Entry // buffered 1
	gate   *c19Gate       // racing profile: B itself waits at the barrier before handing the message over
	skew   int
}

type c19Sess struct {
	g      *c19Group
	idx    int
	ctx    context.Context
	cancel context.CancelFunc
	recv   chan mocrelay.ClientMsg
	send   chan mocrelay.ServerMsg
	cmds   chan *c19Cmd

	returnedCh chan struct{}

	// driver-only (planning / the session's single client goroutine)
	recvClosed bool

	mu       sync.Mutex
	changed  chan struct{}
	ent      [2][]*c19Entry
	cur      [2]int // far-side matching cursor
	quietIdx [2]int // entries before it are final
	foldIdx  [2]int // entries before it are folded into the group's counters
	replIdx  [2]int // entries before it are applied to the open set
	called   bool
	started  bool
	endInit  bool
	endKind  string
	returned bool
	retErr   error
	sinkSeen map[string]bool
	open     map[string]bool
	last     map[string]string
	lastIn   map[string]bool // the last CLOSED of the id came from the real inner middleware
	maybe    map[string]bool // ids whose state is open-or-ended after an unordered REQ || CLOSED
	raceTag  map[any]int     // message -> race tag (written at plan time)
}

func (s *c19Sess) bumpLocked() {
	close(s.changed)
	s.changed = make(chan struct{})
}

// waitFor blocks until pred (evaluated under the session lock) holds, the group is
// aborted, or extra fires.
func (s *c19Sess) waitFor(pred func() bool, extra <-chan time.Time) (ok, extraFired bool) {
	for {
		s.mu.Lock()
		if pred() {
			s.mu.Unlock()
			return true, false
		}
		ch := s.changed
		s.mu.Unlock()
		select {
		case <-ch:
		case <-s.g.abort:
			return false, false
		case <-extra:
			return false, true
		}
	}
}

// offer records a message that is about to be handed to the middleware.
func (s *c19Sess) offer(dir int, msg any, origin string) *c19Entry {
	e := &c19Entry{dir: dir, msg: msg, origin: origin, render: c19Render(msg)}
	e.label, e.sub, e.kind = c19Classify(msg)
	s.mu.Lock()
	defer s.mu.Unlock()
	if s.returned {
		return nil
	}
	if t := s.raceTag[msg]; t != 0 {
		e.race = t
		delete(s.raceTag, msg)
	}
	s.ent[dir] = append(s.ent[dir], e)
	return e
}

func (s *c19Sess) settle(e *c19Entry, status int) {
	s.mu.Lock()
	e.status = status
	s.bumpLocked()
	s.mu.Unlock()
}

func (s *c19Sess) traceLocked(max int) map[string]any {
	out := map[string]any{"session": s.idx, "started": s.started, "end_initiated": s.endInit, "end_kind": s.endKind, "returned": s.returned}
	if s.retErr != nil {
		out["return_error"] = s.retErr.Error()
	}
	for d := 0; d < 2; d++ {
		ents := s.ent[d]
		from := 0
		if len(ents) > max {
			from = len(ents) - max
		}
		var l []string
		for i := from; i < len(ents); i++ {
			l = append(l, fmt.Sprintf("#%d %s", i, ents[i]))
		}
		out[c19DirName[d]+"_messages_near_side"] = l
	}
	var op []string
	for k := range s.open {
		op = append(op, k)
	}
	sort.Strings(op)
	out["open_subscriptions_model"] = op
	var mb []string
	for k := range s.maybe {
		mb = append(mb, k)
	}
	sort.Strings(mb)
	if len(mb) > 0 {
		out["open_or_ended_after_unordered_REQ_and_CLOSED"] = mb
	}
	return out
}

// observe is called by the far side of direction dir for every message that came out
// of the middleware. It matches the message, in order, against what was handed in.
func (s *c19Sess) observe(dir int, msg any) {
	r := c19Render(msg)
	var sig, what string
	var wit map[string]any
	s.mu.Lock()
	st := s.g.clock.Add(1)
	ents := s.ent[dir]
	j := s.cur[dir]
	skipped := 0
	for j < len(ents) {
		e := ents[j]
		if e.status != c19Aborted && e.seenAt == 0 {
			if e.render == r {
				break
			}
			skipped++
		}
		j++
	}
	if j == len(ents) {
		label, _, _ := c19Classify(msg)
		// which entry was due?
		var due *c19Entry
		for k := s.cur[dir]; k < len(ents); k++ {
			if ents[k].status != c19Aborted && ents[k].seenAt == 0 {
				due = ents[k]
				break
			}
		}
		wit = s.traceLocked(40)
		wit["observed"] = r
		if due != nil && due.label == label {
			sig = "transparency/altered/" + c19DirName[dir] + "-" + label
			what = fmt.Sprintf("session %d: the %s message %s came out of the middleware altered", s.idx, c19DirName[dir], label)
			wit["handed_in"] = due.render
		} else {
			sig = "transparency/unexpected/" + c19DirName[dir] + "-" + label
			what = fmt.Sprintf("session %d: a %s message %s came out of the middleware that was not handed in (duplicate, out of order or invented)", s.idx, c19DirName[dir], label)
			if due != nil {
				wit["next_due"] = due.render
			}
		}
	} else {
		e := ents[j]
		if skipped > 0 && !s.endInit {
			sig = "transparency/lost-or-reordered/" + c19DirName[dir]
			what = fmt.Sprintf("session %d (live, no end initiated): %s message #%d (%s) came out while %d earlier message(s) handed in before it had not", s.idx, c19DirName[dir], j, e.label, skipped)
			wit = s.traceLocked(40)
			wit["observed"] = r
		}
		e.seenAt = st
		e.samePtr = msg == e.msg
		s.cur[dir] = j + 1
	}
	s.bumpLocked()
	s.mu.Unlock()
	if sig != "" {
		s.g.violate(sig, what, wit)
	}
}

func (s *c19Sess) initEnd(kind string) {
	s.mu.Lock()
	if !s.endInit {
		s.endInit = true
		s.endKind = kind
	}
	s.mu.Unlock()
}

// reactedLocked: with a real middleware below B, a REQ is settled only when that
// middleware has either passed it on to the sink or answered it with CLOSED (seen at
// the client side after the REQ).
func (s *c19Sess) reactedLocked(e *c19Entry) bool {
	if e.reacted {
		return true
	}
	if e.seenAt == 0 {
		return false
	}
	if s.sinkSeen[e.render] {
		e.reacted = true
		return true
	}
	srv := s.ent[c19Srv]
	for k := len(srv) - 1; k >= 0; k-- {
		x := srv[k]
		if x.seenAt != 0 && x.seenAt < e.seenAt {
			break
		}
		if x.origin == "inner" && x.label == "CLOSED" && x.sub == e.sub && x.seenAt > e.seenAt {
			e.reacted = true
			return true
		}
	}
	return false
}

// quietLocked: nothing of this session is in flight.
func (s *c19Sess) quietLocked() bool {
	if s.returned {
		return true
	}
	if s.endInit || !s.started {
		return false
	}
	for d := 0; d < 2; d++ {
		ents := s.ent[d]
		i := s.quietIdx[d]
		for i < len(ents) {
			e := ents[i]
			if e.status == c19Pending || (e.status == c19Handed && e.seenAt == 0) {
				break
			}
			if e.status == c19Handed && s.g.inner != nil && e.dir == c19Cli && e.label == "REQ" && !s.reactedLocked(e) {
				break
			}
			i++
		}
		s.quietIdx[d] = i
		if i < len(ents) {
			return false
		}
	}
	return true
}

// run is the client side of one session.
func (s *c19Sess) run() {
	stop := make(chan struct{})
	rdone := make(chan struct{})
	go func() {
		defer close(rdone)
		for {
			select {
			case m := <-s.send:
				s.observe(c19Srv, m)
			case <-stop:
				return
			}
		}
	}()
	err := s.g.h.ServeNostr(s.ctx, s.send, s.recv)
	close(stop)
	<-rdone
	s.mu.Lock()
	s.returned = true
	s.retErr = err
	unsolicited := !s.endInit
	var wit map[string]any
	if unsolicited {
		wit = s.traceLocked(40)
	}
	s.bumpLocked()
	s.mu.Unlock()
	close(s.returnedCh)
	s.cancel()
	if unsolicited {
		s.g.violate("transparency/session-ended-by-middleware",
			fmt.Sprintf("session %d returned (%v) although neither the client nor the handler ended it: messages can no longer pass", s.idx, err), wit)
	}
}

// ---------------------------------------------------------------------------
// group

type c19Group struct {
	rep     *vk.Report
	profile string
	gi      int
	desc    map[string]any
	reg     *prom.Registry
	h       mocrelay.Handler
	inner   mocrelay.Handler
	clock   atomic.Int64
	marks   int

	abort     chan struct{}
	abortOnce sync.Once
	abortWhy  string
	violated  atomic.Bool

	all    []*c19Sess
	active []*c19Sess
	subIDs []string
	round  atomic.Int64

	lo, hi map[string]int64 // cumulative: observed on the far side / handed to the middleware
	feat   map[string]bool  // features of the current round
}

func (g *c19Group) aborted() bool {
	select {
	case <-g.abort:
		return true
	default:
		return false
	}
}

func (g *c19Group) stop(why string) {
	g.abortOnce.Do(func() {
		g.abortWhy = why
		close(g.abort)
	})
}

func (g *c19Group) violate(sig, what string, wit map[string]any) {
	if g.violated.Swap(true) {
		return // one witness per group
	}
	if wit == nil {
		wit = map[string]any{}
	}
	wit["group"] = g.desc
	wit["round"] = g.round.Load()
	g.rep.Violation(sig, fmt.Sprintf("[%s group %d round %d] %s", g.profile, g.gi, g.round.Load(), what), wit)
	g.stop("violation")
}

func (g *c19Group) newSession() *c19Sess {
	s := &c19Sess{
		g: g, idx: len(g.all),
		recv:       make(chan mocrelay.ClientMsg),
		send:       make(chan mocrelay.ServerMsg),
		cmds:       make(chan *c19Cmd),
		returnedCh: make(chan struct{}),
		changed:    make(chan struct{}),
		sinkSeen:   map[string]bool{},
		open:       map[string]bool{},
		last:       map[string]string{},
		lastIn:     map[string]bool{},
		maybe:      map[string]bool{},
		raceTag:    map[any]int{},
	}
	s.ctx, s.cancel = context.WithCancel(context.WithValue(context.Background(), c19Key{}, s))
	g.all = append(g.all, s)
	g.active = append(g.active, s)
	return s
}

// boundary is the handler directly below the Prometheus middleware.
func (g *c19Group) boundary() mocrelay.Handler {
	return mocrelay.HandlerFunc(func(ctx context.Context, send chan<- mocrelay.ServerMsg, recv <-chan mocrelay.ClientMsg) error {
		s, _ := ctx.Value(c19Key{}).(*c19Sess)
		if s == nil {
			g.stop("the handler below the middleware cannot identify its session (context values not passed on)")
			return errors.New("verif: unidentified session")
		}
		s.mu.Lock()
		s.started = true
		s.bumpLocked()
		s.mu.Unlock()

		var irecv chan mocrelay.ClientMsg
		var isend chan mocrelay.ServerMsg
		if g.inner != nil {
			irecv = make(chan mocrelay.ClientMsg)
			isend = make(chan mocrelay.ServerMsg)
			ictx, icancel := context.WithCancel(ctx)
			idone := make(chan struct{})
			go func() {
				defer close(idone)
				g.inner.ServeNostr(ictx, isend, irecv)
			}()
			defer func() {
				icancel()
				<-idone
			}()
		}
		type queued struct {
			e *c19Entry
			c *c19Cmd
		}
		var toInner []mocrelay.ClientMsg
		var toMw []queued
		defer func() {
			for _, q := range toMw {
				s.settle(q.e, c19Aborted)
				if q.c != nil {
					q.c.ack <- q.e
				}
			}
		}()
		for {
			var ic chan<- mocrelay.ClientMsg
			var im mocrelay.ClientMsg
			if len(toInner) > 0 {
				ic, im = irecv, toInner[0]
			}
			var sc chan<- mocrelay.ServerMsg
			var sm mocrelay.ServerMsg
			if len(toMw) > 0 {
				sc, sm = send, toMw[0].e.msg.(mocrelay.ServerMsg)
			}
			select {
			case <-ctx.Done():
				return ctx.Err()
			case m, ok := <-recv:
				if !ok {
					return mocrelay.ErrRecvClosed
				}
				s.observe(c19Cli, m)
				if g.inner != nil {
					toInner = append(toInner, m)
				}
			case ic <- im:
				toInner = toInner[1:]
			case c := <-s.cmds:
				if c.ret {
					if c.gate != nil {
						c.gate.wait()
						c19Spin(c.skew)
					}
					c.ack <- nil
					return c.err
				}
				e := s.offer(c19Srv, c.msg, c.origin)
				if c.gate != nil {
					c.gate.wait()
					c19Spin(c.skew)
					if len(toMw) == 0 {
						// hand it over right here, one hop away from the middleware
						select {
						case send <- c.msg:
							s.settle(e, c19Handed)
						case <-ctx.Done():
							s.settle(e, c19Aborted)
						}
						c.ack <- e
						continue
					}
				}
				toMw = append(toMw, queued{e, c})
			case m := <-isend:
				toMw = append(toMw, queued{s.offer(c19Srv, m, "inner"), nil})
			case sc <- sm:
				q := toMw[0]
				toMw = toMw[1:]
				s.settle(q.e, c19Handed)
				if q.c != nil {
					q.c.ack <- q.e
				}
			}
		}
	})
}

// sink terminates the chain below the real inner middleware.
func c19Sink() mocrelay.Handler {
	return mocrelay.HandlerFunc(func(ctx context.Context, send chan<- mocrelay.ServerMsg, recv <-chan mocrelay.ClientMsg) error {
		s, _ := ctx.Value(c19Key{}).(*c19Sess)
		for {
			select {
			case <-ctx.Done():
				return ctx.Err()
			case m, ok := <-recv:
				if !ok {
					return mocrelay.ErrRecvClosed
				}
				if _, isReq := m.(*mocrelay.ClientReqMsg); isReq && s != nil {
					r := c19Render(m)
					s.mu.Lock()
					s.sinkSeen[r] = true
					s.bumpLocked()
					s.mu.Unlock()
				}
			}
		}
	})
}

// ---------------------------------------------------------------------------
// operations of the script

type c19Op struct {
	dir      int
	what     string // message label, or cancel | closeRecv | return
	sub      string
	msg      any
	retErr   error
	gaugeRel bool
	dep      *c19Op
	dep2     *c19Op
	waitSeen bool
	race     int
	done     chan struct{}
}

// sendClient hands one client message to the middleware.
func (s *c19Sess) sendClient(msg mocrelay.ClientMsg, origin string, pre *c19Entry) *c19Entry {
	if s.recvClosed {
		return nil
	}
	e := pre
	if e == nil {
		e = s.offer(c19Cli, msg, origin)
	}
	if e == nil {
		return nil
	}
	select {
	case s.recv <- msg:
		s.settle(e, c19Handed)
	case <-s.returnedCh:
		s.settle(e, c19Aborted)
	case <-s.g.abort:
		s.settle(e, c19Aborted)
	}
	return e
}

// sendServer asks B to hand one server message to the middleware.
func (s *c19Sess) sendServer(msg mocrelay.ServerMsg, origin string, gate *c19Gate, skew int) *c19Cmd {
	c := &c19Cmd{msg: msg, origin: origin, ack: make(chan *c19Entry, 1), gate: gate, skew: skew}
	select {
	case s.cmds <- c:
		return c
	case <-s.returnedCh:
	case <-s.g.abort:
	}
	return nil
}

func (s *c19Sess) awaitAck(c *c19Cmd) *c19Entry {
	select {
	case e := <-c.ack:
		return e
	case <-s.returnedCh:
		select {
		case e := <-c.ack:
			return e
		default:
		}
	case <-s.g.abort:
	}
	return nil
}

func (s *c19Sess) awaitSeen(e *c19Entry) {
	if e == nil {
		return
	}
	needReact := s.g.inner != nil && e.dir == c19Cli && e.label == "REQ"
	s.waitFor(func() bool {
		if s.returned || e.status == c19Aborted {
			return true
		}
		if e.seenAt == 0 {
			return false
		}
		return !needReact || s.reactedLocked(e)
	}, nil)
}

// runList executes the operations of one direction of one session in order.
// The first operation of a racing pair is released at the round's barrier from as
// close to the middleware as possible: the client message is recorded before the
// barrier, the handler-side message is handed over by B itself after the barrier.
func (s *c19Sess) runList(ops []*c19Op, gate *c19Gate, skew int) {
	var unacked []*c19Cmd
	var pre *c19Entry
	var bGate *c19Gate
	first := ops[0]
	isMsg := first.what != "cancel" && first.what != "closeRecv" && first.what != "return"
	switch {
	case first.race != 0 && gate.spin && first.dir == c19Srv && (isMsg || first.what == "return"):
		bGate = gate // B arrives at the barrier in this goroutine's place
	case first.race != 0 && gate.spin && first.dir == c19Cli && isMsg && !s.recvClosed:
		pre = s.offer(c19Cli, first.msg, "script")
		gate.wait()
		c19Spin(skew)
	default:
		gate.wait()
		c19Spin(skew)
	}
	for i, op := range ops {
		if op.dep != nil {
			<-op.dep.done
		}
		if op.dep2 != nil {
			<-op.dep2.done
		}
		var opGate *c19Gate
		var opPre *c19Entry
		if i == 0 {
			opGate, opPre = bGate, pre
		}
		switch op.what {
		case "cancel":
			s.initEnd("cancel")
			s.cancel()
		case "closeRecv":
			s.initEnd("closeRecv")
			if !s.recvClosed {
				s.recvClosed = true
				close(s.recv)
			}
		case "return":
			s.initEnd("return")
			c := &c19Cmd{ret: true, err: op.retErr, ack: make(chan *c19Entry, 1), gate: opGate, skew: skew}
			select {
			case s.cmds <- c:
			case <-s.returnedCh:
				if opGate != nil {
					opGate.arrive()
				}
			case <-s.g.abort:
			}
		default:
			if op.dir == c19Cli {
				e := s.sendClient(op.msg.(mocrelay.ClientMsg), "script", opPre)
				if op.waitSeen {
					s.awaitSeen(e)
				}
			} else {
				c := s.sendServer(op.msg.(mocrelay.ServerMsg), "script", opGate, skew)
				if c == nil && opGate != nil {
					opGate.arrive()
				}
				if c != nil {
					if op.waitSeen {
						s.awaitSeen(s.awaitAck(c))
					} else {
						unacked = append(unacked, c)
					}
				}
			}
		}
		close(op.done)
	}
	for _, c := range unacked {
		s.awaitAck(c)
	}
}

// ---------------------------------------------------------------------------
// generators

var (
	// incl. powers of two and their neighbours (table sizes of a per-kind fast path)
	c19Kinds = []int64{0, 1, 3, 5, 7, 255, 256, 1023, 1024, 1025, 1059, 2048, 4096, 10002, 20001, 30023, 32768, 40000, 65535, 65536}
	// short ids, ids that differ only in case / surrounding blanks, and ids that are longer than
	// 64 bytes and differ only beyond byte 64 (nothing in the relay enforces a length)
	c19SubPool = []string{"a", "b", "sub-1", "", "x:y", "α", " a", "b ", "A",
		strings.Repeat("s", 64), strings.Repeat("s", 64) + "-one", strings.Repeat("s", 64) + "-two"}
)

func (g *c19Group) mark() string {
	g.marks++
	return fmt.Sprintf("%s%d-m%d", g.profile[:2], g.gi, g.marks)
}

func (g *c19Group) event(r *rand.Rand, kind int64) *mocrelay.Event {
	m := g.mark()
	ev := &mocrelay.Event{
		ID: vk.HexOf(m), Pubkey: vk.FakePub(r.IntN(4)), CreatedAt: int64(1700000000 + r.IntN(1000)),
		Kind: kind, Tags: []mocrelay.Tag{}, Content: m, Sig: strings.Repeat("0", 128),
	}
	if r.IntN(2) == 0 {
		ev.Tags = append(ev.Tags, mocrelay.Tag{"e", vk.HexOf(m + "e")}, mocrelay.Tag{"t", m})
	}
	return ev
}

func (g *c19Group) filters(r *rand.Rand) []*mocrelay.ReqFilter {
	fs := []*mocrelay.ReqFilter{{IDs: []string{vk.HexOf(g.mark())}}}
	if r.IntN(2) == 0 {
		f := &mocrelay.ReqFilter{Kinds: []int64{vk.Pick(r, c19Kinds)}}
		if r.IntN(2) == 0 {
			f.Tags = map[string][]string{"t": {"x", "y"}}
			f.Since = vk.Ptr(int64(r.IntN(100)))
			f.Limit = vk.Ptr(int64(r.IntN(50)))
		}
		fs = append(fs, f)
	}
	return fs
}

func (g *c19Group) clientMsg(r *rand.Rand, label, sub string) mocrelay.ClientMsg {
	switch label {
	case "EVENT":
		return &mocrelay.ClientEventMsg{Event: g.event(r, vk.Pick(r, c19Kinds))}
	case "REQ":
		return &mocrelay.ClientReqMsg{SubscriptionID: sub, ReqFilters: g.filters(r)}
	case "CLOSE":
		return &mocrelay.ClientCloseMsg{SubscriptionID: sub}
	case "AUTH":
		return &mocrelay.ClientAuthMsg{Event: g.event(r, 22242)}
	default:
		return &mocrelay.ClientCountMsg{SubscriptionID: sub, ReqFilters: g.filters(r)}
	}
}

func (g *c19Group) serverMsg(r *rand.Rand, label, sub string) mocrelay.ServerMsg {
	switch label {
	case "EOSE":
		return mocrelay.NewServerEOSEMsg(sub)
	case "EVENT":
		return mocrelay.NewServerEventMsg(sub, g.event(r, vk.Pick(r, c19Kinds)))
	case "NOTICE":
		return mocrelay.NewServerNoticeMsg("notice " + g.mark())
	case "OK":
		return mocrelay.NewServerOKMsg(vk.HexOf(g.mark()), r.IntN(2) == 0, vk.Pick(r, []string{"", "duplicate: ", "blocked: "}), g.mark())
	case "AUTH":
		return &mocrelay.ServerAuthMsg{Challenge: g.mark()}
	case "COUNT":
		var ap *bool
		if r.IntN(2) == 0 {
			ap = vk.Ptr(r.IntN(2) == 0)
		}
		return mocrelay.NewServerCountMsg(sub, uint64(r.IntN(1000)), ap)
	default:
		return mocrelay.NewServerClosedMsg(sub, vk.Pick(r, []string{"", "error: ", "rate-limited: "}), g.mark())
	}
}

type c19Pick struct {
	dir   int
	label string
	w     int
}

var c19Mix = []c19Pick{
	{c19Cli, "REQ", 22}, {c19Cli, "CLOSE", 14}, {c19Srv, "CLOSED", 12},
	{c19Cli, "EVENT", 10}, {c19Cli, "COUNT", 5}, {c19Cli, "AUTH", 3},
	{c19Srv, "EOSE", 8}, {c19Srv, "EVENT", 8}, {c19Srv, "NOTICE", 4}, {c19Srv, "OK", 6}, {c19Srv, "AUTH", 2}, {c19Srv, "COUNT", 4},
}

var c19SubHeavy = []c19Pick{
	{c19Cli, "REQ", 50}, {c19Cli, "CLOSE", 18}, {c19Srv, "CLOSED", 14},
	{c19Cli, "EVENT", 4}, {c19Cli, "COUNT", 3}, {c19Srv, "EOSE", 5}, {c19Srv, "EVENT", 3}, {c19Srv, "NOTICE", 1}, {c19Srv, "OK", 2},
}

func c19Choose(r *rand.Rand, tab []c19Pick) c19Pick {
	tot := 0
	for _, p := range tab {
		tot += p.w
	}
	x := r.IntN(tot)
	for _, p := range tab {
		if x < p.w {
			return p
		}
		x -= p.w
	}
	return tab[0]
}

// planSession draws one linear sequence of operations for a session and splits it into
// the client-side list and the handler-side list. Operations that change the
// subscription set of the same (session, id) are chained: the next is issued only after
// the previous one was observed on the far side.
func (g *c19Group) planSession(r *rand.Rand, nOps int, end string, tab []c19Pick) (lists [2][]*c19Op) {
	var ops []*c19Op
	lastG := map[string]*c19Op{}
	for i := 0; i < nOps; i++ {
		p := c19Choose(r, tab)
		op := &c19Op{dir: p.dir, what: p.label, done: make(chan struct{})}
		op.sub = vk.Pick(r, g.subIDs)
		if p.dir == c19Cli {
			op.msg = g.clientMsg(r, p.label, op.sub)
			op.gaugeRel = p.label == "REQ" || p.label == "CLOSE"
		} else {
			op.msg = g.serverMsg(r, p.label, op.sub)
			op.gaugeRel = p.label == "CLOSED"
		}
		if op.gaugeRel {
			if prev := lastG[op.sub]; prev != nil && (prev.dir != op.dir || g.inner != nil) {
				op.dep = prev
				prev.waitSeen = true
			}
			lastG[op.sub] = op
		}
		ops = append(ops, op)
	}
	if end != "" {
		op := &c19Op{what: end, done: make(chan struct{})}
		switch end {
		case "cancel":
			op.dir = r.IntN(2)
		case "closeRecv":
			op.dir = c19Cli
		case "return":
			op.dir = c19Srv
			op.retErr = vk.Pick(r, []error{nil, errors.New("verif: scripted handler error"), mocrelay.ErrRecvClosed})
		}
		pos := len(ops)
		if r.IntN(3) == 0 {
			pos = r.IntN(len(ops) + 1)
		}
		ops = append(ops, nil)
		copy(ops[pos+1:], ops[pos:])
		ops[pos] = op
	}
	for _, op := range ops {
		lists[op.dir] = append(lists[op.dir], op)
	}
	return lists
}

func c19EndKind(r *rand.Rand) string {
	return vk.Pick(r, []string{"cancel", "cancel", "closeRecv", "closeRecv", "return"})
}

// ---------------------------------------------------------------------------
// a round: concurrent execution, quiescence, comparison

type c19SessPlan struct {
	s     *c19Sess
	start bool
	lists [2][]*c19Op
	skew  [2]int
}

// c19Gate releases the goroutines of a round together: by a channel close, or (burst
// profile) by a spin barrier so that they reach the middleware within nanoseconds.
type c19Gate struct {
	spin    bool
	n       int32
	arrived atomic.Int32
	ch      chan struct{}
	abort   <-chan struct{}
}

func (gt *c19Gate) wait() {
	if !gt.spin {
		<-gt.ch
		return
	}
	gt.arrived.Add(1)
	for i := 1; gt.arrived.Load() < gt.n; i++ {
		if i%512 == 0 {
			select {
			case <-gt.abort:
				return
			default:
			}
			runtime.Gosched()
		}
	}
}

// arrive is wait for a participant that has nothing left to release.
func (gt *c19Gate) arrive() {
	if gt.spin {
		gt.arrived.Add(1)
	}
}

var c19SpinSink atomic.Int64

// c19Spin delays the caller by n short steps (the seeded skew between two racers).
func c19Spin(n int) {
	for i := 0; i < n; i++ {
		c19SpinSink.Load()
	}
}

func (g *c19Group) runRound(plans []c19SessPlan, final bool) {
	wd := time.AfterFunc(c19RoundBound, func() {
		g.stop(fmt.Sprintf("round %d not quiescent within %s", g.round.Load(), c19RoundBound))
	})
	defer wd.Stop()
	gate := &c19Gate{spin: g.profile == "burst" || g.profile == "racing", ch: make(chan struct{}), abort: g.abort}
	for _, p := range plans {
		if p.start {
			gate.n++
		}
		for d := 0; d < 2; d++ {
			if len(p.lists[d]) > 0 {
				gate.n++
			}
		}
	}
	var wg sync.WaitGroup
	for _, p := range plans {
		p := p
		if p.start {
			p.s.mu.Lock()
			p.s.called = true
			p.s.mu.Unlock()
			go func() {
				gate.wait()
				p.s.run()
			}()
		}
		for d := 0; d < 2; d++ {
			if len(p.lists[d]) == 0 {
				continue
			}
			l := p.lists[d]
			sk := p.skew[d]
			wg.Add(1)
			go func() {
				defer wg.Done()
				p.s.runList(l, gate, sk)
			}()
		}
	}
	close(gate.ch)
	wg.Wait()
	if g.quiesce() {
		g.check(final)
	}
}

// quiesce waits until nothing is in flight in any session. A message that is still
// missing after the grace period gets a probe message sent behind it: if the probe
// overtakes it the message was lost (decided by order, not by time).
func (g *c19Group) quiesce() bool {
	grace := time.NewTimer(c19Grace)
	defer grace.Stop()
	graceC := grace.C
	for _, s := range g.active {
		for {
			ok, fired := s.waitFor(s.quietLocked, graceC)
			if ok {
				break
			}
			if fired {
				graceC = nil
				g.probe()
				continue
			}
			return false
		}
	}
	return !g.aborted()
}

func (g *c19Group) probe() {
	r := vk.RNG("C19/probe", g.gi)
	for _, s := range g.active {
		var lag [2]bool
		s.mu.Lock()
		if s.started && !s.endInit && !s.returned {
			for d := 0; d < 2; d++ {
				for _, e := range s.ent[d][s.quietIdx[d]:] {
					if e.status == c19Handed && e.seenAt == 0 {
						lag[d] = true
					}
				}
			}
		}
		s.mu.Unlock()
		if lag[c19Cli] {
			g.rep.Count("probes_sent", 1)
			s.sendClient(g.clientMsg(r, "EVENT", ""), "probe", nil)
		}
		if lag[c19Srv] {
			g.rep.Count("probes_sent", 1)
			if c := s.sendServer(g.serverMsg(r, "NOTICE", ""), "probe", nil, 0); c != nil {
				s.awaitAck(c)
			}
		}
	}
}

type c19Snap struct {
	gauges   map[string]float64
	counters map[string]float64 // "family|label"
}

var c19Families = map[string]string{
	"mocrelay_recv_msg_total":   "recv_msg_total",
	"mocrelay_recv_event_total": "recv_event_total",
	"mocrelay_send_msg_total":   "send_msg_total",
}

func c19Gather(reg *prom.Registry) (c19Snap, error) {
	snap := c19Snap{gauges: map[string]float64{}, counters: map[string]float64{}}
	mfs, err := reg.Gather()
	if err != nil {
		return snap, err
	}
	for _, mf := range mfs {
		name := mf.GetName()
		switch mf.GetType() {
		case dto.MetricType_GAUGE:
			for _, m := range mf.GetMetric() {
				snap.gauges[name] += m.GetGauge().GetValue()
			}
		case dto.MetricType_COUNTER:
			short, ok := c19Families[name]
			if !ok {
				continue
			}
			for _, m := range mf.GetMetric() {
				var lv []string
				for _, lp := range m.GetLabel() {
					lv = append(lv, lp.GetValue())
				}
				snap.counters[short+"|"+strings.Join(lv, ",")] += m.GetCounter().GetValue()
			}
		}
	}
	return snap, nil
}

func c19CounterKeys(e *c19Entry) []string {
	if e.dir == c19Cli {
		if e.label == "EVENT" {
			return []string{"recv_msg_total|EVENT", "recv_event_total|" + strconv.FormatInt(e.kind, 10)}
		}
		return []string{"recv_msg_total|" + e.label}
	}
	return []string{"send_msg_total|" + e.label}
}

// applyLocked replays the newly observed REQ/CLOSE/CLOSED of a session, in the order of
// their far-side stamps, on the model "open = opened by REQ and not yet ended".
func (s *c19Sess) applyLocked() {
	var news []*c19Entry
	for d := 0; d < 2; d++ {
		ents := s.ent[d]
		for i := s.replIdx[d]; i < len(ents); i++ {
			e := ents[i]
			if e.seenAt == 0 {
				continue
			}
			if (d == c19Cli && (e.label == "REQ" || e.label == "CLOSE")) || (d == c19Srv && e.label == "CLOSED") {
				news = append(news, e)
			}
		}
		s.replIdx[d] = len(ents)
	}
	sort.Slice(news, func(i, j int) bool { return news[i].seenAt < news[j].seenAt })
	g := s.g
	// the two messages of a racing pair are unordered: they are applied together
	partner := map[int]*c19Entry{}
	paired := map[*c19Entry]bool{}
	for _, e := range news {
		if e.race != 0 {
			if p := partner[e.race]; p != nil && p.sub == e.sub {
				paired[p], paired[e] = true, true
			} else {
				partner[e.race] = e
			}
		}
	}
	for _, e := range news {
		if paired[e] {
			first := partner[e.race]
			if first != e {
				continue // applied when its partner came up
			}
			var second *c19Entry
			for _, x := range news {
				if x != e && x.race == e.race && paired[x] {
					second = x
				}
			}
			was := "ended"
			if s.open[e.sub] {
				was = "open"
			} else if s.maybe[e.sub] {
				was = "ambiguous"
			}
			kind := e.label + "||" + second.label
			if e.label == "CLOSED" {
				kind = second.label + "||" + e.label
			}
			g.feat["race-"+kind+"-on-"+was] = true
			g.rep.Count("race_first_on_far_side:"+kind+":"+e.label, 1)
			delete(s.open, e.sub)
			delete(s.maybe, e.sub)
			if kind == "REQ||CLOSED" {
				s.maybe[e.sub] = true // opened-then-ended or ended-then-opened: both are allowed
				s.last[e.sub] = "RACE"
			} else {
				s.last[e.sub] = "CLOSE" // ended exactly once, whichever came first
			}
			s.lastIn[e.sub] = false
			continue
		}
		prev := s.last[e.sub]
		if s.maybe[e.sub] {
			g.feat[e.label+"-on-ambiguous"] = true
			delete(s.maybe, e.sub)
		}
		if prev == "CLOSED" && s.lastIn[e.sub] {
			g.feat[e.label+"-after-inner-CLOSED"] = true
		}
		switch e.label {
		case "REQ":
			switch {
			case s.open[e.sub]:
				g.feat["REQ-while-open"] = true
			case prev == "":
				g.feat["REQ-fresh"] = true
			default:
				g.feat["REQ-after-"+prev] = true
			}
			s.open[e.sub] = true
		case "CLOSE":
			switch {
			case s.open[e.sub]:
				g.feat["CLOSE-open"] = true
			case prev == "":
				g.feat["CLOSE-never-opened"] = true
			default:
				g.feat["CLOSE-late-after-"+prev] = true
			}
			delete(s.open, e.sub)
		case "CLOSED":
			o := "scripted"
			if e.origin == "inner" {
				o = "inner"
			}
			switch {
			case s.open[e.sub]:
				g.feat["CLOSED-"+o+"-open"] = true
			case prev == "":
				g.feat["CLOSED-"+o+"-never-opened"] = true
			default:
				g.feat["CLOSED-"+o+"-after-"+prev] = true
			}
			delete(s.open, e.sub)
		}
		s.last[e.sub] = e.label
		s.lastIn[e.sub] = e.label == "CLOSED" && e.origin == "inner"
	}
}

// check compares the exported values with what both sides of the middleware recorded.
// It is only called at a quiescent point.
func (g *c19Group) check(final bool) {
	rep := g.rep
	snap, err := c19Gather(g.reg)
	if err != nil {
		g.violate("exported/gather-error", "Registry.Gather failed: "+err.Error(), nil)
		return
	}
	g.feat = map[string]bool{}
	live, open, amb := 0, 0, 0
	cutInflight := 0
	var keep []*c19Sess
	var sessWit []map[string]any
	for _, s := range g.active {
		s.mu.Lock()
		s.applyLocked()
		for d := 0; d < 2; d++ {
			ents := s.ent[d]
			for i := s.foldIdx[d]; i < len(ents); i++ {
				e := ents[i]
				for _, k := range c19CounterKeys(e) {
					if e.status == c19Handed {
						g.hi[k]++
					} else if e.seenAt != 0 {
						g.hi[k]++ // cannot happen (observed but not handed); keeps lo <= hi
					}
					if e.seenAt != 0 {
						g.lo[k]++
					}
				}
				if e.status == c19Handed && e.seenAt == 0 {
					cutInflight++
				}
				if e.seenAt != 0 {
					rep.Count("passed:"+c19DirName[d]+":"+e.label, 1)
					if e.samePtr {
						rep.Count("passed_same_pointer", 1)
					}
				}
				if e.origin == "inner" {
					rep.Count("inner_middleware_CLOSED", 1)
				}
			}
			s.foldIdx[d] = len(ents)
		}
		if s.returned {
			if len(s.open) > 0 {
				g.feat["end-with-open-subs"] = true
				rep.Count("sessions_ended_with_open_subscriptions", 1)
			}
			for id, l := range s.last {
				if l == "CLOSED" {
					g.feat["end-after-CLOSED"] = true
					if s.lastIn[id] {
						g.feat["end-after-inner-CLOSED"] = true
					}
				}
			}
			rep.Count("sessions_ended:"+s.endKind, 1)
			if !s.started {
				rep.Count("sessions_ended_before_handler_entry", 1)
			}
		} else {
			live++
			open += len(s.open)
			amb += len(s.maybe)
			keep = append(keep, s)
			if len(sessWit) < 12 {
				sessWit = append(sessWit, s.traceLocked(25))
			}
		}
		s.mu.Unlock()
	}
	g.active = keep
	rep.Count("cut_sessions_messages_taken_not_forwarded", int64(cutInflight))

	witness := func() map[string]any {
		exp := map[string]any{"connection_count": live, "req_count": open}
		if amb > 0 {
			exp["req_count_max"] = open + amb
		}
		lo, hi := map[string]int64{}, map[string]int64{}
		for k, v := range g.hi {
			hi[k] = v
			lo[k] = g.lo[k]
		}
		exp["counters_observed_far_side"] = lo
		exp["counters_handed_in"] = hi
		return map[string]any{"expected": exp, "exported_gauges": snap.gauges, "exported_counters": snap.counters, "live_sessions": sessWit, "final": final}
	}
	at := ""
	if final {
		at = "-at-end"
	}
	for _, gc := range []struct {
		name, short string
		want, max   int
	}{{"mocrelay_connection_count", "connection_count", live, live}, {"mocrelay_req_count", "req_count", open, open + amb}} {
		v, ok := snap.gauges[gc.name]
		if !ok {
			g.violate("exported/missing/"+gc.short, gc.name+" is not exported by the registry", witness())
			return
		}
		if v < float64(gc.want) || v > float64(gc.max) {
			dirn := "too-high"
			if v < float64(gc.want) {
				dirn = "too-low"
			}
			real := strconv.Itoa(gc.want)
			if gc.max != gc.want {
				real = fmt.Sprintf("%d..%d (%d subscription(s) hit by an unordered REQ || CLOSED)", gc.want, gc.max, gc.max-gc.want)
			}
			g.violate("gauge/"+gc.short+"/"+dirn+at,
				fmt.Sprintf("%s = %v at a quiescent point, reality = %s (live sessions %d, open subscriptions %d)", gc.name, v, real, live, open), witness())
			return
		}
	}
	keys := map[string]bool{}
	for k := range g.hi {
		keys[k] = true
	}
	for k := range snap.counters {
		keys[k] = true
	}
	for k := range keys {
		v := snap.counters[k]
		lo, hi := g.lo[k], g.hi[k]
		fam := k[:strings.IndexByte(k, '|')]
		switch {
		case hi == 0 && v != 0:
			g.violate("counter/"+fam+"/unexpected-label", fmt.Sprintf("%s = %v but no such message crossed the middleware", k, v), witness())
			return
		case v < float64(lo):
			g.violate("counter/"+fam+"/too-low", fmt.Sprintf("%s = %v, %d such messages crossed the middleware", k, v, lo), witness())
			return
		case v > float64(hi):
			g.violate("counter/"+fam+"/too-high", fmt.Sprintf("%s = %v, only %d such messages were handed to the middleware", k, v, hi), witness())
			return
		}
	}

	// evidence
	rep.Eval(1)
	rep.Count("quiescent_points", 1)
	rep.Count("quiescent_points:"+g.profile, 1)
	if live > 0 {
		rep.Count("quiescent_points_with_live_sessions", 1)
	}
	if open > 0 {
		rep.Count("quiescent_points_with_open_subscriptions", 1)
	}
	if amb > 0 {
		rep.Count("quiescent_points_with_ambiguous_subscription", 1)
	}
	var fl []string
	for f := range g.feat {
		fl = append(fl, f)
		rep.Count("feature:"+f, 1)
	}
	sort.Strings(fl)
	if live > 0 || len(fl) > 0 {
		rep.Nontrivial(fmt.Sprintf("%s|live=%d|open=%d|%s", g.profile, live, open, strings.Join(fl, ",")))
	}
	rep.Seen("live_session_counts", strconv.Itoa(live))
	rep.Seen("open_subscription_counts", strconv.Itoa(open))
	for k := range g.hi {
		if strings.HasPrefix(k, "recv_event_total|") {
			rep.Seen("event_kinds", k[len("recv_event_total|"):])
		}
	}
	if final {
		rep.Count("groups_ended_with_zero_gauges", 1)
	}
	if g.round.Load() == 2 && ((g.profile == "burst" && g.gi == 0 && live > 0) || ((g.profile == "churn" || g.profile == "racing") && g.gi == 0) || ((g.profile == "mixed" || g.profile == "maxsubs") && g.gi < 2)) {
		rep.Sample(map[string]any{"profile": g.profile, "group": g.gi, "round": g.round.Load(), "live_sessions": live, "open_subscriptions": open,
			"features_this_round": fl, "exported_gauges": snap.gauges, "exported_counters": snap.counters})
	}
}

// ---------------------------------------------------------------------------
// group drivers

func c19NewGroup(rep *vk.Report, profile string, gi int, r *rand.Rand) *c19Group {
	g := &c19Group{rep: rep, profile: profile, gi: gi, abort: make(chan struct{}), lo: map[string]int64{}, hi: map[string]int64{}, feat: map[string]bool{}}
	g.reg = prom.NewRegistry()
	n := 2 + r.IntN(3)
	if r.IntN(5) == 0 { // many subscriptions open at once in one session
		n = 8 + r.IntN(4)
	}
	perm := r.Perm(len(c19SubPool))
	for _, i := range perm[:n] {
		g.subIDs = append(g.subIDs, c19SubPool[i])
	}
	if r.IntN(5) == 0 { // both long ids in one group
		g.subIDs = append(g.subIDs[:1], strings.Repeat("s", 64)+"-one", strings.Repeat("s", 64)+"-two")
	}
	g.desc = map[string]any{"profile": profile, "rng_stream": "C19/" + profile, "case_index": gi, "seed": vk.Seed(), "subscription_ids": g.subIDs}
	if profile == "maxsubs" {
		k := 1 + r.IntN(3)
		g.desc["max_subscriptions"] = k
		g.inner = mocrelay.NewMaxSubscriptionsMiddleware(k)(c19Sink())
	}
	g.h = NewPrometheusMiddleware(g.reg)(g.boundary())
	return g
}

func (g *c19Group) finish() {
	// make sure nothing keeps running, whatever happened
	for _, s := range g.all {
		s.initEnd("cleanup")
		s.cancel()
	}
	if g.aborted() && !g.violated.Load() {
		var st []map[string]any
		for _, s := range g.active {
			s.mu.Lock()
			if len(st) < 4 && !s.quietLocked() {
				st = append(st, s.traceLocked(8))
			}
			s.mu.Unlock()
		}
		g.rep.Inconclusive(fmt.Sprintf("[%s group %d round %d] %s; sessions not quiet: %s", g.profile, g.gi, g.round.Load(), g.abortWhy, vk.JSON(st)))
	}
	t := time.NewTimer(c19RoundBound)
	defer t.Stop()
	for _, s := range g.all {
		s.mu.Lock()
		called := s.called
		s.mu.Unlock()
		if !called {
			continue
		}
		select {
		case <-s.returnedCh:
		case <-t.C:
			g.rep.Inconclusive(fmt.Sprintf("[%s group %d] session %d did not return after cancellation", g.profile, g.gi, s.idx))
			return
		}
	}
}

// mixed / maxsubs: 1-8 sessions, 3-10 rounds, then everything ends at once.
func c19RunScripted(rep *vk.Report, profile string, gi int) {
	r := vk.RNG("C19/"+profile, gi)
	g := c19NewGroup(rep, profile, gi, r)
	defer g.finish()
	tab := c19Mix
	if profile == "maxsubs" || r.IntN(3) == 0 {
		tab = c19SubHeavy
	}
	g.check(false) // before any session: all zero
	rounds := 3 + r.IntN(8)
	var live []*c19Sess
	for round := 1; round <= rounds+1 && !g.aborted(); round++ {
		g.round.Store(int64(round))
		final := round == rounds+1
		var plans []c19SessPlan
		nStart := 0
		if round == 1 {
			nStart = 1 + r.IntN(8)
		} else if !final && len(live) < 8 && r.IntN(10) < 4 {
			nStart = 1 + r.IntN(2)
		}
		started := map[*c19Sess]bool{}
		for i := 0; i < nStart; i++ {
			s := g.newSession()
			live = append(live, s)
			started[s] = true
		}
		var next []*c19Sess
		for _, s := range live {
			end := ""
			if final || r.IntN(100) < 15 {
				end = c19EndKind(r)
			}
			nOps := r.IntN(9)
			if final {
				nOps = r.IntN(4)
			}
			plans = append(plans, c19SessPlan{s: s, start: started[s], lists: g.planSession(r, nOps, end, tab)})
			if end == "" {
				next = append(next, s)
			}
		}
		live = next
		g.runRound(plans, final)
	}
}

// churn: one registry, many rounds in which several sessions start and several end at
// the same moment, some of them with subscriptions still open.
func c19RunChurn(rep *vk.Report, gi, rounds int) {
	r := vk.RNG("C19/churn", gi)
	g := c19NewGroup(rep, "churn", gi, r)
	defer g.finish()
	var live []*c19Sess
	for round := 1; round <= rounds+1 && !g.aborted(); round++ {
		g.round.Store(int64(round))
		final := round == rounds+1
		var plans []c19SessPlan
		// who ends
		nEnd := r.IntN(9)
		if nEnd > len(live) || final {
			nEnd = len(live)
		}
		r.Shuffle(len(live), func(i, j int) { live[i], live[j] = live[j], live[i] })
		var next []*c19Sess
		for i, s := range live {
			switch {
			case i < nEnd:
				plans = append(plans, c19SessPlan{s: s, lists: g.planSession(r, r.IntN(3), c19EndKind(r), c19SubHeavy)})
			case r.IntN(100) < 15:
				plans = append(plans, c19SessPlan{s: s, lists: g.planSession(r, 1+r.IntN(3), "", c19SubHeavy)})
				next = append(next, s)
			default:
				next = append(next, s)
			}
		}
		live = next
		// who starts
		nStart := 0
		if !final {
			nStart = r.IntN(9)
			if len(live)+nStart > 24 {
				nStart = 24 - len(live)
			}
		}
		for i := 0; i < nStart; i++ {
			s := g.newSession()
			end := ""
			if r.IntN(100) < 12 { // starts and ends in the same round
				end = c19EndKind(r)
			}
			plans = append(plans, c19SessPlan{s: s, start: true, lists: g.planSession(r, r.IntN(4), end, c19SubHeavy)})
			if end == "" {
				live = append(live, s)
			}
		}
		if nStart > 1 && nEnd > 1 {
			rep.Count("rounds_with_simultaneous_starts_and_ends", 1)
		}
		g.runRound(plans, final)
	}
}

// burst: nothing but 2-4 sessions entering the middleware at the same instant, a
// comparison, the same sessions leaving at the same instant, a comparison.
func c19RunBurst(rep *vk.Report, gi, rounds int) {
	r := vk.RNG("C19/burst", gi)
	g := c19NewGroup(rep, "burst", gi, r)
	defer g.finish()
	var keepers []*c19Sess // a few sessions that stay, so the gauge is not always 0 / k
	for round := 1; round <= rounds && !g.aborted(); round++ {
		g.round.Store(int64(round))
		k := 2 + r.IntN(3)
		var plans []c19SessPlan
		var batch []*c19Sess
		for i := 0; i < k; i++ {
			s := g.newSession()
			batch = append(batch, s)
			plans = append(plans, c19SessPlan{s: s, start: true})
		}
		g.runRound(plans, false)
		rep.Count("burst_simultaneous_starts", 1)
		if g.aborted() {
			return
		}
		plans = nil
		if len(keepers) < 3 && r.IntN(8) == 0 {
			keepers = append(keepers, batch[0])
			batch = batch[1:]
		} else if len(keepers) > 0 && r.IntN(8) == 0 {
			batch = append(batch, keepers[0])
			keepers = keepers[1:]
		}
		last := round == rounds
		if last {
			batch = append(batch, keepers...)
		}
		for _, s := range batch {
			plans = append(plans, c19SessPlan{s: s, lists: g.planSession(r, 0, c19EndKind(r), c19Mix)})
		}
		g.runRound(plans, last)
		rep.Count("burst_simultaneous_ends", 1)
	}
}

// racing: for a subscription of a long-lived session the client's CLOSE and the
// handler's CLOSED (or the client's REQ and the handler's CLOSED, or the client's CLOSE
// and the end of the session) are released by the spin barrier at the same instant.
// CLOSE || CLOSED ends the subscription exactly once whichever comes first, so the
// expectation stays exact; REQ || CLOSED leaves "open or ended" (a range of one) until
// the next chained CLOSE settles it.
func c19RunRacing(rep *vk.Report, gi, rounds int) {
	r := vk.RNG("C19/racing", gi)
	g := c19NewGroup(rep, "racing", gi, r)
	defer g.finish()
	type slot struct {
		s   *c19Sess
		sub string
	}
	slots := make([]slot, 1+r.IntN(3))
	tag := 0
	mk := func(sl slot, dir int, label string) *c19Op {
		op := &c19Op{dir: dir, what: label, sub: sl.sub, gaugeRel: true, done: make(chan struct{})}
		if dir == c19Cli {
			op.msg = g.clientMsg(r, label, sl.sub)
		} else {
			op.msg = g.serverMsg(r, label, sl.sub)
		}
		return op
	}
	racer := func(sl slot, op *c19Op) *c19Op {
		op.race = tag
		op.waitSeen = true
		if op.msg != nil {
			sl.s.mu.Lock()
			sl.s.raceTag[op.msg] = tag
			sl.s.mu.Unlock()
		}
		return op
	}
	after := func(op, a, b *c19Op) *c19Op {
		op.dep, op.dep2 = a, b
		op.waitSeen = true
		return op
	}
	for round := 1; round <= rounds+1 && !g.aborted(); round++ {
		g.round.Store(int64(round))
		final := round == rounds+1
		var plans []c19SessPlan
		for i := range slots {
			sl := slots[i]
			if sl.s == nil {
				if final {
					continue
				}
				sl = slot{g.newSession(), vk.Pick(r, g.subIDs)}
				slots[i] = sl
				plans = append(plans, c19SessPlan{s: sl.s, start: true, lists: [2][]*c19Op{{mk(sl, c19Cli, "REQ")}, nil}})
				continue
			}
			if final {
				plans = append(plans, c19SessPlan{s: sl.s, lists: g.planSession(r, 0, c19EndKind(r), c19Mix)})
				continue
			}
			tag++
			p := c19SessPlan{s: sl.s}
			// seeded skew between the two racers: 0..~1 microsecond on one side
			p.skew[(round/24)%2] = (round % 24) * 3
			switch k := r.IntN(100); {
			case k < 72: // CLOSE || CLOSED
				a, b := racer(sl, mk(sl, c19Cli, "CLOSE")), racer(sl, mk(sl, c19Srv, "CLOSED"))
				p.lists[c19Cli] = []*c19Op{a}
				p.lists[c19Srv] = []*c19Op{b}
				if r.IntN(10) < 9 {
					p.lists[c19Cli] = append(p.lists[c19Cli], after(mk(sl, c19Cli, "REQ"), a, b))
				}
				rep.Count("racing_rounds:CLOSE||CLOSED", 1)
			case k < 86: // REQ || CLOSED
				a, b := racer(sl, mk(sl, c19Cli, "REQ")), racer(sl, mk(sl, c19Srv, "CLOSED"))
				p.lists[c19Cli] = []*c19Op{a}
				p.lists[c19Srv] = []*c19Op{b}
				if r.IntN(10) < 7 {
					c := after(mk(sl, c19Cli, "CLOSE"), a, b)
					p.lists[c19Cli] = append(p.lists[c19Cli], c, after(mk(sl, c19Cli, "REQ"), c, nil))
				}
				rep.Count("racing_rounds:REQ||CLOSED", 1)
			default: // CLOSE || end of the session
				a := racer(sl, mk(sl, c19Cli, "CLOSE"))
				e := &c19Op{dir: c19Srv, what: vk.Pick(r, []string{"cancel", "return"}), race: tag, done: make(chan struct{})}
				p.lists[c19Cli] = []*c19Op{a}
				p.lists[c19Srv] = []*c19Op{e}
				slots[i].s = nil
				rep.Count("racing_rounds:CLOSE||end", 1)
			}
			plans = append(plans, p)
		}
		g.runRound(plans, final)
	}
}

func TestVerif_C19(t *testing.T) {
	rep := vk.NewReport(t, "C19", "exploration")
	rep.Rule = "(relay) 2-5 WebSocket clients with identical upgrade-request headers on one Relay in front of the middleware, 6-19 acknowledged REQ/CLOSE steps, gauges compared after every step and after all have left; a group = one fresh registry + NewPrometheusMiddleware over the monitor's boundary handler; profiles: mixed (1-8 sessions, 3-10 rounds of 0-8 seeded operations per session: REQ/CLOSE/EVENT/COUNT/AUTH from the client, EOSE/EVENT/NOTICE/OK/AUTH/COUNT/CLOSED from the handler, 2-4 subscription ids shared by all sessions, sessions ended by cancel / inbound close / handler return at a seeded position), maxsubs (same, with a real NewMaxSubscriptionsMiddleware(1..3) below the boundary producing CLOSED), churn (150/400 rounds on one registry, 0-8 sessions starting and 0-8 ending simultaneously, REQ-heavy), burst (250/1000 rounds of 2-4 sessions released by a spin barrier into the middleware at the same instant, compared, then ended at the same instant, compared; no messages), racing (500/3000 rounds on 1-3 long-lived sessions: the client's CLOSE and the handler's CLOSED for the same open subscription - or REQ and CLOSED, or CLOSE and the session's end - are released by the spin barrier at the same instant with a seeded skew; the chain continues only after both were observed on their far sides). All operations of a round run concurrently; REQ/CLOSE/CLOSED of the same (session, id) are causally chained except for the racing pairs, whose two members are applied to the model together (CLOSE || CLOSED: ended once; REQ || CLOSED: open-or-ended, gauge accepted in a range of one until settled). One evaluation = one quiescent point at which Gather() is compared with both sides' records; added later: compositions in which one instance serves two sessions of one connection (merge children, the instance twice in a stack, below another instance), compared after every acknowledged step; 6000/40 000 EVENTs of pairwise distinct kinds through one instance; non-trivial = live sessions or a subscription-set transition in the round; distinct = (profile, live sessions, open subscriptions, set of transition classes of the round)"
	rep.Assume("counter values of a session that was cut while a message was between the two sides are accepted anywhere between 'observed on the far side' and 'taken by the middleware'")
	rep.Assume("unknown message types (label UNDEFINED) and typed-nil messages are not generated; mocrelay_req_response_seconds is not judged")
	defer rep.Finish()

	// phase 0: the production path - sessions that come in through a Relay over WebSocket, from
	// clients whose upgrade requests carry the very same headers (proxy ids, user agent)
	nRelay := vk.N(4, 30)
	vk.ParallelW(4, nRelay, func(i int) {
		c19ThroughRelay(rep, i)
	})
	rep.Require(rep.Counter("relay_sessions") >= int64(nRelay*2), "sessions through a relay")

	// phase 0b: one instance serving several sessions of one connection (merge children, the
	// instance stacked twice, below another instance), and one instance seeing thousands of kinds
	nComp := vk.N(120, 1600)
	vk.ParallelW(8, nComp, func(i int) {
		if rep.Violations() < 6 {
			c19Compositions(rep, i)
		}
	})
	c19ManyKinds(rep)
	if rep.Violations() == 0 {
		rep.Require(rep.Counter("composition_sessions") >= int64(nComp*9/10), "composition sessions")
		rep.Require(rep.Counter("distinct_kinds_through_one_instance") >= 4000, "many-kinds scenario")
	}

	// phase 1: bursts, few groups at a time so that the spinning goroutines own their CPUs
	nBurst := vk.N(20, 96)
	burstRounds := vk.N(250, 1000)
	bw := runtime.GOMAXPROCS(0) / 4
	vk.ParallelW(bw, nBurst, func(i int) {
		if rep.Violations() >= 6 {
			return
		}
		c19RunBurst(rep, i, burstRounds)
		rep.Count("groups", 1)
	})

	// phase 2: racing pairs, again with few groups at a time
	nRacing := vk.N(20, 64)
	racingRounds := vk.N(500, 3000)
	vk.ParallelW(runtime.GOMAXPROCS(0)/5, nRacing, func(i int) {
		if rep.Violations() >= 6 {
			return
		}
		c19RunRacing(rep, i, racingRounds)
		rep.Count("groups", 1)
	})

	nChurn := vk.N(8, 48)
	churnRounds := vk.N(150, 400)
	nMixed := vk.N(500, 9000)
	nMax := vk.N(300, 5000)
	total := nChurn + nMixed + nMax
	vk.Parallel(total, func(i int) {
		if rep.Violations() >= 6 {
			return
		}
		switch {
		case i < nChurn:
			c19RunChurn(rep, i, churnRounds)
		case i < nChurn+nMixed:
			c19RunScripted(rep, "mixed", i-nChurn)
		default:
			c19RunScripted(rep, "maxsubs", i-nChurn-nMixed)
		}
		rep.Count("groups", 1)
	})

	if rep.Violations() > 0 {
		return // the run was cut short on purpose; the gates below would only add noise
	}
	total += nBurst + nRacing
	rep.Require(rep.Counter("quiescent_points:racing") >= int64(nRacing*racingRounds), "racing rounds did not all reach quiescence")
	rep.Require(rep.Counter("racing_rounds:CLOSE||CLOSED") >= int64(nRacing*racingRounds/2), "too few CLOSE || CLOSED racing rounds")
	for _, f := range []string{"race-CLOSE||CLOSED-on-open", "race-CLOSE||CLOSED-on-ended", "race-CLOSE||CLOSED-on-ambiguous", "race-REQ||CLOSED-on-open", "race-REQ||CLOSED-on-ended"} {
		rep.Require(rep.Counter("feature:"+f) >= 20, "racing pair "+f+" seen in fewer than 20 rounds")
	}
	for _, o := range []string{"CLOSE||CLOSED:CLOSE", "CLOSE||CLOSED:CLOSED"} {
		rep.Require(rep.Counter("race_first_on_far_side:"+o) >= 50, "racing pairs came out in one order only ("+o+" first fewer than 50 times)")
	}
	qp := rep.Counter("quiescent_points")
	rep.Require(qp >= int64(total*3), "too few quiescent points")
	rep.Require(rep.Counter("burst_simultaneous_starts") >= int64(nBurst*burstRounds) && rep.Counter("burst_simultaneous_ends") >= int64(nBurst*burstRounds), "burst rounds did not all run")
	rep.Require(rep.Counter("quiescent_points:churn") >= int64(nChurn*churnRounds), "churn rounds did not all reach quiescence")
	rep.Require(rep.Counter("rounds_with_simultaneous_starts_and_ends") >= int64(nChurn*churnRounds/4), "too few rounds with simultaneous session starts and ends")
	rep.Require(rep.Counter("groups_ended_with_zero_gauges") >= int64(total*9/10), "too few groups reached their final all-ended comparison")
	for _, f := range []string{"REQ-fresh", "REQ-while-open", "REQ-after-CLOSE", "REQ-after-CLOSED", "CLOSE-open", "CLOSE-never-opened", "CLOSE-late-after-CLOSE", "CLOSE-late-after-CLOSED",
		"CLOSED-scripted-open", "CLOSED-scripted-never-opened", "CLOSED-scripted-after-CLOSE", "CLOSED-scripted-after-CLOSED", "CLOSED-inner-open", "end-with-open-subs",
		"REQ-after-inner-CLOSED", "CLOSE-after-inner-CLOSED", "end-after-CLOSED", "end-after-inner-CLOSED"} {
		rep.Require(rep.Counter("feature:"+f) >= 20, "subscription-set transition "+f+" seen in fewer than 20 rounds")
	}
	for _, l := range []string{"client:EVENT", "client:REQ", "client:CLOSE", "client:AUTH", "client:COUNT",
		"server:EOSE", "server:EVENT", "server:NOTICE", "server:OK", "server:AUTH", "server:COUNT", "server:CLOSED"} {
		rep.Require(rep.Counter("passed:"+l) >= 100, "fewer than 100 "+l+" messages crossed the middleware")
	}
	for _, k := range []string{"cancel", "closeRecv", "return"} {
		rep.Require(rep.Counter("sessions_ended:"+k) >= 50, "fewer than 50 sessions ended by "+k)
	}
	rep.Require(rep.Counter("sessions_ended_with_open_subscriptions") >= 100, "too few sessions ended with open subscriptions")
	rep.Require(rep.Counter("inner_middleware_CLOSED") >= 100, "too few CLOSED messages from the real MaxSubscriptions middleware")
	rep.Require(rep.SetSize("event_kinds") >= 8, "too few event kinds")
	rep.Require(rep.SetSize("live_session_counts") >= 10, "too few distinct live-session counts")
}

// c19ThroughRelay: 2-5 WebSocket clients with identical request headers on one Relay whose
// handler is Prometheus(sink); each opens and closes subscriptions (every step acknowledged by the
// sink: EOSE for a REQ, COUNT for the COUNT that follows a CLOSE); at the quiescent points the
// gauges must equal the number of connected clients and of subscriptions opened and not closed.
func c19ThroughRelay(rep *vk.Report, i int) {
	r := vk.RNG("C19/relay", i)
	reg := prom.NewRegistry()
	sink := mocrelay.HandlerFunc(func(ctx context.Context, send chan<- mocrelay.ServerMsg, recv <-chan mocrelay.ClientMsg) error {
		for {
			select {
			case <-ctx.Done():
				return ctx.Err()
			case m, ok := <-recv:
				if !ok {
					return mocrelay.ErrRecvClosed
				}
				var reply mocrelay.ServerMsg
				switch m := m.(type) {
				case *mocrelay.ClientReqMsg:
					reply = mocrelay.NewServerEOSEMsg(m.SubscriptionID)
				case *mocrelay.ClientCountMsg:
					reply = mocrelay.NewServerCountMsg(m.SubscriptionID, 0, nil)
				default:
					continue
				}
				select {
				case send <- reply:
				case <-ctx.Done():
					return ctx.Err()
				}
			}
		}
	})
	opt := mocrelay.NewDefaultRelayOption()
	opt.RecvRateLimitRate, opt.RecvRateLimitBurst, opt.PingDuration = 1e9, 1<<30, 0
	srv := httptest.NewServer(mocrelay.NewRelay(NewPrometheusMiddleware(reg)(sink), opt))
	defer srv.Close()
	hdr := http.Header{"X-Request-Id": {"req-" + strconv.Itoa(i)}, "X-Forwarded-For": {"203.0.113.7"}, "User-Agent": {"c19"}, "X-Correlation-Id": {"same"}, "Traceparent": {"00-0af7651916cd43dd8448eb211c80319c-b7ad6b7169203331-01"}}
	nClients := 2 + r.IntN(4)
	ctx, cancel := context.WithTimeout(context.Background(), 3*vk.WaitBound)
	defer cancel()
	conns := make([]*websocket.Conn, nClients)
	for c := range conns {
		conn, _, err := websocket.Dial(ctx, "ws"+strings.TrimPrefix(srv.URL, "http"), &websocket.DialOptions{HTTPHeader: hdr})
		if err != nil {
			rep.Inconclusive("C19: relay phase: dial failed: " + err.Error())
			return
		}
		defer conn.CloseNow()
		conns[c] = conn
	}
	roundTrip := func(c int, msg string, wantLabel string) bool {
		if conns[c].Write(ctx, websocket.MessageText, []byte(msg)) != nil {
			return false
		}
		for {
			_, data, err := conns[c].Read(ctx)
			if err != nil {
				return false
			}
			if strings.HasPrefix(string(data), `["`+wantLabel+`"`) {
				return true
			}
		}
	}
	open := make([]map[string]bool, nClients)
	for c := range open {
		open[c] = map[string]bool{}
	}
	compare := func(stage string, wantConn int) bool {
		wantSubs := 0
		for _, o := range open {
			wantSubs += len(o)
		}
		var snap c19Snap
		deadline := time.Now().Add(vk.WaitBound / 4)
		for {
			snap, _ = c19Gather(reg)
			if int(snap.gauges["mocrelay_connection_count"]) == wantConn && int(snap.gauges["mocrelay_req_count"]) == wantSubs {
				rep.Eval(1)
				return true
			}
			if time.Now().After(deadline) {
				break // every step was acknowledged long ago: the gauges were due
			}
			time.Sleep(time.Millisecond)
		}
		rep.Eval(1)
		rep.Violation("gauge/through-relay", fmt.Sprintf("%s: %d clients with identical request headers on one relay, %d subscriptions opened and not closed; exported: connection gauge %v, subscription gauge %v", stage, wantConn, wantSubs, snap.gauges["mocrelay_connection_count"], snap.gauges["mocrelay_req_count"]),
			map[string]any{"clients": nClients, "request_headers": hdr, "open_subscriptions_per_client": open})
		return false
	}
	for step, n := 0, 6+r.IntN(14); step < n; step++ {
		c := r.IntN(nClients)
		sub := fmt.Sprintf("s%d", r.IntN(4))
		if open[c][sub] && r.IntN(2) == 0 {
			if conns[c].Write(ctx, websocket.MessageText, []byte(`["CLOSE","`+sub+`"]`)) != nil || !roundTrip(c, `["COUNT","barrier",{}]`, "COUNT") {
				rep.Inconclusive("C19: relay phase: a client lost its connection")
				return
			}
			delete(open[c], sub)
		} else {
			if !roundTrip(c, `["REQ","`+sub+`",{}]`, "EOSE") {
				rep.Inconclusive("C19: relay phase: a client lost its connection")
				return
			}
			open[c][sub] = true
		}
		if !compare(fmt.Sprintf("after step %d", step), nClients) {
			return
		}
	}
	for c := range conns {
		conns[c].Close(websocket.StatusNormalClosure, "")
		open[c] = map[string]bool{}
	}
	if compare("after all clients have left", 0) {
		rep.Count("relay_sessions", int64(nClients))
		rep.Nontrivial(fmt.Sprintf("relay/%d/%d", i, nClients))
	}
}
