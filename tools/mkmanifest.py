#!/usr/bin/env python3
"""Regenerates /verif/MANIFEST.json from the table below (kept in one place so the
manifest stays valid while checks are added)."""
import json
import os

V = os.path.dirname(os.path.dirname(os.path.abspath(__file__)))

# id -> (category, technique, text, note, design_ref)
CHECKS = {}


def add(pid, cat, technique, text, note, ref):
    CHECKS[pid] = (cat, technique, text, note, ref)


RACE = " The whole run is under the Go race detector (reports in mocrelay frames are violations)."

add("C02", "exploration",
    "runtime monitoring: reference-predicate oracle over seeded (event, filter) pairs and limit-matcher traces, race detector",
    "Every generated (event, filter) pair and every prefix of every event sequence fed to the limit-counting matcher is judged by an independent transliteration of the NIP-01 predicate and shadow counters (boundary timestamps, look-alike values, shared limit variables, matchers shared by four goroutines); held on the executions listed in the evidence (truth-table coverage reported), not a proof." + RACE,
    "Trusts the hand-written reference predicate (kit/refmatch.go) and the seeded generator's reach; filters are built as values, not parsed.",
    "DESIGN.md section 4, C02")

add("C01", "exploration",
    "runtime monitoring: reference-model oracle (independent NIP-01 canonicaliser + SHA-256 + independent BIP-340 verifier) over freshly signed hostile events, a tamper catalogue, a full BMP code-point sweep and wrong-canonicalisation forgeries; race detector/checkptr",
    "Every generated event is signed with a real key and must be reported authentic; every alteration from a 27-entry catalogue (incl. malformed hex, cut or padded 00 bytes, respelled pubkeys) and every forgery over a non-canonical serialisation must be reported not authentic; Serialize must equal the reference canonical bytes; 1300/4200 distinct authors per process are re-checked afterwards. Held on the events listed in the evidence (all BMP scalars swept each run), not a proof." + RACE,
    "Trusts kit/canon.go and kit/bip340.go (self-tested on the official BIP-340 vectors at start-up; cross-checks every signed event and 1/8 of the alterations in the thorough tier, 1/16 of the events in quick) and btcec for *signing* only. The gate behind Relay.ServeHTTP is exercised end to end with EVENT-only WebSocket connections (and more broadly by C12).",
    "DESIGN.md section 4, C01")

add("C03", "exploration",
    "runtime monitoring: query-specification oracle (tie-aware, with b-matching for limit cuts) over the observed retained set after every step of seeded insertion histories; access-path-flipped re-queries; race detector",
    "After every insertion of every generated history the match-everything listing is taken as the specification state and a panel of filter lists is answered by the real store; each answer must be an allowed answer (order, no duplicates, exactly the limit newest per filter, merged). Each list is re-asked in a form that forces the other access path. Held on the histories/queries counted in the evidence." + RACE,
    "Trusts kit/storespec.go CheckQuery and kit/refmatch.go; filters are built as values (non-nil empty tag maps, which the wire format cannot express, are not generated).",
    "DESIGN.md section 4, C03")

add("C04", "exploration",
    "runtime monitoring: step-wise refinement of observed (state, Add, flag, state') transitions against the retention transition relation, plus invariants; race detector",
    "Every step of every generated history is judged: the observed transition must be one the retention/deletion specification allows (sets of allowed successors at ties and evictions), and the global invariants (capacity, distinct ids, one version per address, no ephemeral event served, Len) must hold after it. Held on the steps counted per transition class in the evidence." + RACE,
    "Trusts kit/storespec.go CheckCacheStep; addressable events without a d tag are judged only loosely (C05); self-referencing deletion requests are not constructible with real ids (C05 builds them with made-up ids and leaves open whether the request itself stays).",
    "DESIGN.md section 4, C04")

add("C05", "exploration",
    "runtime monitoring: the C04 refinement engine driven by a multi-author, deletion-heavy generator with author-isolation classification; race detector",
    "Histories of 2-4 authors with deletion requests in every arrival order; every step is judged by the retention relation and reported when it breaks a clause C05 states (a removal must be explained by the inserting author's own events or by eviction; what a request names goes and stays out while the request is retained, and no longer; requests are kept and served like regular events; removed events are gone for queries by id, author and tag too); steps that break only C04's clauses are counted and left to C04. Held on the steps counted in the evidence." + RACE,
    "Same trusted base as C04; a-tag references are exercised on addressable kinds only (as the property's quantifier says).",
    "DESIGN.md section 4, C05")

add("C06", "exploration",
    "runtime monitoring: executable model of the stored-and-live set + query-specification oracle over seeded batch histories against the generated SQL on real SQLite; race detector",
    "Every batch of every generated history is inserted with insertEvents into a real (in-memory) SQLite database and a filter panel is answered by queryEvent after each batch; every answer must be an allowed answer over the model's live set with all seven fields identical to what was inserted. Held on the histories/queries counted in the evidence." + RACE,
    "Trusts kit/sqlmodel.go and kit/storespec.go; 64-bit key collisions are detected and such histories discarded; sub-cases the statement leaves open (equal created_at on one address, d-less addressable events, a-tags naming plain replaceable kinds, an empty filter list) are not generated.",
    "DESIGN.md section 4, C06")

add("C14", "fault_enumeration",
    "runtime monitoring with fault injection: a database/sql driver wrapper numbers the driver calls of a batch and fails, cancels or kills the process at every call index; model comparison after every attempt, retry, repetition and reopen; race detector",
    "For the chosen batch of each history every driver call (begin, each prepare, every statement exec, commit) is faulted in turn with an injected error and with a context cancellation, and sampled (thorough: all) calls with a process kill in a child process; after each faulted attempt, each retry, the final success, two repetitions and every close/reopen the query panel must equal the model (failed = no-op, returned nil = applied once); 500-700-event batches get faults at sampled late calls; plain histories also run in child processes whose pwrite64/fsync/fdatasync calls are failed by strace; handler-level restarts (history through one SQLiteHandler, stop, close, reopen, new handler) must answer a REQ panel as before and as the model says. Exhaustive over call indexes per enumerated batch; histories are sampled." + RACE,
    "Trusts the fault driver wrapper (kit/faultsql, forwards every optional interface go-sqlite3 implements) and the SQLite model; faults inside SQLite's own I/O layer are not injected; kill = os.Exit in a child, not power loss.",
    "DESIGN.md section 4, C14")

add("C16", "exploration",
    "runtime monitoring: reply-grouping checker over pipelined sessions on CacheHandler/SQLiteHandler, retention and query specification as oracles, dump/restore differential; race detector",
    "Each generated client message sequence runs as one real session; the reply stream must parse into per-request groups in request order (one OK with the id, events+one EOSE with the sub id, one COUNT, nothing for CLOSE/AUTH); cache OK verdicts are judged by the retention specification and REQ answers by the query specification; Dump->Restore into a fresh cache must answer a 41-list panel identically (also for caches holding hundreds of tie-prone events); the SQLite handler must keep accepting while its inserter is stalled. Held on the sequences counted in the evidence." + RACE,
    "Trusts kit/storespec.go, kit/sqlmodel.go; the cache handler's verdict for ephemeral events is not judged (C04 and C16 read differently there); SQLite REQs are issued at quiescence (sentinel row polled).",
    "DESIGN.md section 4, C16")

add("C07", "exploration",
    "runtime monitoring: offline must/must-not/may checker over logical-clock-stamped delivery histories of concurrent router sessions; back-pressure progress check with stack witness; registry conservation; race detector + verifPoint delays",
    "2-8 (one run in ten: 12-24) concurrent scripted connections per run (REQ, re-REQ, CLOSE of open and unknown ids, EVENT, disconnects), every send/receipt stamped on one logical clock; every (subscription instance, publication) pair is classified by real-time order and deliveries must be exactly-once for must, absent for must-not, never duplicated, own sub ids only, in publication order per publisher; back-pressure runs with stalled readers (paced publishers with draining subscribers; unpaced publishers racing for the last slot of a tiny buffer) require publishers to finish and draining subscribers to lose nothing; publishers cancelled during the fan-out of their own EVENT: if the accepting OK still arrived, every old matching subscription must get the event. Held on the runs/pairs counted in the evidence under GOMAXPROCS 16/4/1." + RACE,
    "Schedules are sampled (no controllable scheduler); the lower bound is waived for subscriptions of connections cut during the run; 'never delays publishers' is judged as bounded progress with a parked-goroutine witness.",
    "DESIGN.md section 4, C07")

add("C15", "exploration",
    "runtime monitoring: porcupine linearizability checking of logical-clock-stamped Add/Find/Len histories against the sequential retention/query specification; concurrent invariant probes; Go race detector; verifPoint delays inside critical sections",
    "2-8 goroutines (directly and through concurrent CacheHandler sessions) issue related insertions, queries and listings on one small store; each recorded history must be linearizable w.r.t. the deterministic sequential specification (porcupine; a timeout is inconclusive); a long stress mix checks every concurrent listing against the store invariants; dumps of a 600-900-event cache taken during replacements and deletions must satisfy the invariants and list every pinned address exactly once; the router registry is stressed with concurrent subscribe/close/disconnect/publish; any race report in mocrelay frames is a violation. Held on the histories counted in the evidence." + RACE,
    "Schedules are sampled; histories use pairwise distinct created_at so that the sequential specification is deterministic; the race detector only sees paths the workload drives concurrently.",
    "DESIGN.md section 4, C15")

add("C10", "exploration",
    "runtime monitoring: panic/fatal monitor + completeness and round-trip oracles over a seeded corpus of well-formed values, testdata lines and structural/byte mutants for every decoder entry point; race detector/checkptr",
    "On ~110k (quick) / 1.0M (thorough) seeded inputs - well-formed values of all 14 wire types, testdata lines, structural and byte/token mutants, nesting bombs and 1 MB strings - no decoder entry point may panic, every accepted text must yield non-nil parts of the labelled type whose fields equal an independent encoding/json reading, and decode(encode(v)) and decode(encode(decode(t))) must be identities under the statement's equivalences. Each batch's inputs are on disk before it runs, so a process-fatal crash is attributable." + RACE,
    "Top-level null, JSON null in scalar positions and a COUNT payload without count (Go zero-value convention) are observed and counted but not claimed; encoding/json is the tokenizer of both the reference reading and the code under test.",
    "DESIGN.md section 4, C10")

add("C11", "exploration",
    "runtime monitoring: by-construction labels plus an independent reference validator over generated well-formed texts, a 70-class single-point corruption catalogue and multi-point mixes; end-to-end stream through Relay.ServeHTTP; race detector",
    "Every generated well-formed EVENT/REQ/CLOSE/AUTH/COUNT text (all optional parts, whitespace at every token boundary, d values with ':') must be parsed into the same message and judged valid; every catalogue corruption must be rejected; every value judged valid in any stream must satisfy the statement's constraints (checked on the parsed value by the reference validator); the same verdicts are observed as forwarded-vs-NOTICE over real websocket frames. Held on the ~151k / 2M texts counted in the evidence." + RACE,
    "Sub-cases the statement leaves open (null for an object or sub id, since > until, empty tags or tag names, sub-id length, exponent/odd integer forms, escaped labels, filterless REQ/COUNT, duplicate keys) are exercised and counted but never judged.",
    "DESIGN.md section 4, C11")

add("C17", "exploration",
    "runtime monitoring: per-limit predicate oracle over messages driven through the real concurrent middleware wrapper in front of a recording handler (sentinel-synchronised), stacks in seeded orders, NIP-11-built chains for all 128 limit subsets; race detector",
    "Every client message of ~126k / 1.9M seeded messages sent through mw(recordingHandler).ServeNostr is judged against the statement's predicates: forwarded deep-equal and in order iff it respects every configured limit, otherwise exactly one OK(false,id)/CLOSED(sub id) and nothing forwarded, with all scripted server messages passing unchanged and in order; covers each of the 10 stateless limit middlewares at limit-1/limit/limit+1/far (timestamps from the start to the end of the int64 range, created_at limit value 0 included), stacks of 2-6, and BuildMiddlewareFromNIP11 for all 128 subsets of the seven limits and documents without a limitation block." + RACE,
    "created_at verdicts keep 90 s from the moving boundary; byte-vs-rune length, over-long CLOSE ids and limit-violating AUTH events are not claimed; the position of max_subscriptions in the chain is left open (either order accepted).",
    "DESIGN.md section 4, C17")

add("C18", "exploration",
    "runtime monitoring: per-session shadow models (open set; last-size-distinct-ids window) judging sequential sessions that run concurrently on one shared middleware value; downstream open-count invariant; race detector",
    "3k / 60k groups of 2-6 concurrent sessions on one shared MaxSubscriptions / RecvEventUniqueFilter / SendEventUniqueFilter value (alone and stacked) over 2-6-id alphabets (also look-alike ids), N 1-4 or MaxInt and window sizes 1-4, plus one run of 400k/2M distinct ids through a window of 60000; each sequential session is judged step by step against independent models (forwarded iff open or fewer than N open; in-window ids rejected/suppressed, never-seen ids forwarded/delivered, outside-window either), plus foreign-tag detection and second-wave sessions for isolation; the downstream handler also answers forwarded events with OK true/false, which must not affect the window; every quota boundary cell and window rank is required to have been observed." + RACE,
    "Window sizes <= 4 except for the one large-window run, <= 6 concurrent connections; forwarding of CLOSE itself, server-side CLOSED and message texts other than the duplicate: prefix are not claimed.",
    "DESIGN.md section 4, C18")

add("C19", "exploration",
    "runtime monitoring: transparency check plus conservation of gauges/counters (Registry.Gather) against both-side recordings at quiescent points of multi-session histories incl. simultaneous start/end bursts; race detector",
    "At every quiescent point of every generated multi-session history (mixed scripts, a real MaxSubscriptions inside emitting CLOSED, churn, simultaneous-start/end bursts, client CLOSE racing server CLOSED / session end, and sessions arriving through a Relay from WebSocket clients with identical request headers) the values read through Registry.Gather() must equal what the two sides of the middleware recorded: connection gauge = live sessions, subscription gauge = shadow open sets, per-type/per-kind counters = messages crossed, and every message must come out unaltered and in order. Held on the executions counted in the evidence." + RACE,
    "Trusts the monitor's boundary handler/recorders and the causal chaining of REQ/CLOSE/CLOSED per (session, id); counters of sessions cut with a message in flight are accepted between 'forwarded' and 'taken'; UNDEFINED message types and the response-time summary are not judged.",
    "DESIGN.md section 4, C19")

add("C20", "exploration",
    "runtime monitoring: httptest request matrix against ServeMux in all four configurations with a routing oracle (recording relay handler, relay logger, marker default handler), real websocket handshakes, independent NIP-11 reference reader/writer for round trips; race detector",
    "8k / 150k seeded requests (Upgrade absent / full websocket handshake / defective handshake / other token x Accept absent / exact / near / other x methods x paths, over real connections and direct ServeHTTP) are judged by a routing oracle; served bodies are read by an independent reference reader and compared with the configured document along with Content-Type and CORS headers; 4k / 80k generated NIP11 values (all fields, single/ascending/descending/zero-ended kind entries) with bounds up to +-2^63 are checked for decode(encode(v)) = v and decode/re-encode stability of independently written texts incl. [k,k] pairs; the configured document is changed in place between requests and every response must equal it as it then is." + RACE,
    "Near-miss Accept values (lists, parameters, case) are not claimed; with no document configured only 'valid JSON, empty document' is judged; values are sampled, not exhaustive.",
    "DESIGN.md section 4, C20")

add("C08", "exploration",
    "runtime monitoring: offline checker over logical-clock-stamped child emissions and client receipts of merged sessions with scripted children (EOSE gating, pre-EOSE order/dedup/limit/filter, post-EOSE per-child FIFO); race detector + verifPoint delays",
    "2-5 (rarely 60-109, sometimes with a nested merge) scripted children per session play seeded scripts (a child may refuse the REQ with CLOSED: then no merged EOSE is due; stored events sorted or not, matching or not, shared between children; EOSE; uniquely marked live events) with seeded delays while the client issues REQs and CLOSEs at seeded points; per (sub id, generation) the recorded traces must show exactly one EOSE after every child's own (none once a child had received the CLOSE before the last child EOSE was sent), a matching, duplicate-free, non-increasing pre-EOSE stream within a single filter's limit, and complete in-order forwarding of every post-EOSE emission. Held on the sessions/generations counted in the evidence." + RACE,
    "Interleavings are sampled; sub ids are re-issued only after their EOSE (as the quantifier says); events a child emits between its own EOSE and the merged one, and after a client CLOSE, are 'may'.",
    "DESIGN.md section 4, C08")

add("C09", "exploration",
    "runtime monitoring: reply-conservation checker over merged sessions with scripted children whose verdicts/reasons/counts identify the submission they answer; race detector + verifPoint delays",
    "2-5 (one session in twelve: 6-25) scripted children answer every EVENT/COUNT after seeded delays with verdicts, reasons and counts that are a function of (child, id, occurrence); the client pipelines requests over tiny id alphabets with the same id several times in flight and CLOSEs in between; at quiescence #OK(id) = #EVENT(id), accepting OKs = all-accept submissions, each rejection begins with the full reason (prefix included) of the lowest-index or earliest-replying rejecter of a distinct submission, and COUNT replies are one per request carrying the per-request maxima. Held on the sessions counted in the evidence." + RACE,
    "Children answer the same id in submission order (different ids out of order); 'first rejecting child' is read as lowest index or earliest reply.",
    "DESIGN.md section 4, C09")

add("C12", "exploration",
    "runtime monitoring: recording handler behind NewRelay + real WebSocket client (coder/websocket) with pipelined seeded frame sequences; frame-by-frame conservation oracle (admitted = valid authentic frames in order; one rejection per other frame; handler output intact and ordered); race detector",
    "Per connection 20-200 pipelined frames: valid messages of all five types, genuine hostile-content events, every C11 corruption class, non-messages, invalid UTF-8, binary frames, properly signed events with an invalid field, unsigned / altered-after-admission / wrong-canonicalisation / unparsable-key events; the handler log must equal the valid authentic frames once each in order, the client must get exactly one rejection per other frame, a sentinel REQ after the last frame must still get through, and every marked handler emission (all seven server message types, hostile strings) must arrive as one text frame decoding to the emitted value, in order; some sessions outlive the send timeout while their peer keeps reading. Held on the connections/frames counted in the evidence." + RACE,
    "Frames stay within the configured size limit and rate limit (both raised); whether frames still on their way to the handler when the client's close frame arrives are handed over is counted, not judged (the handler's log must be a prefix of what was sent); inverted since/until windows are not claimed either way; rejections are counted, not matched to frames (a NOTICE does not name its frame); reuses C11's generators and reference validator for what a frame denotes.",
    "DESIGN.md section 4, C12")

add("C13", "exploration",
    "runtime monitoring: goroutine-leak monitor (runtime.Stack attribution by creating frame), registry/gauge conservation and a bounded-progress watchdog with parked-goroutine witness over seeded handler compositions x histories x cut points x endings; stalled raw-TCP WebSocket peer for the send-timeout clause; race detector",
    "Seeded compositions (default, cache, router, SQLite, merges nested once; 0-5 of all provided middlewares incl. Prometheus and NIP-11 chains) serve a seeded history that is cut at a seeded point by cancel (peer draining, stalled, or stalled after reading 1-3 messages) or inbound close; ServeNostr must return within the bound (witness: a goroutine parked in mocrelay code), no goroutine started by mocrelay code during the session may survive, router registries and Prometheus gauges must be back at their previous values; a router subscriber with 2..buffer deliveries queued that reads 0-2 of them, stalls and is cancelled must leave nothing behind (run twice per handler); a SQLite session must return on cancel even while its bulk inserter is stalled by a foreign write lock and the queue is full; a raw TCP peer that finishes the WebSocket handshake and never reads must be dropped within 50 x send timeout for every send-timeout x ping-interval (incl. disabled) x start-delay combination, also while it keeps sending refused frames, and Relay.ServeHTTP must then return. Held on the sessions/compositions counted in the evidence." + RACE,
    "Liveness is restated as bounded progress on an otherwise idle process (sessions run one at a time so that goroutines can be attributed); the WebSocket clause is judged in wall-clock time with a 50x margin (the property itself is about time).",
    "DESIGN.md section 4, C13")

NOT_YET = "check not built yet in this revision (work in progress; see DESIGN.md)"


def main():
    props = [json.loads(l) for l in open(os.path.join(V, "properties.jsonl"))]
    checks, na = [], []
    for p in props:
        pid = p["id"]
        if pid in CHECKS:
            cat, tech, text, note, ref = CHECKS[pid]
            checks.append({
                "property_id": pid,
                "quick_cmd": "./check %s --tier quick" % pid,
                "thorough_cmd": "./check %s --tier thorough" % pid,
                "evidence_file": "/verif/evidence/%s.json" % pid,
                "replay_cmd_template": "./check %s --replay {path}" % pid,
                "engine": "monitors",
                "level_claimed": {"category": cat, "text": text, "design_ref": ref},
                "level_note": note,
                "technique": tech,
            })
        else:
            na.append({"property_id": pid, "reason": NOT_YET})
    hooks_commits = []
    hp = os.path.join(V, "hooks_commits.txt")
    if os.path.exists(hp):
        hooks_commits = [l.split()[0] for l in open(hp) if l.strip() and not l.startswith("#")]
    man = {
        "version": 1,
        "setup_cmd": "./setup.sh",
        "hooks": {
            "guard": "verif",
            "enable": "go test -tags verif (the driver ./check passes -race -tags verif -overlay <monitors> -modfile <copy of go.mod + porcupine>)",
            "baseline_off_cmd": "cd /repo && GOFLAGS=-mod=mod go test -json -vet=off -count=1 -timeout 25m ./...",
            "source_commits": hooks_commits,
            "add_only": True,
        },
        "engines": [{
            "name": "monitors",
            "path": "/verif/check",
            "serves_properties": [c["property_id"] for c in checks],
            "kind_free_text": "runtime monitors (Go test files injected with -overlay) run under the Go race detector; oracles in /verif/kit",
        }],
        "checks": checks,
        "not_applicable": na,
        "notes": "Technique family: runtime monitoring and sanitizers. One go test process per property, built from /repo's working tree at every invocation; VERIF_REPO points the driver at a scratch copy for seeded breaks.",
    }
    json.dump(man, open(os.path.join(V, "MANIFEST.json"), "w"), indent=1)
    print("MANIFEST.json: %d checks, %d not_applicable" % (len(checks), len(na)))


if __name__ == "__main__":
    main()
