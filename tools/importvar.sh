#!/bin/sh
# importvar.sh <root> <offset> [ID...] : copy <root>/<ID>/out/v<k>/{patch.diff,notes.md} to
# seeded/variations/<ID>-v<k+offset>.{diff,notes.md}
VH=$(cd "$(dirname "$0")/.." && pwd)
root=$1; off=$2; shift 2
for ID in "$@"; do
  for k in 1 2 3; do
    s=$root/$ID/out/v$k
    [ -f $s/patch.diff ] || { echo "$ID v$k: missing"; continue; }
    n=$((k+off))
    cp $s/patch.diff $VH/seeded/variations/$ID-v$n.diff
    cp $s/notes.md $VH/seeded/variations/$ID-v$n.notes.md 2>/dev/null
    echo "$ID-v$n imported"
  done
done
