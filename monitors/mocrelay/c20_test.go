package mocrelay_test

import (
	"bytes"
	"context"
	"encoding/json"
	"errors"
	"fmt"
	"io"
	"log/slog"
	"math/rand/v2"
	"mime"
	"net/http"
	"net/http/httptest"
	"reflect"
	"regexp"
	"strings"
	"sync"
	"testing"
	"time"

	"github.com/coder/websocket"
	"github.com/high-moctane/mocrelay"
	vk "github.com/high-moctane/mocrelay/internal/verifkit"
)

// C20, part 2 — the HTTP front door (ServeMux in its four configurations behind
// httptest) and the test function.

const c20CaseHeader = "X-Verif-Case"
const c20Wait = 20 * time.Second

// ---------------------------------------------------------------------------
// recorders

type c20Rec struct {
	mu       sync.Mutex
	def      map[string]int // case -> calls of the default handler
	relayLog map[string]int // case -> records the relay wrote to its own logger
	sess     map[string]int // case -> sessions started in the relay's handler
	waiters  map[string]chan struct{}
}

func newC20Rec() *c20Rec {
	return &c20Rec{def: map[string]int{}, relayLog: map[string]int{}, sess: map[string]int{}, waiters: map[string]chan struct{}{}}
}

func (c *c20Rec) expect(id string) chan struct{} {
	c.mu.Lock()
	defer c.mu.Unlock()
	ch := make(chan struct{})
	c.waiters[id] = ch
	return ch
}

func (c *c20Rec) sessionStarted(id string) {
	c.mu.Lock()
	defer c.mu.Unlock()
	c.sess[id]++
	if ch, ok := c.waiters[id]; ok {
		close(ch)
		delete(c.waiters, id)
	}
}

func (c *c20Rec) counts(id string) (def, relayLog, sess int) {
	c.mu.Lock()
	defer c.mu.Unlock()
	return c.def[id], c.relayLog[id], c.sess[id]
}

// c20RelayLog is the slog handler given to the relay: the relay logs with a context
// that carries the request, which tells which request entered Relay.ServeHTTP.
type c20RelayLog struct{ rec *c20Rec }

func (h c20RelayLog) Enabled(context.Context, slog.Level) bool { return true }
func (h c20RelayLog) WithAttrs([]slog.Attr) slog.Handler       { return h }
func (h c20RelayLog) WithGroup(string) slog.Handler            { return h }
func (h c20RelayLog) Handle(ctx context.Context, _ slog.Record) error {
	if h.rec == nil {
		return nil
	}
	if req := mocrelay.GetRequest(ctx); req != nil {
		id := req.Header.Get(c20CaseHeader)
		h.rec.mu.Lock()
		h.rec.relayLog[id]++
		h.rec.mu.Unlock()
	}
	return nil
}

// ---------------------------------------------------------------------------
// one mux configuration behind a server

type c20Group struct {
	Index      int    `json:"group"`
	Config     string `json:"config"` // doc±/default±
	DocText    string `json:"configured_document,omitempty"`
	DefStatus  int    `json:"default_status,omitempty"`
	Marker     string `json:"default_marker,omitempty"`
	MuxLogger  bool   `json:"mux_logger"`
	doc        *mocrelay.NIP11
	hasDefault bool
	earlier    []*mocrelay.NIP11 // deep copies of the configurations that were replaced
	Changes    []string          `json:"configuration_changes,omitempty"`
	rec        *c20Rec
	mux        *mocrelay.ServeMux
	relay      *mocrelay.Relay
	srv        *httptest.Server
	client     *http.Client
}

func newC20Group(r *rand.Rand, gi int) *c20Group {
	g := &c20Group{Index: gi, rec: newC20Rec()}
	cfg := gi % 4
	if cfg&1 != 0 {
		g.doc = c20Doc(r)
		g.DocText, _ = c20Text(rand.New(rand.NewPCG(1, 1)), g.doc)
	}
	g.hasDefault = cfg&2 != 0
	g.Config = fmt.Sprintf("doc=%v/default=%v", g.doc != nil, g.hasDefault)
	g.Marker = fmt.Sprintf("m%d-%d", gi, r.IntN(1_000_000))
	g.DefStatus = vk.Pick(r, []int{200, 200, 404, 203, 302})

	handler := mocrelay.HandlerFunc(func(ctx context.Context, send chan<- mocrelay.ServerMsg, recv <-chan mocrelay.ClientMsg) error {
		id := "<no request in context>"
		if req := mocrelay.GetRequest(ctx); req != nil {
			id = req.Header.Get(c20CaseHeader)
		}
		g.rec.sessionStarted(id)
		select {
		case send <- mocrelay.NewServerNoticeMsg("c20:" + id):
		case <-ctx.Done():
			return ctx.Err()
		}
		for {
			select {
			case <-ctx.Done():
				return ctx.Err()
			case _, ok := <-recv:
				if !ok {
					return nil
				}
			}
		}
	})
	opt := mocrelay.NewDefaultRelayOption()
	opt.Logger = slog.New(c20RelayLog{g.rec})
	g.relay = mocrelay.NewRelay(handler, opt)
	g.mux = &mocrelay.ServeMux{Relay: g.relay, NIP11: g.doc}
	if g.hasDefault {
		g.mux.Default = http.HandlerFunc(func(w http.ResponseWriter, req *http.Request) {
			id := req.Header.Get(c20CaseHeader)
			g.rec.mu.Lock()
			g.rec.def[id]++
			g.rec.mu.Unlock()
			w.Header().Set("X-Verif-Default", g.Marker)
			w.Header().Set("Content-Type", "text/plain; charset=utf-8")
			if g.DefStatus == 302 {
				w.Header().Set("Location", "/elsewhere")
			}
			w.WriteHeader(g.DefStatus)
			io.WriteString(w, c20DefaultBody(g.Marker, req.Method, req.URL.RequestURI()))
		})
	}
	if r.IntN(2) == 0 {
		g.MuxLogger = true
		g.mux.Logger = slog.New(c20RelayLog{nil})
	}
	g.srv = httptest.NewServer(g.mux)
	g.client = g.srv.Client()
	g.client.CheckRedirect = func(*http.Request, []*http.Request) error { return http.ErrUseLastResponse }
	return g
}

func c20DefaultBody(marker, method, uri string) string {
	return "default:" + marker + ":" + method + ":" + uri
}

func (g *c20Group) close() bool {
	g.srv.Close()
	done := make(chan struct{})
	go func() { g.relay.Wait(); close(done) }()
	select {
	case <-done:
		return true
	case <-time.After(c20Wait):
		return false
	}
}

// ---------------------------------------------------------------------------
// requests

type c20Req struct {
	Case      string      `json:"case"`
	Transport string      `json:"transport"` // wire (real connection) | direct (ServeHTTP with a recorder)
	Method    string      `json:"method"`
	Path      string      `json:"path"`
	Upgrade   string      `json:"upgrade_class"` // none | dial | manual | broken:<defect> | other
	Accept    string      `json:"accept_class"`  // absent | exact | near | other
	Header    http.Header `json:"header"`
	HasBody   bool        `json:"has_body"`
}

var (
	c20Methods     = []string{"GET", "GET", "GET", "POST", "HEAD", "OPTIONS", "PUT", "DELETE"}
	c20Paths       = []string{"/", "/", "/relay", "/.well-known/nostr.json?name=x", "/a/b/c", "/?q=1", "/index.html", "/favicon.ico"}
	c20AcceptOther = []string{"application/json", "text/html", "*/*", "application/nostr", "application/nostr+jsonx", "nostr+json", "text/html,application/xhtml+xml,application/xml;q=0.9,*/*;q=0.8", "application/*", "application/nostr-json"}
	c20AcceptNear  = []string{"application/nostr+json, text/html", "application/nostr+json;q=0.9", "APPLICATION/NOSTR+JSON", "text/html, application/nostr+json", "application/nostr+json; charset=utf-8"}
	c20OtherTokens = []string{"h2c", "foo", "TLS/1.0", "websocket2", "web-socket", "HTTP/2.0", "x"}
	c20WSSpellings = []string{"websocket", "websocket", "WebSocket", "WEBSOCKET"}
	c20BrokenKinds = []string{"no-connection", "bad-version", "no-version", "no-key", "bad-key", "method"}
	c20ValidKey    = "dGhlIHNhbXBsZSBub25jZQ=="
)

func c20GenReq(r *rand.Rand, id string) *c20Req {
	q := &c20Req{Case: id, Header: http.Header{}}
	q.Header.Set(c20CaseHeader, id)
	q.Transport = "wire"
	if r.IntN(3) == 0 {
		q.Transport = "direct"
	}
	q.Method = vk.Pick(r, c20Methods)
	q.Path = vk.Pick(r, c20Paths)

	// Accept
	switch r.IntN(10) {
	case 0, 1:
		q.Accept = "absent"
	case 2, 3, 4, 5:
		q.Accept = "exact"
		q.Header.Set("Accept", "application/nostr+json")
	case 6:
		q.Accept = "near"
		v := vk.Pick(r, c20AcceptNear)
		if r.IntN(4) == 0 { // two header lines
			q.Header["Accept"] = []string{"application/nostr+json", "text/html"}
			if r.IntN(2) == 0 {
				q.Header["Accept"] = []string{"text/html", "application/nostr+json"}
			}
		} else {
			q.Header.Set("Accept", v)
		}
	default:
		q.Accept = "other"
		q.Header.Set("Accept", vk.Pick(r, c20AcceptOther))
	}

	// Upgrade
	switch u := r.IntN(20); {
	case u < 9:
		q.Upgrade = "none"
	case u < 12:
		q.Upgrade = "dial"
	case u < 14:
		q.Upgrade = "manual"
	case u < 17:
		q.Upgrade = "broken:" + vk.Pick(r, c20BrokenKinds)
	default:
		q.Upgrade = "other"
	}
	if q.Upgrade == "none" && r.IntN(4) == 0 {
		// the rest of a handshake without the Upgrade header itself (a proxy that strips
		// hop-by-hop headers leaves this): still a request without Upgrade header
		q.Header.Set("Sec-WebSocket-Version", "13")
		q.Header.Set("Sec-WebSocket-Key", c20ValidKey)
		if q.Transport == "direct" && r.IntN(2) == 0 {
			q.Header.Set("Connection", "Upgrade")
		}
	}
	if q.Transport == "direct" && (q.Upgrade == "dial" || q.Upgrade == "manual") {
		// a recorder cannot be hijacked; keep the header combination, break the handshake
		q.Upgrade = "broken:" + vk.Pick(r, c20BrokenKinds)
	}
	switch {
	case q.Upgrade == "dial":
		q.Method = "GET"
	case q.Upgrade == "manual":
		q.Method = "GET"
		q.Header.Set("Upgrade", vk.Pick(r, c20WSSpellings))
		q.Header.Set("Connection", vk.Pick(r, []string{"Upgrade", "upgrade", "keep-alive, Upgrade"}))
		q.Header.Set("Sec-WebSocket-Version", "13")
		q.Header.Set("Sec-WebSocket-Key", c20ValidKey)
	case strings.HasPrefix(q.Upgrade, "broken:"):
		q.Header.Set("Upgrade", vk.Pick(r, c20WSSpellings))
		q.Header.Set("Connection", "Upgrade")
		q.Header.Set("Sec-WebSocket-Version", "13")
		q.Header.Set("Sec-WebSocket-Key", c20ValidKey)
		switch strings.TrimPrefix(q.Upgrade, "broken:") {
		case "no-connection":
			q.Header.Del("Connection")
		case "bad-version":
			q.Header.Set("Sec-WebSocket-Version", vk.Pick(r, []string{"8", "12", "14", "x"}))
		case "no-version":
			q.Header.Del("Sec-WebSocket-Version")
		case "no-key":
			q.Header.Del("Sec-WebSocket-Key")
		case "bad-key":
			q.Header.Set("Sec-WebSocket-Key", vk.Pick(r, []string{"short", "!!!!", "dGhlIHNhbXBsZSBub25jZQ"}))
		case "method":
			q.Method = vk.Pick(r, []string{"POST", "PUT", "DELETE", "OPTIONS", "HEAD"})
		}
	case q.Upgrade == "other":
		q.Header.Set("Upgrade", vk.Pick(r, c20OtherTokens))
		if r.IntN(2) == 0 {
			q.Header.Set("Connection", "Upgrade")
		}
		if r.IntN(3) == 0 { // everything else of a handshake is there, only the token is wrong
			q.Header.Set("Connection", "Upgrade")
			q.Header.Set("Sec-WebSocket-Version", "13")
			q.Header.Set("Sec-WebSocket-Key", c20ValidKey)
		}
	}

	if r.IntN(3) == 0 {
		q.Header.Set("Origin", "https://client.example")
	}
	if r.IntN(3) == 0 {
		q.Header.Set("User-Agent", "c20/"+id)
	}
	if r.IntN(4) == 0 {
		q.Header.Set("Content-Type", "application/nostr+json") // a request header, must not matter
	}
	q.HasBody = (q.Method == "POST" || q.Method == "PUT") && r.IntN(2) == 0
	return q
}

type c20Obs struct {
	Status      int         `json:"status"`
	Header      http.Header `json:"header"`
	Body        string      `json:"body"`
	BodyVisible bool        `json:"body_visible"`
	Err         string      `json:"error,omitempty"`
}

func (g *c20Group) do(q *c20Req) *c20Obs {
	var body io.Reader
	if q.HasBody {
		body = strings.NewReader(`{"hello":"relay"}`)
	}
	if q.Transport == "direct" {
		req := httptest.NewRequest(q.Method, q.Path, body)
		for k, v := range q.Header {
			req.Header[k] = append([]string(nil), v...)
		}
		w := httptest.NewRecorder()
		g.mux.ServeHTTP(w, req)
		res := w.Result()
		b, _ := io.ReadAll(res.Body)
		return &c20Obs{Status: res.StatusCode, Header: res.Header, Body: string(b), BodyVisible: true}
	}
	ctx, cancel := context.WithTimeout(context.Background(), 2*c20Wait)
	defer cancel()
	req, err := http.NewRequestWithContext(ctx, q.Method, g.srv.URL+q.Path, body)
	if err != nil {
		return &c20Obs{Err: "build: " + err.Error()}
	}
	for k, v := range q.Header {
		req.Header[k] = append([]string(nil), v...)
	}
	res, err := g.client.Do(req)
	if err != nil {
		return &c20Obs{Err: err.Error()}
	}
	defer res.Body.Close()
	o := &c20Obs{Status: res.StatusCode, Header: res.Header, BodyVisible: q.Method != "HEAD"}
	if res.StatusCode != http.StatusSwitchingProtocols {
		b, _ := io.ReadAll(io.LimitReader(res.Body, 4<<20))
		o.Body = string(b)
	}
	return o
}

// ---------------------------------------------------------------------------
// oracle

type c20Fault struct{ sig, what string }

func c20MediaType(h http.Header) string {
	mt, _, err := mime.ParseMediaType(h.Get("Content-Type"))
	if err != nil {
		return h.Get("Content-Type")
	}
	return mt
}

func c20LooksLikeDocument(o *c20Obs) bool {
	if c20MediaType(o.Header) == "application/nostr+json" {
		return true
	}
	if !o.BodyVisible {
		return false
	}
	v, err := c20ParseGeneric([]byte(o.Body))
	if err != nil {
		return false
	}
	_, isObj := v.(map[string]any)
	return isObj
}

// isTheDocument: the answer is the relay information document (by its media type, or because
// its body reads as the configured document); a greeting may take any form, JSON included.
func (g *c20Group) isTheDocument(o *c20Obs) bool {
	if c20MediaType(o.Header) == "application/nostr+json" {
		return true
	}
	if !o.BodyVisible || !c20LooksLikeDocument(o) {
		return false
	}
	d, e := c20RefReadBytes([]byte(o.Body))
	return e == "" && c20DocDiff(g.doc, d) == ""
}

// judgeDoc: the answer is the configured document.
func (g *c20Group) judgeDoc(q *c20Req, o *c20Obs) []c20Fault {
	var f []c20Fault
	def, rl, sess := g.rec.counts(q.Case)
	if def != 0 {
		f = append(f, c20Fault{"nip11/default-handler-called", "the default handler was called for a request with Accept: application/nostr+json"})
	}
	if rl != 0 || sess != 0 {
		f = append(f, c20Fault{"nip11/relay-entered", "the relay was entered for a request without Upgrade header"})
	}
	if o.Status != 200 {
		f = append(f, c20Fault{"nip11/status", fmt.Sprintf("status %d instead of 200 for the information document", o.Status)})
		return f
	}
	if g.doc == nil {
		// no document configured: only "valid JSON, empty document" is judged
		if o.BodyVisible {
			d, e := c20RefReadBytes([]byte(o.Body))
			if e != "" {
				f = append(f, c20Fault{"nip11/nodoc-body-not-json-document", "without a configured document the answer is not a JSON document: " + e})
			} else if diff := c20DocDiff(nil, d); diff != "" {
				f = append(f, c20Fault{"nip11/nodoc-body-not-empty", "without a configured document the answer carries content: " + diff})
			}
		}
		return f
	}
	if mt := c20MediaType(o.Header); mt != "application/nostr+json" {
		f = append(f, c20Fault{"nip11/content-type", fmt.Sprintf("Content-Type %q instead of application/nostr+json", o.Header.Values("Content-Type"))})
	}
	if v := o.Header.Values("Access-Control-Allow-Origin"); len(v) == 0 || v[0] != "*" {
		f = append(f, c20Fault{"nip11/cors", fmt.Sprintf("Access-Control-Allow-Origin %q instead of *", v)})
	}
	if o.BodyVisible {
		d, e := c20RefReadBytes([]byte(o.Body))
		if e != "" {
			f = append(f, c20Fault{"nip11/body-not-json-document", "served body is not a JSON relay information document: " + e})
		} else if diff := c20DocDiff(g.doc, d); diff != "" {
			f = append(f, c20Fault{"nip11/body-differs-from-configuration/" + c20PathClass(diff), "served document (read by the reference reader) differs from the configuration at " + diff})
		}
		var back mocrelay.NIP11
		if err := json.Unmarshal([]byte(o.Body), &back); err != nil {
			f = append(f, c20Fault{"nip11/body-not-decodable", "served body does not decode into NIP11: " + err.Error()})
		} else if diff := c20DocDiff(g.doc, &back); diff != "" {
			f = append(f, c20Fault{"nip11/decoded-body-differs-from-configuration/" + c20PathClass(diff), "served document decoded into NIP11 differs from the configuration at " + diff})
		}
	}
	return f
}

// judgeDefault: the answer comes from the default handler, or is the greeting.
func (g *c20Group) judgeDefault(q *c20Req, o *c20Obs) []c20Fault {
	var f []c20Fault
	def, rl, sess := g.rec.counts(q.Case)
	if rl != 0 || sess != 0 {
		f = append(f, c20Fault{"default/relay-entered", "the relay was entered for a request without Upgrade header"})
	}
	if g.hasDefault {
		if def != 1 {
			f = append(f, c20Fault{"default/handler-not-called", fmt.Sprintf("default handler called %d times for a request that is neither relay nor NIP-11 access", def)})
		}
		if o.Header.Get("X-Verif-Default") != g.Marker || o.Status != g.DefStatus {
			sig := "default/not-the-handlers-answer"
			if g.isTheDocument(o) {
				sig = "default/answered-with-document"
			}
			f = append(f, c20Fault{sig, fmt.Sprintf("answer (status %d) is not the default handler's (status %d, marker %s)", o.Status, g.DefStatus, g.Marker)})
		} else if want := c20DefaultBody(g.Marker, q.Method, q.Path); o.BodyVisible && o.Body != want {
			f = append(f, c20Fault{"default/body-altered", fmt.Sprintf("default handler wrote %q, client got %q", want, o.Body)})
		}
		return f
	}
	if def != 0 {
		f = append(f, c20Fault{"default/phantom-handler", "a default handler ran although none is configured"})
	}
	switch {
	case g.isTheDocument(o):
		f = append(f, c20Fault{"default/answered-with-document", "a request without Upgrade and without the NIP-11 Accept value was answered with the information document instead of the greeting"})
	case o.Status != 200:
		f = append(f, c20Fault{"default/greeting-status", fmt.Sprintf("status %d instead of the greeting", o.Status)})
	case o.BodyVisible && strings.TrimSpace(o.Body) == "" && q.Method != "HEAD": // the answer to a HEAD request may come without a body
		f = append(f, c20Fault{"default/greeting-empty", "empty answer instead of the greeting"})
	}
	return f
}

// judgeRelayError: Upgrade present but no websocket handshake possible: the relay's
// own upgrade error, never the document, the default handler or the greeting.
func (g *c20Group) judgeRelayError(q *c20Req, o *c20Obs) []c20Fault {
	var f []c20Fault
	def, _, sess := g.rec.counts(q.Case)
	if def != 0 {
		f = append(f, c20Fault{"upgrade/default-handler-called", "the default handler was called for a request with an Upgrade header"})
	}
	if sess != 0 {
		f = append(f, c20Fault{"upgrade/session-without-handshake", "a relay session started although the handshake is incomplete"})
	}
	if o.Status >= 400 && o.Status < 500 && o.Header.Get("X-Verif-Default") == "" {
		return f
	}
	sig := "upgrade/unexpected-status"
	switch {
	case o.Header.Get("X-Verif-Default") != "":
		sig = "upgrade/answered-by-default-handler"
	case o.Status == 200 && c20LooksLikeDocument(o):
		sig = "upgrade/answered-with-document"
	case o.Status == 200:
		sig = "upgrade/answered-with-greeting"
	}
	f = append(f, c20Fault{sig, fmt.Sprintf("request with Upgrade: %q got status %d (%q) instead of the relay's upgrade error", q.Header.Get("Upgrade"), o.Status, c20Clip(o.Body))})
	return f
}

var c20Index = regexp.MustCompile(`\[\d+\]`)

// c20PathClass turns "doc.Retention.Kinds[2].To: 5 vs 7" into "doc.Retention.Kinds.To".
func c20PathClass(diff string) string {
	p, _, _ := strings.Cut(diff, ":")
	return c20Index.ReplaceAllString(p, "")
}

func c20Clip(s string) string {
	if len(s) > 200 {
		return strings.ToValidUTF8(s[:200], "") + "..."
	}
	return s
}

// ---------------------------------------------------------------------------
// running one request

func (g *c20Group) run(rep *vk.Report, q *c20Req) {
	witness := func(o any) map[string]any {
		return map[string]any{"group": g, "request": q, "observed": o}
	}
	report := func(fs []c20Fault, o any) {
		for _, f := range fs {
			rep.Violation(f.sig, f.what+" ["+g.Config+", "+q.Method+" "+q.Path+", upgrade="+q.Upgrade+", accept="+q.Accept+", "+q.Transport+"]", witness(o))
		}
	}
	key := fmt.Sprintf("%s|%s|%s|%s|%s", g.Config, q.Upgrade, q.Accept, q.Method, q.Transport)
	rep.Nontrivial(key)
	rep.Eval(1)
	rep.Seen("upgrade_x_accept", strings.SplitN(q.Upgrade, ":", 2)[0]+"+"+q.Accept)

	switch {
	case q.Upgrade == "dial":
		g.runDial(rep, q, report)
		return
	case q.Upgrade == "manual":
		ch := g.rec.expect(q.Case)
		o := g.do(q)
		if o.Err != "" {
			rep.Inconclusive(fmt.Sprintf("manual handshake %s: transport error %s", q.Case, o.Err))
			return
		}
		if o.Status != http.StatusSwitchingProtocols {
			fs := g.judgeRelayError(q, o) // classifies what answered instead
			if len(fs) == 0 {
				fs = []c20Fault{{"upgrade/handshake-refused", fmt.Sprintf("complete websocket handshake got status %d (%q)", o.Status, c20Clip(o.Body))}}
			}
			report(fs, o)
			return
		}
		g.awaitSession(rep, q, ch, "manual")
		return
	case q.Upgrade != "none":
		o := g.do(q)
		if o.Err != "" {
			rep.Inconclusive(fmt.Sprintf("request %s: transport error %s", q.Case, o.Err))
			return
		}
		fs := g.judgeRelayError(q, o)
		report(fs, o)
		if _, rl, _ := g.rec.counts(q.Case); rl > 0 {
			rep.Count("upgrade_error_relay_entry_seen", 1)
		} else if len(fs) == 0 {
			rep.Count("upgrade_error_relay_entry_not_seen", 1)
		}
		rep.Count("route_relay_error/"+g.Config, 1)
		rep.Seen("relay_error_status", fmt.Sprint(o.Status))
		return
	}

	o := g.do(q)
	if o.Err != "" {
		rep.Inconclusive(fmt.Sprintf("request %s: transport error %s", q.Case, o.Err))
		return
	}
	switch q.Accept {
	case "exact":
		report(g.judgeDoc(q, o), o)
		rep.Count("route_nip11/"+g.Config, 1)
		if g.doc != nil && o.BodyVisible {
			rep.Count("documents_compared", 1)
			g.seenServed(rep)
		}
		if rep.WantSample() && g.doc != nil && q.Transport == "wire" && o.BodyVisible {
			rep.Sample(map[string]any{"config": g.Config, "request": q.Method + " " + q.Path, "accept": q.Header.Get("Accept"), "status": o.Status,
				"content_type": o.Header.Get("Content-Type"), "cors": o.Header.Get("Access-Control-Allow-Origin"), "body": c20Clip(o.Body)})
		}
	case "near":
		// not claimed: a list / parameters / other case around the NIP-11 media type
		// may be read either way, but the answer must be one of the two, intact
		fd, fo := g.judgeDoc(q, o), g.judgeDefault(q, o)
		switch {
		case len(fd) == 0:
			rep.Count("near_accept_answered_with_document", 1)
		case len(fo) == 0:
			rep.Count("near_accept_answered_by_default", 1)
		default:
			report([]c20Fault{{"near-accept/neither-document-nor-default", fmt.Sprintf("Accept %q: answer is neither the intact document (%s) nor the default answer (%s)", q.Header.Values("Accept"), fd[0].what, fo[0].what)}}, o)
		}
	default:
		report(g.judgeDefault(q, o), o)
		rep.Count("route_default/"+g.Config, 1)
		if !g.hasDefault && o.BodyVisible {
			rep.Seen("greeting_text", o.Body)
		}
	}
}

func (g *c20Group) awaitSession(rep *vk.Report, q *c20Req, ch chan struct{}, how string) {
	select {
	case <-ch:
		rep.Count("ws_sessions_reached_handler/"+how, 1)
		rep.Count("route_relay_session/"+g.Config, 1)
		if q.Accept == "exact" {
			rep.Count("ws_sessions_with_nip11_accept", 1)
		}
	case <-time.After(c20Wait):
		rep.Inconclusive(fmt.Sprintf("%s handshake %s answered 101 but the recording handler saw no session within %s", how, q.Case, c20Wait))
	}
	if def, _, _ := g.rec.counts(q.Case); def != 0 {
		rep.Violation("upgrade/default-handler-called", "default handler called for a websocket handshake", map[string]any{"group": g, "request": q})
	}
}

func (g *c20Group) runDial(rep *vk.Report, q *c20Req, report func([]c20Fault, any)) {
	ch := g.rec.expect(q.Case)
	ctx, cancel := context.WithTimeout(context.Background(), 2*c20Wait)
	defer cancel()
	hdr := http.Header{}
	for k, v := range q.Header {
		hdr[k] = append([]string(nil), v...)
	}
	conn, res, err := websocket.Dial(ctx, "ws"+strings.TrimPrefix(g.srv.URL, "http")+q.Path, &websocket.DialOptions{HTTPClient: g.client, HTTPHeader: hdr})
	if err != nil {
		o := &c20Obs{Err: err.Error()}
		if res != nil {
			o.Status, o.Header = res.StatusCode, res.Header
			// Dial has consumed up to 1 KiB of the body into the error or replaced it
			if res.Body != nil {
				b, _ := io.ReadAll(io.LimitReader(res.Body, 1<<20))
				o.Body = string(b)
				o.BodyVisible = len(b) > 0
			}
		}
		if res == nil || ctx.Err() != nil {
			rep.Inconclusive(fmt.Sprintf("dial %s: %v", q.Case, err))
			return
		}
		sig := "upgrade/handshake-refused"
		switch {
		case o.Header.Get("X-Verif-Default") != "":
			sig = "upgrade/answered-by-default-handler"
		case o.Status == 200 && c20LooksLikeDocument(o):
			sig = "upgrade/answered-with-document"
		case o.Status == 200:
			sig = "upgrade/answered-with-greeting"
		}
		report([]c20Fault{{sig, fmt.Sprintf("websocket handshake was not accepted: status %d, %v", o.Status, err)}}, o)
		return
	}
	g.awaitSession(rep, q, ch, "dial")
	// one message from the recording handler proves the connection is the relay's session
	rctx, rcancel := context.WithTimeout(context.Background(), c20Wait)
	typ, data, rerr := conn.Read(rctx)
	rcancel()
	if rerr == nil && typ == websocket.MessageText && bytes.Contains(data, []byte("c20:"+q.Case)) {
		rep.Count("ws_notice_from_handler_received", 1)
	} else {
		rep.Count("ws_notice_missing", 1)
	}
	conn.CloseNow()
}

// ---------------------------------------------------------------------------
// the check

func TestVerif_C20(t *testing.T) {
	rep := vk.NewReport(t, "C20", "exploration")
	rep.Rule = "requests: groups of 20 requests against one ServeMux behind httptest (configuration = group index mod 4: with/without NIP-11 document x with/without default handler; generated document, marker default handler with status 200/203/302/404, mux logger on/off); each request draws Upgrade in {none, full handshake by websocket.Dial, hand-written complete handshake, websocket with one handshake defect, other token} x Accept in {absent, application/nostr+json, near forms (lists, parameters, case; not claimed), other media types} x 6 methods x 8 paths x {real connection, ServeHTTP with recorder}; added later: handshake headers without the Upgrade header; ordinary document requests after requests whose ResponseWriter breaks at once or after a few bytes; non-trivial = every request; distinct = distinct (configuration, upgrade class, accept class, method, transport). documents: generated NIP11 values (every field independently zero/set, limitation/retention/fees absent, empty or filled, nil and empty slices, kind entries single/ascending/descending/zero-ended) checked as decode(encode(v)) = v, reference-read(encode(v)) = v, and for independently written texts t (key order, whitespace, escapes, null/explicit zero/omitted members, [k,k] pairs): decode(t) = v and decode(encode(decode(t))) = decode(t); kind bounds include values around 2^31, 2^53, 2^62, MaxInt64, MinInt64 and negatives, single and in pairs whose ends differ by 1; configuration changes: the same *NIP11 value held by the mux is altered in place (whole fields and elements of kinds/limits/nips/fees), strictly between requests, before the first request or after earlier ones, and the next answer must equal the value as it is then; distinct = distinct (field presence mask, kind forms)"
	defer rep.Finish()

	// ---- (a) JSON round trip -------------------------------------------------
	nDocs := vk.N(4000, 80000)
	const chunk = 100
	vk.Parallel(nDocs/chunk, func(ci int) {
		r := vk.RNG("C20/docs", ci)
		for k := 0; k < chunk; k++ {
			d := c20Doc(r)
			shape := c20DocShape(d)
			rep.Nontrivial("doc|" + shape)
			rep.Eval(1)
			for _, f := range strings.Split(shape[strings.Index(shape, "/")+1:], ",") {
				if f != "" {
					rep.Seen("kind_forms_in_values", f)
					if strings.HasPrefix(f, "huge-") {
						rep.Count("values_with_"+f, 1)
					}
				}
			}
			text, forms := c20Text(r, d)
			for f := range forms {
				rep.Seen("kind_forms_in_texts", f)
				if strings.HasPrefix(f, "text-huge-") {
					rep.Count("texts_with_"+f, 1)
				}
			}
			w := func(extra map[string]any) map[string]any {
				m := map[string]any{"document_written_by_the_reference_writer": text, "value": fmt.Sprintf("%+v", c20Flat(d))}
				for k, v := range extra {
					m[k] = v
				}
				return m
			}

			// encode, then read back twice (reference reader, repository decoder)
			enc, err := json.Marshal(d)
			if err != nil {
				rep.Violation("roundtrip/encode-error", "json.Marshal(NIP11) failed: "+err.Error(), w(nil))
				continue
			}
			if ref, e := c20RefReadBytes(enc); e != "" {
				rep.Violation("roundtrip/encoded-text-not-a-document", "encoded document is not a JSON relay information document: "+e, w(map[string]any{"encoded": string(enc)}))
			} else if diff := c20DocDiff(d, ref); diff != "" {
				rep.Violation("roundtrip/encoded-text-differs/"+c20PathClass(diff), "encoded document, read by the reference reader, differs from the value at "+diff, w(map[string]any{"encoded": string(enc)}))
			}
			var back mocrelay.NIP11
			if err := json.Unmarshal(enc, &back); err != nil {
				rep.Violation("roundtrip/decode-error", "decode(encode(v)) failed: "+err.Error(), w(map[string]any{"encoded": string(enc)}))
			} else if diff := c20DocDiff(d, &back); diff != "" {
				rep.Violation("roundtrip/decode-encode-differs/"+c20PathClass(diff), "decode(encode(v)) differs from v at "+diff, w(map[string]any{"encoded": string(enc)}))
			}

			// independently written text
			var v1 mocrelay.NIP11
			if err := json.Unmarshal([]byte(text), &v1); err != nil {
				rep.Violation("text/decode-error", "decode(t) failed for a generated document text: "+err.Error(), w(nil))
				continue
			}
			if diff := c20DocDiff(d, &v1); diff != "" {
				rep.Violation("text/decode-differs-from-text/"+c20PathClass(diff), "decode(t) differs from what t says at "+diff, w(nil))
			}
			enc2, err := json.Marshal(&v1)
			if err != nil {
				rep.Violation("text/reencode-error", "encode(decode(t)) failed: "+err.Error(), w(nil))
				continue
			}
			var v2 mocrelay.NIP11
			if err := json.Unmarshal(enc2, &v2); err != nil {
				rep.Violation("text/redecode-error", "decode(encode(decode(t))) failed: "+err.Error(), w(map[string]any{"reencoded": string(enc2)}))
			} else if diff := c20DocDiff(&v1, &v2); diff != "" {
				rep.Violation("text/reencode-differs/"+c20PathClass(diff), "decode(encode(decode(t))) differs from decode(t) at "+diff, w(map[string]any{"reencoded": string(enc2)}))
			}
			rep.Count("documents_round_tripped", 1)
			if ci == 0 && k < 2 {
				rep.Sample(map[string]any{"text": c20Clip(text), "encoded": c20Clip(string(enc)), "shape": shape})
			}
		}
	})

	// ---- (b) the front door ----------------------------------------------------
	const perGroup = 20
	nGroups := vk.N(8000, 150000) / perGroup
	vk.Parallel(nGroups, func(gi int) {
		r := vk.RNG("C20/http", gi)
		g := newC20Group(r, gi)
		reqs := make([]*c20Req, perGroup)
		for k := range reqs {
			reqs[k] = c20GenReq(r, fmt.Sprintf("g%d-%d", gi, k))
		}
		if g.doc != nil && gi%8 >= 4 { // configuration changed before the very first request
			g.changeAndFetch(rep, r, 1)
		}
		vk.ParallelW(4, perGroup, func(k int) { g.run(rep, reqs[k]) })
		if g.doc != nil {
			// all requests above are answered; from here on strictly change, then request
			g.changeAndFetch(rep, r, 2+r.IntN(3))
		}
		if !g.close() {
			rep.Count("relay_wait_timeouts", 1)
		}
		rep.Count("groups/"+g.Config, 1)
	})

	// ---- (c) a client that goes away while the document is written ------------------
	// Requests whose ResponseWriter fails (at once, or after some bytes) are interleaved with
	// ordinary ones on the same and on other muxes: what an ordinary request is answered with
	// is the configured document, whatever happened to the requests before it.
	nGone := vk.N(300, 6000)
	vk.Parallel(nGone/10, func(ci int) {
		r := vk.RNG("C20/gone", ci)
		docs := []*mocrelay.NIP11{c20Doc(r), c20Doc(r), nil}
		muxes := make([]http.Handler, len(docs))
		for k, d := range docs {
			switch r.IntN(3) {
			case 0:
				muxes[k] = &mocrelay.ServeMux{NIP11: d}
			case 1:
				muxes[k] = &mocrelay.ServeMux{NIP11: d, Default: http.NotFoundHandler()}
			default:
				if d != nil {
					muxes[k] = d
				} else {
					muxes[k] = &mocrelay.ServeMux{}
				}
			}
		}
		for k := 0; k < 10 && rep.Violations() < 3; k++ {
			a, b := r.IntN(len(docs)), r.IntN(len(docs))
			for n := 1 + r.IntN(3); n > 0; n-- {
				req := httptest.NewRequest("GET", "/", nil)
				req.Header.Set("Accept", "application/nostr+json")
				func() {
					defer func() { recover() }() // a handler may give up on a dead connection any way it likes
					muxes[a].ServeHTTP(&c20GoneWriter{h: http.Header{}, allow: vk.Pick(r, []int{0, 0, 1, 7, 100})}, req)
				}()
				rep.Count("requests_whose_client_went_away", 1)
			}
			req := httptest.NewRequest("GET", "/", nil)
			req.Header.Set("Accept", "application/nostr+json")
			rec := httptest.NewRecorder()
			muxes[b].ServeHTTP(rec, req)
			rep.Eval(1)
			body := rec.Body.Bytes()
			d, e := c20RefReadBytes(body)
			wit := map[string]any{"body": c20Clip(string(body)), "document_configured": docs[b] != nil}
			if docs[b] != nil {
				wit["configured"] = fmt.Sprintf("%+v", c20Flat(docs[b]))
			}
			if e != "" {
				rep.Violation("gone/body-not-json-document", "after requests whose client went away, an ordinary request is answered with something that is not a JSON relay information document: "+e, wit)
				return
			}
			if diff := c20DocDiff(docs[b], d); diff != "" {
				rep.Violation("gone/body-differs-from-configuration/"+c20PathClass(diff), "after requests whose client went away, the served document differs from the configuration at "+diff, wit)
				return
			}
			rep.Count("documents_compared_after_a_failed_write", 1)
		}
	})
	rep.Require(rep.Violations() > 0 || rep.Counter("documents_compared_after_a_failed_write") >= int64(nGone*9/10), "documents after failed writes")

	// ---- sanity gates -----------------------------------------------------------
	for _, cfg := range []string{"doc=false/default=false", "doc=true/default=false", "doc=false/default=true", "doc=true/default=true"} {
		for _, route := range []string{"route_relay_session/", "route_relay_error/", "route_nip11/", "route_default/"} {
			rep.Require(rep.Counter(route+cfg) >= int64(nGroups/40), "too few observations of "+route+cfg)
		}
	}
	for _, u := range []string{"none", "dial", "manual", "broken", "other"} {
		for _, a := range []string{"absent", "exact", "near", "other"} {
			rep.Seen("required_combinations", u+"+"+a)
		}
	}
	rep.Require(rep.SetSize("upgrade_x_accept") == rep.SetSize("required_combinations"), "not every Upgrade x Accept combination was sent")
	rep.Require(rep.Counter("ws_sessions_with_nip11_accept") >= int64(nGroups/10), "too few websocket sessions opened with Accept: application/nostr+json")
	rep.Require(rep.Counter("ws_notice_from_handler_received") >= rep.Counter("ws_sessions_reached_handler/dial")*9/10, "websocket clients did not receive the recording handler's message")
	rep.Require(rep.Counter("upgrade_error_relay_entry_not_seen") == 0, "upgrade errors for which the relay's own logger saw no request: the 4xx may not come from the relay")
	rep.Require(rep.Counter("documents_compared") >= int64(nGroups), "too few served documents compared")
	rep.Require(rep.Counter("documents_round_tripped") >= int64(nDocs*9/10), "round trips not run")
	rep.Require(rep.SetSize("kind_forms_in_values") >= 9, "not every kind-entry form generated")
	rep.Require(rep.SetSize("kind_forms_in_texts") >= 8, "not every kind-entry text form generated")
	rep.Require(rep.SetSize("served_kind_forms") >= 9, "not every kind-entry form occurred in a served document")
	for _, c := range []string{"values_with_huge-single", "values_with_huge-pair-adjacent", "values_with_huge-pair", "texts_with_text-huge-pair-adjacent", "texts_with_text-huge-pair",
		"served_with_huge-single", "served_with_huge-pair-adjacent", "served_with_huge-pair"} {
		rep.Require(rep.Counter(c) >= 20, "too few documents counted as "+c)
	}
	rep.Require(rep.Counter("documents_compared_after_change") >= int64(nGroups), "too few documents fetched after a change of the configured value")
	rep.Require(rep.SetSize("changed_fields") >= 10, "configuration changes did not reach enough fields")
	rep.Require(rep.SetSize("greeting_text") >= 1, "greeting never observed")
}

// c20GoneWriter is the ResponseWriter of a connection that breaks after `allow` body bytes.
type c20GoneWriter struct {
	h     http.Header
	allow int
}

func (w *c20GoneWriter) Header() http.Header { return w.h }
func (w *c20GoneWriter) WriteHeader(int)     {}
func (w *c20GoneWriter) Write(p []byte) (int, error) {
	if len(p) <= w.allow {
		w.allow -= len(p)
		return len(p), nil
	}
	n := w.allow
	w.allow = 0
	return n, errors.New("write: broken pipe")
}

func (g *c20Group) seenServed(rep *vk.Report) {
	shape := c20DocShape(g.doc)
	rep.Seen("served_doc_shape", shape)
	for _, f := range strings.Split(shape[strings.Index(shape, "/")+1:], ",") {
		if f != "" {
			rep.Seen("served_kind_forms", f)
			if strings.HasPrefix(f, "huge-") {
				rep.Count("served_with_"+f, 1)
			}
		}
	}
}

// c20Snapshot is a deep copy made without the code under test (reference writer, reference reader).
func c20Snapshot(d *mocrelay.NIP11) *mocrelay.NIP11 {
	t, _ := c20Text(rand.New(rand.NewPCG(3, 3)), d)
	c, e := c20RefReadBytes([]byte(t))
	if e != "" || c20DocDiff(d, c) != "" {
		panic("C20 harness: reference writer and reader disagree: " + e + " " + c20DocDiff(d, c))
	}
	return c
}

// c20Change alters the configured value in place (same *NIP11) and tells which
// fields were touched. No request is in flight while this runs.
func c20Change(r *rand.Rand, d *mocrelay.NIP11) []string {
	var touched []string
	fresh := c20Doc(r)
	dv, fv := reflect.ValueOf(d).Elem(), reflect.ValueOf(fresh).Elem()
	for len(touched) == 0 {
		// element-wise, deep changes first
		if d.Retention != nil && len(d.Retention.Kinds) > 0 && r.IntN(2) == 0 {
			k := d.Retention.Kinds[r.IntN(len(d.Retention.Kinds))]
			switch r.IntN(3) {
			case 0:
				*k = *c20Kind(r)
			case 1:
				k.To = k.From
			default:
				k.From, k.To = k.To, k.From+1
			}
			touched = append(touched, "Retention.Kinds[i]")
		}
		if d.Limitation != nil && r.IntN(2) == 0 {
			d.Limitation.MaxLimit = c20Int(r) + 1
			d.Limitation.AuthRequired = !d.Limitation.AuthRequired
			touched = append(touched, "Limitation.MaxLimit", "Limitation.AuthRequired")
		}
		if len(d.SupportedNIPs) > 0 && r.IntN(2) == 0 {
			d.SupportedNIPs[0]++
			d.SupportedNIPs = append(d.SupportedNIPs, r.IntN(100))
			touched = append(touched, "SupportedNIPs[i]")
		}
		if d.Fees != nil && len(d.Fees.Publication) > 0 && r.IntN(2) == 0 {
			d.Fees.Publication[0].Amount++
			d.Fees.Publication[0].Kinds = c20Kinds(r)
			touched = append(touched, "Fees.Publication[0]")
		}
		// whole exported fields taken from a fresh document (set, replaced or cleared)
		for i := 0; i < dv.NumField(); i++ {
			f := dv.Type().Field(i)
			if !f.IsExported() || r.IntN(5) != 0 {
				continue
			}
			if c20Diff(dv.Field(i), fv.Field(i), f.Name) == "" {
				continue
			}
			dv.Field(i).Set(fv.Field(i))
			touched = append(touched, f.Name)
		}
	}
	return touched
}

// changeAndFetch: n times (change the configured value; fetch the document; compare
// with the configuration as it is now).
func (g *c20Group) changeAndFetch(rep *vk.Report, r *rand.Rand, n int) {
	for step := 0; step < n; step++ {
		before := c20Snapshot(g.doc)
		touched := c20Change(r, g.doc)
		if c20DocDiff(before, g.doc) == "" {
			continue // the change cancelled itself
		}
		g.earlier = append(g.earlier, before)
		g.DocText, _ = c20Text(rand.New(rand.NewPCG(1, 1)), g.doc)
		g.Changes = append(g.Changes, strings.Join(touched, ","))
		for _, f := range touched {
			rep.Seen("changed_fields", f)
		}
		q := &c20Req{Case: fmt.Sprintf("g%d-change%d", g.Index, len(g.Changes)), Transport: vk.Pick(r, []string{"wire", "wire", "direct"}),
			Method: vk.Pick(r, []string{"GET", "GET", "POST", "OPTIONS"}), Path: vk.Pick(r, c20Paths), Upgrade: "none", Accept: "exact", Header: http.Header{}}
		q.Header.Set(c20CaseHeader, q.Case)
		q.Header.Set("Accept", "application/nostr+json")
		rep.Eval(1)
		rep.Nontrivial(fmt.Sprintf("change|%s|%s|%s|nth=%d", g.Config, strings.Join(touched, ","), q.Transport, len(g.Changes)))
		o := g.do(q)
		if o.Err != "" {
			rep.Inconclusive(fmt.Sprintf("request %s: transport error %s", q.Case, o.Err))
			continue
		}
		fs := g.judgeDoc(q, o)
		// a body that is an earlier configuration is named as such
		if got, e := c20RefReadBytes([]byte(o.Body)); e == "" && c20DocDiff(g.doc, got) != "" {
			for i := len(g.earlier) - 1; i >= 0; i-- {
				if c20DocDiff(g.earlier[i], got) == "" {
					var rest []c20Fault
					for _, f := range fs {
						if !strings.Contains(f.sig, "differs-from-configuration") {
							rest = append(rest, f)
						}
					}
					fs = append(rest, c20Fault{"nip11/stale-document-after-configuration-change", fmt.Sprintf("the configured NIP11 value was changed (%s) before this request, the answer is the document of %d change(s) ago", strings.Join(touched, ","), len(g.earlier)-i)})
					break
				}
			}
		}
		for _, f := range fs {
			rep.Violation(f.sig, f.what+" ["+g.Config+", "+q.Method+" "+q.Path+", after configuration change, "+q.Transport+"]", map[string]any{"group": g, "request": q, "observed": o, "previous_configuration": c20Flat(before)})
		}
		rep.Count("documents_compared_after_change", 1)
		g.seenServed(rep)
	}
}

// c20Flat renders a document without pointers for witnesses.
func c20Flat(d *mocrelay.NIP11) string {
	t, _ := c20Text(rand.New(rand.NewPCG(7, 7)), d)
	return t
}
