package sqlite

import (
	"context"
	"database/sql"
	"fmt"
	"math/rand/v2"
	"strings"
	"sync/atomic"
	"testing"

	"github.com/high-moctane/mocrelay"
	vk "github.com/high-moctane/mocrelay/internal/verifkit"
)

// C06 — SQLite store: each query equals the filter spec over stored, live events.

var verifDBSeq atomic.Int64

// openMemDB opens a private shared-cache in-memory database (one connection, so every
// statement sees the same database).
func openMemDB(t testing.TB) *sql.DB {
	name := fmt.Sprintf("file:verif_%d_%d?mode=memory&cache=shared", verifDBSeq.Add(1), vk.Seed())
	db, err := sql.Open("sqlite3", name)
	if err != nil {
		t.Fatalf("open: %v", err)
	}
	db.SetMaxOpenConns(1)
	return db
}

func shortEvs(R []*mocrelay.Event) []string {
	s := make([]string, len(R))
	for i, e := range R {
		s[i] = fmt.Sprintf("%.8s/k%d/%.4s/@%d", e.ID, e.Kind, e.Pubkey, e.CreatedAt)
	}
	return s
}

// sqlHistoryGen configures the shared history generator for the SQLite statements.
func sqlHistoryGen(r *rand.Rand) *vk.StoreGen {
	tr := int64(6)
	if r.IntN(2) == 0 {
		tr = 300
	}
	g := vk.NewStoreGen(r, 3, tr)
	g.UniquePerAddress = true
	g.HostileContent = true
	g.BigEvery = 80
	return g
}

// keyCollision reports two events that are different stored identities but share the
// 64-bit key of the schema (outside every statement; such histories are discarded).
func keyCollision(seed uint32, evs []*mocrelay.Event) bool {
	seen := map[int64]string{}
	for _, e := range evs {
		k, ok := getEventKey(seed, e)
		lk, ok2 := vk.LogicalKey(e)
		if !ok || !ok2 {
			continue
		}
		if o, dup := seen[k]; dup && o != lk {
			return true
		}
		seen[k] = lk
	}
	return false
}

func TestVerif_C06(t *testing.T) {
	rep := vk.NewReport(t, "C06", "exploration")
	rep.Rule = "batch histories (1-8 batches of 1-12 events; 3 authors; all event classes; duplicates inside and across batches; deletion requests before/after/with their targets, by id and by address, with relay-hint elements; hostile Unicode content incl. NUL and ~100 kB strings); after every batch a panel of filter lists (limit 0/1/2/3/1000/none, empty id/author/kind/#x lists, several #x, overlapping filters, since/until) is answered by queryEvent and judged against the query specification over the model's stored-and-live set (all seven fields compared); non-trivial = a query issued when the model holds a deleted or replaced event, or with a limit cutting the matches; distinct = distinct (filter shapes, live-set size, #deleted, answer size)"
	rep.Assume("two versions of one address never share a created_at; addressable events always carry a d tag; a tags reference addressable kinds only (sub-cases the statement leaves open)")
	defer rep.Finish()
	ctx := context.Background()
	n := vk.N(500, 10000)
	vk.Parallel(n, func(i int) {
		r := vk.RNG("C06", i)
		db := openMemDB(t)
		defer db.Close()
		if err := Migrate(ctx, db); err != nil {
			rep.Violation("migrate/error", err.Error(), nil)
			return
		}
		seed, err := setOrLoadXXHashSeed(ctx, db)
		if err != nil {
			rep.Violation("seed/error", err.Error(), nil)
			return
		}
		g := sqlHistoryGen(r)
		model := vk.NewSQLModel()
		var batches [][]*mocrelay.Event
		nb := 1 + r.IntN(8)
		for b := 0; b < nb; b++ {
			var batch []*mocrelay.Event
			nbatch := 1 + r.IntN(12)
			for k := 0; k < nbatch; k++ {
				e := g.Next()
				batch = append(batch, e)
			}
			batches = append(batches, batch)
			if keyCollision(seed, g.Offered) {
				rep.Count("histories_discarded_for_key_collision", 1)
				return
			}
			if err := insertEvents(ctx, db, seed, batch); err != nil {
				rep.Violation("insert/error", "insertEvents failed on a healthy database: "+err.Error(), map[string]any{"batches": batches})
				return
			}
			model.InsertBatch(batch)
			live := model.Live()
			stored := model.Stored()
			fg := &vk.FilterGen{R: r, Events: g.Offered, Authors: g.Authors, TimeLo: g.TimeBase, TimeHi: g.TimeBase + g.TimeRange}
			for q := 0; q < 10; q++ {
				var fs []*mocrelay.ReqFilter
				if q == 0 {
					fs = []*mocrelay.ReqFilter{{}}
				} else {
					fs = fg.Filters(3)
				}
				ans, err := queryEvent(ctx, db, seed, fs, NoLimit)
				rep.Eval(1)
				if err != nil {
					rep.Violation("query/error", "queryEvent failed: "+oneline(err.Error()), map[string]any{"batches": batches, "filters": fs})
					return
				}
				v := vk.CheckQuery(live, fs, ans)
				key := fmt.Sprintf("%d|%d|%d|%d|", len(live), len(stored)-len(live), len(ans), v.Ties)
				lim0 := false
				for _, f := range fs {
					key += fmt.Sprintf("%x,", fshape(f))
					if f.Limit != nil && *f.Limit == 0 {
						lim0 = true
					}
				}
				if lim0 {
					rep.Count("queries_with_limit_0", 1)
				}
				if len(stored) != len(live) || v.Ties > 0 || len(g.Offered) > len(stored) {
					rep.Nontrivial(key)
				}
				if len(stored) != len(live) {
					rep.Count("queries_with_deleted_events_present", 1)
				}
				if !v.OK {
					sig := classifySQLAnswer(v.Sig, lim0, model, g.Offered, ans)
					rep.Violation(sig, v.Why, map[string]any{"batches": batches, "filters": fs, "answer": shortEvs(ans), "live": shortEvs(live)})
					return
				}
				if q == 1 && len(ans) > 0 && rep.WantSample() {
					rep.Sample(map[string]any{"batch": shortEvs(batch), "filters": vk.JSON(fs), "answer": shortEvs(ans)})
				}
			}
		}
		rep.Count("histories", 1)
		rep.Count("large_contents", int64(g.BigMade))
	})
	rep.Require(rep.Counter("histories") >= int64(n*9/10), "too many histories discarded")
	rep.Require(rep.Counter("queries_with_deleted_events_present") > int64(n), "deleted events too rare")
	rep.Require(rep.Counter("queries_with_limit_0") > 50, "limit 0 too rare")
}

func oneline(s string) string {
	if len(s) > 300 {
		s = s[:300]
	}
	return strings.ReplaceAll(s, "\n", " ")
}

func fshape(f *mocrelay.ReqFilter) int {
	m := 0
	if f.IDs != nil {
		m |= 1
	}
	if f.Authors != nil {
		m |= 2
	}
	if f.Kinds != nil {
		m |= 4
	}
	if f.Tags != nil {
		m |= 8 * len(f.Tags)
	}
	if f.Since != nil {
		m |= 64
	}
	if f.Until != nil {
		m |= 128
	}
	if f.Limit != nil {
		m |= 256 << min(int(*f.Limit), 4)
	}
	return m
}

// classifySQLAnswer refines a query verdict so that different defects carry different
// signatures: a deleted event that is served, a replaced version that is served, a
// limit of 0 that does not limit.
func classifySQLAnswer(sig string, lim0 bool, model *vk.SQLModel, offered, ans []*mocrelay.Event) string {
	if lim0 && sig == "query/beyond-limit" {
		return "query/limit-0-returns-events"
	}
	if sig != "query/not-retained" {
		return sig
	}
	stored := map[string]bool{}
	for _, e := range model.Stored() {
		stored[e.ID] = true
	}
	live := map[string]bool{}
	for _, e := range model.Live() {
		live[e.ID] = true
	}
	off := map[string]*mocrelay.Event{}
	for _, e := range offered {
		off[e.ID] = e
	}
	for _, a := range ans {
		if live[a.ID] {
			continue
		}
		switch {
		case stored[a.ID]:
			return "query/deleted-event-returned"
		case off[a.ID] != nil && vk.ClassOf(a.Kind) == vk.Ephemeral:
			return "query/ephemeral-event-returned"
		case off[a.ID] != nil:
			return "query/replaced-version-returned"
		}
	}
	return sig
}
