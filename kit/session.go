package verifkit

import (
	"context"
	"time"

	"github.com/high-moctane/mocrelay"
)

// Session runs one ServeNostr call of a handler and gives the monitor the client side
// of its two channels.
type Session struct {
	Ctx    context.Context
	Cancel context.CancelFunc
	Recv   chan mocrelay.ClientMsg // client -> handler
	Send   chan mocrelay.ServerMsg // handler -> client
	Done   chan struct{}           // closed when ServeNostr returned
	Err    error
}

// StartSession starts h.ServeNostr on fresh channels (send buffered by sendBuf).
func StartSession(parent context.Context, h mocrelay.Handler, sendBuf int) *Session {
	ctx, cancel := context.WithCancel(parent)
	s := &Session{
		Ctx: ctx, Cancel: cancel,
		Recv: make(chan mocrelay.ClientMsg),
		Send: make(chan mocrelay.ServerMsg, sendBuf),
		Done: make(chan struct{}),
	}
	go func() {
		defer close(s.Done)
		s.Err = h.ServeNostr(ctx, s.Send, s.Recv)
	}()
	return s
}

// WaitBound is the generous bound for waiting on concurrent code; its expiry is never a
// verdict by itself.
const WaitBound = 20 * time.Second

// Put hands a client message to the handler.
func (s *Session) Put(m mocrelay.ClientMsg) bool { return s.PutWithin(m, WaitBound) }

// PutWithin offers a client message for at most d (a handler need not take input while
// its own output is blocked by the peer).
func (s *Session) PutWithin(m mocrelay.ClientMsg, d time.Duration) bool {
	t := time.NewTimer(d)
	defer t.Stop()
	select {
	case s.Recv <- m:
		return true
	case <-s.Done:
		return false
	case <-t.C:
		return false
	}
}

// Get receives the next server message.
func (s *Session) Get() (mocrelay.ServerMsg, bool) {
	return s.GetWithin(WaitBound)
}

func (s *Session) GetWithin(d time.Duration) (mocrelay.ServerMsg, bool) {
	t := time.NewTimer(d)
	defer t.Stop()
	select {
	case m := <-s.Send:
		return m, true
	case <-s.Done:
		// the session is over: only what is already queued can still arrive
		select {
		case m := <-s.Send:
			return m, true
		default:
			return nil, false
		}
	case <-t.C:
		return nil, false
	}
}

// Stop cancels the session and waits for ServeNostr to return.
func (s *Session) Stop() bool {
	s.Cancel()
	t := time.NewTimer(WaitBound)
	defer t.Stop()
	select {
	case <-s.Done:
		return true
	case <-t.C:
		return false
	}
}

// CloseRecv closes the inbound channel (the other way a session ends).
func (s *Session) CloseRecv() { close(s.Recv) }

// WaitDone waits for ServeNostr to return.
func (s *Session) WaitDone() bool {
	t := time.NewTimer(WaitBound)
	defer t.Stop()
	select {
	case <-s.Done:
		return true
	case <-t.C:
		return false
	}
}

// DescribeServerMsg renders a server message for witnesses.
func DescribeServerMsg(m mocrelay.ServerMsg) string {
	switch m := m.(type) {
	case *mocrelay.ServerEOSEMsg:
		return "EOSE " + m.SubscriptionID
	case *mocrelay.ServerEventMsg:
		id := ""
		if m.Event != nil {
			id = m.Event.ID
			if len(id) > 8 {
				id = id[:8]
			}
		}
		return "EVENT " + m.SubscriptionID + " " + id
	case *mocrelay.ServerOKMsg:
		id := m.EventID
		if len(id) > 8 {
			id = id[:8]
		}
		acc := "false"
		if m.Accepted {
			acc = "true"
		}
		return "OK " + id + " " + acc + " " + m.Message()
	case *mocrelay.ServerCountMsg:
		return "COUNT " + m.SubscriptionID
	case *mocrelay.ServerClosedMsg:
		return "CLOSED " + m.SubscriptionID + " " + m.Message()
	case *mocrelay.ServerNoticeMsg:
		return "NOTICE " + m.Message
	case *mocrelay.ServerAuthMsg:
		return "AUTH " + m.Challenge
	case nil:
		return "<nil>"
	}
	return "<unknown server message>"
}

// DescribeClientMsg renders a client message for witnesses.
func DescribeClientMsg(m mocrelay.ClientMsg) string {
	switch m := m.(type) {
	case *mocrelay.ClientEventMsg:
		return "EVENT " + JSON(ShortEvent(m.Event))
	case *mocrelay.ClientReqMsg:
		return "REQ " + m.SubscriptionID + " " + JSON(m.ReqFilters)
	case *mocrelay.ClientCountMsg:
		return "COUNT " + m.SubscriptionID + " " + JSON(m.ReqFilters)
	case *mocrelay.ClientCloseMsg:
		return "CLOSE " + m.SubscriptionID
	case *mocrelay.ClientAuthMsg:
		return "AUTH"
	}
	return "<unknown client message>"
}
