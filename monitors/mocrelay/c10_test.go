package mocrelay_test

import (
	"bufio"
	"bytes"
	"encoding/base64"
	"encoding/json"
	"fmt"
	"math/big"
	"math/rand/v2"
	"os"
	"path/filepath"
	"reflect"
	"runtime/debug"
	"sort"
	"strconv"
	"strings"
	"sync/atomic"
	"testing"

	"github.com/high-moctane/mocrelay"
	vk "github.com/high-moctane/mocrelay/internal/verifkit"
)

// C10 — wire codec: decoding never panics and either fails or yields a completely
// filled value of the type the label names; encode/decode round trips; decode-encode-
// decode is idempotent on every accepted text.
//
// Observation points: ParseClientMsg, json.Unmarshal into each of the 5 client and 7
// server message types, Event and ReqFilter, and the exported UnmarshalJSON methods
// called directly (what ParseClientMsg does with the raw frame).
//
// The oracle does not use the repository's decoders to know what a text means: texts
// are re-read with encoding/json into a generic tree and the decoded value is compared
// with that tree; generated values are compared with their decoded encoding by the
// equivalences below, written from the statement.
//
// Not claimed (statement silent / Go convention): a text whose top-level value is the
// JSON literal null decoded with json.Unmarshal (no-op by the json.Unmarshaler
// convention); JSON null in the place of a string/number/bool/object member (left as the
// zero value by encoding/json); a COUNT payload without a "count" member (Count 0);
// which well-formed texts must be accepted (C11).

// ---------------------------------------------------------------------------
// decoders under observation

type c10Decoder struct {
	name   string
	label  string // "" for Event and ReqFilter
	client bool
	fresh  func() any
}

var c10Decoders = []c10Decoder{
	{"Event", "", false, func() any { return new(mocrelay.Event) }},
	{"ReqFilter", "", false, func() any { return new(mocrelay.ReqFilter) }},
	{"ClientEventMsg", "EVENT", true, func() any { return new(mocrelay.ClientEventMsg) }},
	{"ClientReqMsg", "REQ", true, func() any { return new(mocrelay.ClientReqMsg) }},
	{"ClientCloseMsg", "CLOSE", true, func() any { return new(mocrelay.ClientCloseMsg) }},
	{"ClientAuthMsg", "AUTH", true, func() any { return new(mocrelay.ClientAuthMsg) }},
	{"ClientCountMsg", "COUNT", true, func() any { return new(mocrelay.ClientCountMsg) }},
	{"ServerEOSEMsg", "EOSE", false, func() any { return new(mocrelay.ServerEOSEMsg) }},
	{"ServerEventMsg", "EVENT", false, func() any { return new(mocrelay.ServerEventMsg) }},
	{"ServerNoticeMsg", "NOTICE", false, func() any { return new(mocrelay.ServerNoticeMsg) }},
	{"ServerOKMsg", "OK", false, func() any { return new(mocrelay.ServerOKMsg) }},
	{"ServerAuthMsg", "AUTH", false, func() any { return new(mocrelay.ServerAuthMsg) }},
	{"ServerCountMsg", "COUNT", false, func() any { return new(mocrelay.ServerCountMsg) }},
	{"ServerClosedMsg", "CLOSED", false, func() any { return new(mocrelay.ServerClosedMsg) }},
}

func c10DecoderByName(name string) *c10Decoder {
	for i := range c10Decoders {
		if c10Decoders[i].name == name {
			return &c10Decoders[i]
		}
	}
	return nil
}

func c10DecoderOfClientMsg(m mocrelay.ClientMsg) *c10Decoder {
	switch m.(type) {
	case *mocrelay.ClientEventMsg:
		return c10DecoderByName("ClientEventMsg")
	case *mocrelay.ClientReqMsg:
		return c10DecoderByName("ClientReqMsg")
	case *mocrelay.ClientCloseMsg:
		return c10DecoderByName("ClientCloseMsg")
	case *mocrelay.ClientAuthMsg:
		return c10DecoderByName("ClientAuthMsg")
	case *mocrelay.ClientCountMsg:
		return c10DecoderByName("ClientCountMsg")
	}
	return nil
}

const (
	c10ModeUnmarshal = "json.Unmarshal"
	c10ModeMethod    = "UnmarshalJSON"
	c10ModeParse     = "ParseClientMsg"
)

type c10Outcome struct {
	v     any
	err   error
	pan   any
	stack string
}

func c10Decode(d *c10Decoder, mode string, b []byte) (o c10Outcome) {
	defer func() {
		if p := recover(); p != nil {
			o.pan, o.stack = p, string(debug.Stack())
		}
	}()
	v := d.fresh()
	if mode == c10ModeMethod {
		o.err = v.(json.Unmarshaler).UnmarshalJSON(b)
	} else {
		o.err = json.Unmarshal(b, v)
	}
	o.v = v
	return
}

func c10Parse(b []byte) (m mocrelay.ClientMsg, o c10Outcome) {
	defer func() {
		if p := recover(); p != nil {
			o.pan, o.stack = p, string(debug.Stack())
		}
	}()
	m, o.err = mocrelay.ParseClientMsg(b)
	return
}

func c10Marshal(v any) (b []byte, o c10Outcome) {
	defer func() {
		if p := recover(); p != nil {
			o.pan, o.stack = p, string(debug.Stack())
		}
	}()
	b, o.err = json.Marshal(v)
	return
}

// ---------------------------------------------------------------------------
// equivalence of values (from the statement: OK/CLOSED by Message(); nil and empty are
// the same where the wire cannot tell them apart)

func c10StrsEq(a, b []string) bool {
	if len(a) != len(b) {
		return false
	}
	for i := range a {
		if a[i] != b[i] {
			return false
		}
	}
	return true
}

func c10PtrEq[T comparable](a, b *T) bool {
	if a == nil || b == nil {
		return a == b
	}
	return *a == *b
}

func c10FilterEq(a, b *mocrelay.ReqFilter) bool {
	if a == nil || b == nil {
		return a == b
	}
	// ids/authors/kinds: absent and empty are different on the wire ({} vs {"ids":[]})
	if (a.IDs == nil) != (b.IDs == nil) || (a.Authors == nil) != (b.Authors == nil) || (a.Kinds == nil) != (b.Kinds == nil) {
		return false
	}
	if !c10StrsEq(a.IDs, b.IDs) || !c10StrsEq(a.Authors, b.Authors) || len(a.Kinds) != len(b.Kinds) {
		return false
	}
	for i := range a.Kinds {
		if a.Kinds[i] != b.Kinds[i] {
			return false
		}
	}
	if len(a.Tags) != len(b.Tags) { // nil map == empty map: no "#x" member either way
		return false
	}
	for k, va := range a.Tags {
		vb, ok := b.Tags[k]
		if !ok || !c10StrsEq(va, vb) {
			return false
		}
	}
	return c10PtrEq(a.Since, b.Since) && c10PtrEq(a.Until, b.Until) && c10PtrEq(a.Limit, b.Limit)
}

func c10FiltersEq(a, b []*mocrelay.ReqFilter) bool {
	if len(a) != len(b) {
		return false
	}
	for i := range a {
		if !c10FilterEq(a[i], b[i]) {
			return false
		}
	}
	return true
}

func c10Equal(a, b any) bool {
	if reflect.TypeOf(a) != reflect.TypeOf(b) {
		return false
	}
	if reflect.ValueOf(a).IsNil() || reflect.ValueOf(b).IsNil() {
		return reflect.ValueOf(a).IsNil() && reflect.ValueOf(b).IsNil()
	}
	switch x := a.(type) {
	case *mocrelay.Event:
		return vk.EventsEqual(x, b.(*mocrelay.Event))
	case *mocrelay.ReqFilter:
		return c10FilterEq(x, b.(*mocrelay.ReqFilter))
	case *mocrelay.ClientEventMsg:
		return vk.EventsEqual(x.Event, b.(*mocrelay.ClientEventMsg).Event)
	case *mocrelay.ClientReqMsg:
		y := b.(*mocrelay.ClientReqMsg)
		return x.SubscriptionID == y.SubscriptionID && c10FiltersEq(x.ReqFilters, y.ReqFilters)
	case *mocrelay.ClientCloseMsg:
		return *x == *b.(*mocrelay.ClientCloseMsg)
	case *mocrelay.ClientAuthMsg:
		return vk.EventsEqual(x.Event, b.(*mocrelay.ClientAuthMsg).Event)
	case *mocrelay.ClientCountMsg:
		y := b.(*mocrelay.ClientCountMsg)
		return x.SubscriptionID == y.SubscriptionID && c10FiltersEq(x.ReqFilters, y.ReqFilters)
	case *mocrelay.ServerEOSEMsg:
		return *x == *b.(*mocrelay.ServerEOSEMsg)
	case *mocrelay.ServerEventMsg:
		y := b.(*mocrelay.ServerEventMsg)
		return x.SubscriptionID == y.SubscriptionID && vk.EventsEqual(x.Event, y.Event)
	case *mocrelay.ServerNoticeMsg:
		return *x == *b.(*mocrelay.ServerNoticeMsg)
	case *mocrelay.ServerOKMsg:
		y := b.(*mocrelay.ServerOKMsg)
		return x.EventID == y.EventID && x.Accepted == y.Accepted && x.MsgPrefix+x.Msg == y.MsgPrefix+y.Msg
	case *mocrelay.ServerAuthMsg:
		return *x == *b.(*mocrelay.ServerAuthMsg)
	case *mocrelay.ServerCountMsg:
		y := b.(*mocrelay.ServerCountMsg)
		return x.SubscriptionID == y.SubscriptionID && x.Count == y.Count && c10PtrEq(x.Approximate, y.Approximate)
	case *mocrelay.ServerClosedMsg:
		y := b.(*mocrelay.ServerClosedMsg)
		return x.SubscriptionID == y.SubscriptionID && x.MsgPrefix+x.Msg == y.MsgPrefix+y.Msg
	}
	return false
}

// ---------------------------------------------------------------------------
// "completely filled": the decoded value against the generic reading of the text

type c10Finding struct{ kind, path, what string }

type c10Chk struct {
	findings []c10Finding
	notes    map[string]int
}

func (c *c10Chk) add(kind, path, what string) {
	c.findings = append(c.findings, c10Finding{kind, path, what})
}

func (c *c10Chk) note(n string) {
	if c.notes == nil {
		c.notes = map[string]int{}
	}
	c.notes[n]++
}

// c10RefParse reads the first JSON value of the text with encoding/json (numbers kept
// as literals). It is the monitor's independent reading of what the text says.
func c10RefParse(b []byte) (tree any, ok bool) {
	dec := json.NewDecoder(bytes.NewReader(b))
	dec.UseNumber()
	if err := dec.Decode(&tree); err != nil {
		return nil, false
	}
	return tree, true
}

// c10Ord is a JSON object with its members in text order, repeated names included.
type c10Ord []struct {
	k string
	v any
}

func c10ReadOrdered(dec *json.Decoder) (any, error) {
	t, err := dec.Token()
	if err != nil {
		return nil, err
	}
	d, isDelim := t.(json.Delim)
	if !isDelim {
		return t, nil
	}
	switch d {
	case '[':
		a := []any{}
		for dec.More() {
			v, err := c10ReadOrdered(dec)
			if err != nil {
				return nil, err
			}
			a = append(a, v)
		}
		_, err := dec.Token()
		return a, err
	case '{':
		o := c10Ord{}
		for dec.More() {
			kt, err := dec.Token()
			if err != nil {
				return nil, err
			}
			k, _ := kt.(string)
			v, err := c10ReadOrdered(dec)
			if err != nil {
				return nil, err
			}
			o = append(o, struct {
				k string
				v any
			}{k, v})
		}
		_, err := dec.Token()
		return o, err
	}
	return nil, fmt.Errorf("unexpected delimiter %v", d)
}

var c10KnownMembers = map[string]bool{"id": true, "pubkey": true, "created_at": true, "kind": true, "tags": true, "content": true, "sig": true,
	"ids": true, "authors": true, "kinds": true, "since": true, "until": true, "limit": true, "count": true, "approximate": true}

func c10Resolve(t any, fold, first bool) any {
	switch x := t.(type) {
	case []any:
		a := make([]any, len(x))
		for i, e := range x {
			a[i] = c10Resolve(e, fold, first)
		}
		return a
	case c10Ord:
		m := map[string]any{}
		for _, p := range x {
			k := p.k
			if lk := strings.ToLower(k); fold && lk != k && c10KnownMembers[lk] {
				k = lk
			}
			if _, dup := m[k]; dup && first {
				continue
			}
			m[k] = c10Resolve(p.v, fold, first)
		}
		return m
	}
	return t
}

// c10RefAlternatives gives the other readings of a text with repeated member names or
// member names in another letter case: JSON leaves open which of several members with one
// name counts, and the statement does not fix how member names are matched. A decoded value
// is "what the text supplies" if it fits one reading applied throughout.
func c10RefAlternatives(b []byte) []any {
	dec := json.NewDecoder(bytes.NewReader(b))
	dec.UseNumber()
	t, err := c10ReadOrdered(dec)
	if err != nil {
		return nil
	}
	return []any{c10Resolve(t, false, true), c10Resolve(t, true, false), c10Resolve(t, true, true)}
}

// c10IntOf: the integer a JSON number literal denotes, or nil when it is not an integer
// (or too long to bother).
func c10IntOf(n json.Number) *big.Int {
	s := string(n)
	if v, err := strconv.ParseInt(s, 10, 64); err == nil {
		return big.NewInt(v)
	}
	if len(s) > 64 {
		return nil
	}
	if i := strings.IndexAny(s, "eE"); i >= 0 {
		if e, err := strconv.Atoi(s[i+1:]); err != nil || e > 100 || e < -100 {
			return nil
		}
	}
	rat, ok := new(big.Rat).SetString(s)
	if !ok || !rat.IsInt() {
		return nil
	}
	return rat.Num()
}

func (c *c10Chk) str(path string, present bool, x any, got string) {
	if !present {
		if got == "" {
			c.add("member-unfilled", path, "the text has no such member/element and the decoded field is empty")
		} else {
			c.note("filled_without_exact_member")
		}
		return
	}
	switch t := x.(type) {
	case nil:
		c.note("json_null_member_accepted")
	case string:
		if t != got {
			c.add("field-differs", path, fmt.Sprintf("text says %q, decoded %q", c10Clip(t), c10Clip(got)))
		}
	default:
		if got == "" {
			c.add("member-unfilled", path, fmt.Sprintf("the text holds a %T there and the decoded field is empty", x))
		} else {
			c.note("filled_from_other_type")
		}
	}
}

func (c *c10Chk) integer(path string, present bool, x any, got *big.Int) {
	if !present {
		if got.Sign() == 0 {
			c.add("member-unfilled", path, "the text has no such member and the decoded field is 0")
		} else {
			c.note("filled_without_exact_member")
		}
		return
	}
	switch t := x.(type) {
	case nil:
		c.note("json_null_member_accepted")
	case json.Number:
		want := c10IntOf(t)
		if want == nil {
			c.note("non_integer_literal_accepted")
		} else if want.Cmp(got) != 0 {
			c.add("field-differs", path, fmt.Sprintf("text says %s, decoded %s", c10Clip(string(t)), got))
		}
	default:
		if got.Sign() == 0 {
			c.add("member-unfilled", path, fmt.Sprintf("the text holds a %T there and the decoded field is 0", x))
		} else {
			c.note("filled_from_other_type")
		}
	}
}

func c10AllStrings(x any) ([]string, bool) {
	a, ok := x.([]any)
	if !ok {
		return nil, false
	}
	out := make([]string, len(a))
	for i, e := range a {
		s, ok := e.(string)
		if !ok {
			return nil, false
		}
		out[i] = s
	}
	return out, true
}

func c10HasNull(x any) bool {
	switch t := x.(type) {
	case nil:
		return true
	case []any:
		for _, e := range t {
			if c10HasNull(e) {
				return true
			}
		}
	}
	return false
}

func (c *c10Chk) event(path string, present bool, x any, ev *mocrelay.Event) {
	if ev == nil {
		c.add("nil-event", path, "decoding succeeded but the event pointer is nil")
		return
	}
	if present && x == nil {
		c.note("json_null_member_accepted")
		return
	}
	obj, _ := x.(map[string]any) // absent or a non-object: every member counts as absent
	if present && obj == nil {
		c.note("non_object_accepted_as_event")
	}
	m := func(k string) (any, bool) { v, ok := obj[k]; return v, ok }
	p := path
	if p != "" {
		p += "."
	}
	v, ok := m("id")
	c.str(p+"id", ok, v, ev.ID)
	v, ok = m("pubkey")
	c.str(p+"pubkey", ok, v, ev.Pubkey)
	v, ok = m("sig")
	c.str(p+"sig", ok, v, ev.Sig)
	v, ok = m("created_at")
	c.integer(p+"created_at", ok, v, big.NewInt(ev.CreatedAt))
	v, ok = m("kind")
	c.integer(p+"kind", ok, v, big.NewInt(ev.Kind))
	// content may legitimately be "", so only a differing or missing member is reported
	v, ok = m("content")
	if !ok {
		if ev.Content == "" {
			c.add("member-unfilled", p+"content", "the text has no content member")
		}
	} else if s, is := v.(string); is {
		if s != ev.Content {
			c.add("field-differs", p+"content", fmt.Sprintf("text says %q, decoded %q", c10Clip(s), c10Clip(ev.Content)))
		}
	} else if v == nil {
		c.note("json_null_member_accepted")
	} else if ev.Content == "" {
		c.add("member-unfilled", p+"content", fmt.Sprintf("the text holds a %T there and the decoded content is empty", v))
	}
	v, ok = m("tags")
	switch {
	case !ok:
		if ev.Tags == nil {
			c.add("member-unfilled", p+"tags", "the text has no tags member and the decoded tags are nil")
		}
	case c10HasNull(v):
		c.note("json_null_member_accepted")
	default:
		good := false
		if a, is := v.([]any); is {
			good = true
			if len(a) != len(ev.Tags) {
				c.add("field-differs", p+"tags", fmt.Sprintf("text has %d tags, decoded %d", len(a), len(ev.Tags)))
				break
			}
			for i, e := range a {
				ss, is := c10AllStrings(e)
				if !is {
					good = false
					break
				}
				if !c10StrsEq(ss, ev.Tags[i]) {
					c.add("field-differs", p+"tags", fmt.Sprintf("tag %d: text says %q, decoded %q", i, ss, []string(ev.Tags[i])))
					break
				}
			}
		}
		if !good {
			if ev.Tags == nil {
				c.add("member-unfilled", p+"tags", "the text's tags member is not an array of string arrays and the decoded tags are nil")
			} else {
				c.note("filled_from_other_type")
			}
		}
	}
}

func (c *c10Chk) strList(path string, x any, got []string) {
	if x == nil {
		c.note("json_null_member_accepted")
		return
	}
	if c10HasNull(x) {
		c.note("json_null_member_accepted")
		return
	}
	want, ok := c10AllStrings(x)
	if !ok {
		if got == nil {
			c.add("member-unfilled", path, fmt.Sprintf("the text holds a %T (not a string array) there and the decoded field is absent", x))
		} else {
			c.note("filled_from_other_type")
		}
		return
	}
	if got == nil {
		c.add("member-unfilled", path, "the text has the member, the decoded field is absent (nil)")
	} else if !c10StrsEq(want, got) {
		c.add("field-differs", path, fmt.Sprintf("text says %q, decoded %q", want, got))
	}
}

func (c *c10Chk) intPtr(path string, x any, got *int64) {
	if x == nil {
		c.note("json_null_member_accepted")
		return
	}
	n, ok := x.(json.Number)
	if !ok {
		if got == nil {
			c.add("member-unfilled", path, fmt.Sprintf("the text holds a %T there and the decoded field is absent", x))
		} else {
			c.note("filled_from_other_type")
		}
		return
	}
	if got == nil {
		c.add("member-unfilled", path, "the text has the member, the decoded field is absent (nil)")
		return
	}
	if want := c10IntOf(n); want == nil {
		c.note("non_integer_literal_accepted")
	} else if want.Cmp(big.NewInt(*got)) != 0 {
		c.add("field-differs", path, fmt.Sprintf("text says %s, decoded %d", c10Clip(string(n)), *got))
	}
}

func c10TagKey(k string) bool {
	return len(k) == 2 && k[0] == '#' && (k[1] >= 'a' && k[1] <= 'z' || k[1] >= 'A' && k[1] <= 'Z')
}

func (c *c10Chk) filter(path string, present bool, x any, f *mocrelay.ReqFilter) {
	if f == nil {
		c.add("nil-filter", path, "decoding succeeded but a filter pointer is nil")
		return
	}
	if !present || x == nil {
		if present {
			c.note("json_null_member_accepted")
		}
		return
	}
	obj, ok := x.(map[string]any)
	if !ok {
		c.add("not-an-object", path, fmt.Sprintf("a %T was accepted as a filter", x))
		return
	}
	p := path
	if p != "" {
		p += "."
	}
	keys := make([]string, 0, len(obj))
	for k := range obj {
		keys = append(keys, k)
	}
	sort.Strings(keys)
	for _, k := range keys {
		v := obj[k]
		switch {
		case k == "ids":
			c.strList(p+"ids", v, f.IDs)
		case k == "authors":
			c.strList(p+"authors", v, f.Authors)
		case k == "kinds":
			if v == nil || c10HasNull(v) {
				c.note("json_null_member_accepted")
				break
			}
			a, ok := v.([]any)
			good := ok
			var want []*big.Int
			for _, e := range a {
				n, is := e.(json.Number)
				if !is {
					good = false
					break
				}
				want = append(want, c10IntOf(n))
			}
			switch {
			case !good && f.Kinds == nil:
				c.add("member-unfilled", p+"kinds", "the text's kinds member is not a number array and the decoded field is absent")
			case !good:
				c.note("filled_from_other_type")
			case f.Kinds == nil:
				c.add("member-unfilled", p+"kinds", "the text has the member, the decoded field is absent (nil)")
			case len(want) != len(f.Kinds):
				c.add("field-differs", p+"kinds", fmt.Sprintf("text has %d kinds, decoded %d", len(want), len(f.Kinds)))
			default:
				for i, w := range want {
					if w == nil {
						c.note("non_integer_literal_accepted")
					} else if w.Cmp(big.NewInt(f.Kinds[i])) != 0 {
						c.add("field-differs", p+"kinds", fmt.Sprintf("kind %d: text says %s, decoded %d", i, w, f.Kinds[i]))
						break
					}
				}
			}
		case k == "since":
			c.intPtr(p+"since", v, f.Since)
		case k == "until":
			c.intPtr(p+"until", v, f.Until)
		case k == "limit":
			c.intPtr(p+"limit", v, f.Limit)
		case c10TagKey(k):
			got, has := f.Tags[k[1:]]
			if !has {
				got = nil
			}
			c.strList(p+"#tag", v, got)
		}
	}
}

func c10Elem(arr []any, i int) (any, bool) {
	if i < len(arr) {
		return arr[i], true
	}
	return nil, false
}

// c10Filled compares a successfully decoded value with the tree of its text.
func c10Filled(d *c10Decoder, tree any, v any) *c10Chk {
	c := &c10Chk{}
	switch m := v.(type) {
	case *mocrelay.Event:
		if _, ok := tree.(map[string]any); !ok {
			c.add("not-an-object", "", fmt.Sprintf("a %T was accepted as an event", tree))
			return c
		}
		c.event("", true, tree, m)
		return c
	case *mocrelay.ReqFilter:
		c.filter("", true, tree, m)
		return c
	}
	arr, ok := tree.([]any)
	if !ok {
		c.add("not-an-array", "", fmt.Sprintf("a %T was accepted as a %s message", tree, d.label))
		return c
	}
	if l, ok := c10Elem(arr, 0); !ok {
		c.add("label-mismatch", "[0]", "a text without a label was accepted as "+d.name)
	} else if s, is := l.(string); !is || s != d.label {
		c.add("label-mismatch", "[0]", fmt.Sprintf("a text labelled %v was accepted as %s", c10Clip(fmt.Sprint(l)), d.name))
	}
	filters := func(sub string, fs []*mocrelay.ReqFilter) {
		e, ok := c10Elem(arr, 1)
		c.str("[1]", ok, e, sub)
		if want := len(arr) - 2; want >= 0 && len(fs) != want {
			c.add("filter-count", "[2:]", fmt.Sprintf("text has %d filters, decoded %d", want, len(fs)))
			return
		}
		for i, f := range fs {
			e, ok := c10Elem(arr, i+2)
			c.filter("filter", ok, e, f)
		}
	}
	switch m := v.(type) {
	case *mocrelay.ClientEventMsg:
		e, ok := c10Elem(arr, 1)
		c.event("[1]", ok, e, m.Event)
	case *mocrelay.ClientAuthMsg:
		e, ok := c10Elem(arr, 1)
		c.event("[1]", ok, e, m.Event)
	case *mocrelay.ClientReqMsg:
		filters(m.SubscriptionID, m.ReqFilters)
	case *mocrelay.ClientCountMsg:
		filters(m.SubscriptionID, m.ReqFilters)
	case *mocrelay.ClientCloseMsg:
		e, ok := c10Elem(arr, 1)
		c.str("[1]", ok, e, m.SubscriptionID)
	case *mocrelay.ServerEOSEMsg:
		e, ok := c10Elem(arr, 1)
		c.str("[1]", ok, e, m.SubscriptionID)
	case *mocrelay.ServerNoticeMsg:
		e, ok := c10Elem(arr, 1)
		c.strMaybeEmpty("[1]", ok, e, m.Message)
	case *mocrelay.ServerAuthMsg:
		e, ok := c10Elem(arr, 1)
		c.strMaybeEmpty("[1]", ok, e, m.Challenge)
	case *mocrelay.ServerEventMsg:
		e, ok := c10Elem(arr, 1)
		c.str("[1]", ok, e, m.SubscriptionID)
		e, ok = c10Elem(arr, 2)
		c.event("[2]", ok, e, m.Event)
	case *mocrelay.ServerOKMsg:
		e, ok := c10Elem(arr, 1)
		c.str("[1]", ok, e, m.EventID)
		e, ok = c10Elem(arr, 2)
		switch t := e.(type) {
		case bool:
			if t != m.Accepted {
				c.add("field-differs", "[2]", fmt.Sprintf("text says %v, decoded %v", t, m.Accepted))
			}
		case nil:
			if !ok {
				c.add("member-unfilled", "[2]", "the text has no accepted flag")
			} else {
				c.note("json_null_member_accepted")
			}
		default:
			if !m.Accepted {
				c.add("member-unfilled", "[2]", fmt.Sprintf("the text holds a %T there", e))
			}
		}
		e, ok = c10Elem(arr, 3)
		c.strMaybeEmpty("[3]", ok, e, m.MsgPrefix+m.Msg)
	case *mocrelay.ServerClosedMsg:
		e, ok := c10Elem(arr, 1)
		c.str("[1]", ok, e, m.SubscriptionID)
		e, ok = c10Elem(arr, 2)
		c.strMaybeEmpty("[2]", ok, e, m.MsgPrefix+m.Msg)
	case *mocrelay.ServerCountMsg:
		e, ok := c10Elem(arr, 1)
		c.str("[1]", ok, e, m.SubscriptionID)
		e, ok = c10Elem(arr, 2)
		switch p := e.(type) {
		case nil:
			if !ok {
				c.add("member-unfilled", "[2]", "the text has no payload")
			} else {
				c.note("json_null_member_accepted")
			}
		case map[string]any:
			ambiguous := false // encoding/json matches struct members case-insensitively
			for k := range p {
				if k != "count" && strings.EqualFold(k, "count") || k != "approximate" && strings.EqualFold(k, "approximate") {
					ambiguous = true
				}
			}
			if ambiguous {
				c.note("count_payload_case_variant_keys")
				break
			}
			// a payload without "count" decodes to Count 0: ruled not claimed (a defaultable
			// scalar member, the encoding/json convention); observed and counted only
			if cv, has := p["count"]; has {
				c.integer("[2].count", true, cv, new(big.Int).SetUint64(m.Count))
			} else {
				c.note("count_payload_without_count_member")
			}
			if av, has := p["approximate"]; has {
				switch t := av.(type) {
				case nil:
					c.note("json_null_member_accepted")
				case bool:
					if m.Approximate == nil {
						c.add("member-unfilled", "[2].approximate", "the text has the member, the decoded field is absent (nil)")
					} else if *m.Approximate != t {
						c.add("field-differs", "[2].approximate", fmt.Sprintf("text says %v, decoded %v", t, *m.Approximate))
					}
				default:
					if m.Approximate == nil {
						c.add("member-unfilled", "[2].approximate", fmt.Sprintf("the text holds a %T there", av))
					}
				}
			}
		default:
			c.add("not-an-object", "[2]", fmt.Sprintf("a %T was accepted as the COUNT payload", e))
		}
	}
	return c
}

// strMaybeEmpty: free-text positions (notice, challenge, OK/CLOSED message) may be "".
func (c *c10Chk) strMaybeEmpty(path string, present bool, x any, got string) {
	if !present {
		if got == "" {
			c.add("member-unfilled", path, "the text has no such element")
		}
		return
	}
	switch t := x.(type) {
	case nil:
		c.note("json_null_member_accepted")
	case string:
		if t != got {
			c.add("field-differs", path, fmt.Sprintf("text says %q, decoded %q", c10Clip(t), c10Clip(got)))
		}
	default:
		if got == "" {
			c.add("member-unfilled", path, fmt.Sprintf("the text holds a %T there and the decoded field is empty", x))
		}
	}
}

func c10Clip(s string) string {
	if len(s) > 120 {
		return s[:120] + "..."
	}
	return s
}

// ---------------------------------------------------------------------------
// one input through the observation points

type c10Input struct {
	text []byte
	home string // decoder the seed belongs to ("" = none)
	mut  string // how it was produced
	seed bool   // derived from a valid text (near miss) rather than soup
	all  bool   // run through every decoder in both modes
}

func c10Witness(in *c10Input, decoder, mode string, extra map[string]any) map[string]any {
	w := map[string]any{
		"input_b64": base64.StdEncoding.EncodeToString(in.text), "input_quoted": c10Clip(strconv.QuoteToASCII(string(in.text))),
		"input_len": len(in.text), "decoder": decoder, "mode": mode, "produced_by": in.mut, "seed_type": in.home,
		"replay": "/verif/check C10 --replay <this file> decodes input_b64 with every decoder again",
	}
	for k, v := range extra {
		w[k] = v
	}
	return w
}

var c10Digits = strings.NewReplacer("0", "#", "1", "#", "2", "#", "3", "#", "4", "#", "5", "#", "6", "#", "7", "#", "8", "#", "9", "#")

// c10ErrClass normalises an error text into a class (a cheap proxy for decoder paths).
func c10ErrClass(err error) string {
	s := err.Error()
	if i := strings.Index(s, " but got "); i >= 0 {
		s = s[:i+9]
	}
	if i := strings.Index(s, "invalid member: "); i >= 0 {
		s = s[:i+16]
	}
	if i := strings.Index(s, "invalid character "); i >= 0 {
		j := strings.Index(s[i:], "' ")
		if j > 0 {
			s = s[:i+18] + "'?'" + s[i+j+1:]
		}
	}
	if i := strings.Index(s, "unknown field "); i >= 0 {
		s = s[:i+14]
	}
	if i := strings.Index(s, "parsing \""); i >= 0 {
		s = s[:i+9]
	}
	s = c10Digits.Replace(s)
	for strings.Contains(s, "##") {
		s = strings.ReplaceAll(s, "##", "#")
	}
	if len(s) > 140 {
		s = s[:140]
	}
	return s
}

// c10Run accumulates the counters of one batch locally (the report's mutex is too hot
// for millions of decodes under the race detector) and flushes them at the batch end.
type c10Run struct {
	rep    *vk.Report
	counts map[string]int64
	seen   map[string]map[string]struct{}
	keys   map[string]struct{}
	evals  int
	// prevValue: per type, the value encoded last by this worker (for the aliasing check)
	prevValue map[string]any
}

func c10NewRun(rep *vk.Report) *c10Run {
	return &c10Run{rep: rep, counts: map[string]int64{}, seen: map[string]map[string]struct{}{}, keys: map[string]struct{}{}}
}

func (c *c10Run) Count(name string, n int64) { c.counts[name] += n }
func (c *c10Run) Eval(n int)                 { c.evals += n }
func (c *c10Run) Nontrivial(key string)      { c.keys[key] = struct{}{} }
func (c *c10Run) Seen(set, member string) {
	m := c.seen[set]
	if m == nil {
		m = map[string]struct{}{}
		c.seen[set] = m
	}
	m[member] = struct{}{}
}
func (c *c10Run) Violation(sig, what string, w any) { c.rep.Violation(sig, what, w) }
func (c *c10Run) WantSample() bool                  { return c.rep.WantSample() }
func (c *c10Run) Sample(v any)                      { c.rep.Sample(v) }

func (c *c10Run) flush() {
	for k, n := range c.counts {
		c.rep.Count(k, n)
	}
	for set, m := range c.seen {
		for member := range m {
			c.rep.Seen(set, member)
		}
	}
	for k := range c.keys {
		c.rep.Nontrivial(k)
	}
	c.rep.Eval(c.evals)
}

// judge: a decoder accepted the text. Checks "completely filled" and decode-encode-decode.
func (c *c10Run) judge(in *c10Input, d *c10Decoder, mode string, v any, tree any, treeOK bool) {
	rep := c
	rep.Count("accepted", 1)
	rep.Count("accepted/"+d.name, 1)
	if !treeOK {
		rep.Count("not_claimed/accepted_text_unreadable_by_reference", 1)
	} else if tree == nil {
		// the text is the JSON literal null: json.Unmarshal convention, not claimed
		rep.Count("not_claimed/toplevel_null_noop", 1)
		return
	} else {
		chk := c10Filled(d, tree, v)
		if len(chk.findings) > 0 {
			for _, alt := range c10RefAlternatives(in.text) {
				if c2 := c10Filled(d, alt, v); len(c2.findings) == 0 {
					chk = c2
					rep.Count("not_claimed/repeated_or_other_case_member_names_read_differently", 1)
					break
				}
			}
		}
		for n, k := range chk.notes {
			rep.Count("not_claimed/"+n, int64(k))
		}
		if len(chk.findings) > 0 {
			f := chk.findings[0]
			rep.Violation("filled/"+d.name+"/"+f.kind+":"+f.path,
				fmt.Sprintf("%s via %s accepted the text but the value is not what the text supplies: %s %s", d.name, mode, f.path, f.what),
				c10Witness(in, d.name, mode, map[string]any{"decoded": c10Show(v), "findings": fmt.Sprint(chk.findings)}))
			return
		}
	}
	// decode-encode-decode
	enc, mo := c10Marshal(v)
	if mo.pan != nil {
		rep.Violation("reencode/"+d.name+"/encode-panic", fmt.Sprintf("encoding the decoded value panicked: %v", mo.pan),
			c10Witness(in, d.name, mode, map[string]any{"stack": mo.stack}))
		return
	}
	if mo.err != nil {
		rep.Violation("reencode/"+d.name+"/encode-error", "encoding the decoded value failed: "+mo.err.Error(),
			c10Witness(in, d.name, mode, map[string]any{"decoded": fmt.Sprintf("%+v", v)}))
		return
	}
	o2 := c10Decode(d, c10ModeUnmarshal, enc)
	switch {
	case o2.pan != nil:
		rep.Violation("panic/"+d.name, fmt.Sprintf("decoding the re-encoded text panicked: %v", o2.pan),
			c10Witness(in, d.name, mode, map[string]any{"reencoded": string(enc), "stack": o2.stack}))
	case o2.err != nil:
		rep.Violation("reencode/"+d.name+"/rejects-own-encoding", "decode(encode(decode(t))) fails: "+o2.err.Error(),
			c10Witness(in, d.name, mode, map[string]any{"reencoded": string(enc)}))
	case !c10Equal(v, o2.v):
		rep.Violation("reencode/"+d.name+"/value-changed", "decode(encode(decode(t))) differs from decode(t)",
			c10Witness(in, d.name, mode, map[string]any{"first": c10Show(v), "reencoded": string(enc), "second": c10Show(o2.v)}))
	default:
		rep.Count("reencode_roundtrips", 1)
	}
	if d.client {
		m, po := c10Parse(enc)
		switch {
		case po.pan != nil:
			rep.Violation("panic/ParseClientMsg", fmt.Sprintf("parsing the re-encoded text panicked: %v", po.pan),
				c10Witness(in, d.name, mode, map[string]any{"reencoded": string(enc), "stack": po.stack}))
		case po.err != nil:
			rep.Violation("reencode/"+d.name+"/parse-rejects-own-encoding", "ParseClientMsg(encode(decode(t))) fails: "+po.err.Error(),
				c10Witness(in, d.name, mode, map[string]any{"reencoded": string(enc)}))
		case m == nil || reflect.TypeOf(m) != reflect.TypeOf(v) || !c10Equal(v, m):
			rep.Violation("reencode/"+d.name+"/parse-value-changed", "ParseClientMsg(encode(decode(t))) differs from decode(t)",
				c10Witness(in, d.name, mode, map[string]any{"first": c10Show(v), "reencoded": string(enc), "second": c10Show(m)}))
		}
	}
}

func (c *c10Run) one(in *c10Input, d *c10Decoder, mode string, tree *any, treeOK *int) {
	rep := c
	o := c10Decode(d, mode, in.text)
	rep.Count("decodes", 1)
	key := d.name + "|" + mode + "|" + in.mut + "|"
	switch {
	case o.pan != nil:
		rep.Violation("panic/"+d.name, fmt.Sprintf("%s via %s panicked: %v", d.name, mode, o.pan),
			c10Witness(in, d.name, mode, map[string]any{"stack": o.stack}))
		key += "panic"
	case o.err != nil:
		cls := c10ErrClass(o.err)
		rep.Seen("error_classes", d.name+": "+cls)
		rep.Count("rejected", 1)
		key += cls
	default:
		if *treeOK == 0 {
			t, ok := c10RefParse(in.text)
			*tree = t
			*treeOK = 2
			if ok {
				*treeOK = 1
			}
		}
		c.judge(in, d, mode, o.v, *tree, *treeOK == 1)
		key += "ok"
	}
	if in.seed || o.err == nil {
		rep.Nontrivial(key)
	}
}

func c10ExpectedClientType(label string) reflect.Type {
	switch label {
	case "EVENT":
		return reflect.TypeOf(&mocrelay.ClientEventMsg{})
	case "REQ":
		return reflect.TypeOf(&mocrelay.ClientReqMsg{})
	case "CLOSE":
		return reflect.TypeOf(&mocrelay.ClientCloseMsg{})
	case "AUTH":
		return reflect.TypeOf(&mocrelay.ClientAuthMsg{})
	case "COUNT":
		return reflect.TypeOf(&mocrelay.ClientCountMsg{})
	}
	return nil
}

func (c *c10Run) parse(in *c10Input, tree *any, treeOK *int) {
	rep := c
	m, o := c10Parse(in.text)
	rep.Count("decodes", 1)
	key := "ParseClientMsg||" + in.mut + "|"
	switch {
	case o.pan != nil:
		rep.Violation("panic/ParseClientMsg", fmt.Sprintf("ParseClientMsg panicked: %v", o.pan),
			c10Witness(in, "ParseClientMsg", c10ModeParse, map[string]any{"stack": o.stack}))
		key += "panic"
	case o.err != nil:
		cls := c10ErrClass(o.err)
		rep.Seen("error_classes", "ParseClientMsg: "+cls)
		rep.Count("rejected", 1)
		key += cls
	default:
		key += "ok"
		rep.Count("accepted/ParseClientMsg", 1)
		if m == nil || reflect.ValueOf(m).Kind() != reflect.Pointer || reflect.ValueOf(m).IsNil() {
			rep.Violation("parse/nil-message-without-error", "ParseClientMsg returned no error and no message",
				c10Witness(in, "ParseClientMsg", c10ModeParse, map[string]any{"returned": fmt.Sprintf("%#v", m)}))
			break
		}
		d := c10DecoderOfClientMsg(m)
		if d == nil {
			rep.Violation("parse/unknown-message-type", fmt.Sprintf("ParseClientMsg returned a %T", m),
				c10Witness(in, "ParseClientMsg", c10ModeParse, nil))
			break
		}
		if *treeOK == 0 {
			t, ok := c10RefParse(in.text)
			*tree = t
			*treeOK = 2
			if ok {
				*treeOK = 1
			}
		}
		if *treeOK == 1 {
			if arr, ok := (*tree).([]any); ok && len(arr) > 0 {
				if l, ok := arr[0].(string); ok {
					if want := c10ExpectedClientType(l); want != reflect.TypeOf(m) || m.ClientMsgLabel() != l {
						rep.Violation("parse/type-differs-from-label", fmt.Sprintf("the text is labelled %q, ParseClientMsg returned a %T with label %q", c10Clip(l), m, m.ClientMsgLabel()),
							c10Witness(in, "ParseClientMsg", c10ModeParse, nil))
						break
					}
				}
			}
		}
		c.judge(in, d, c10ModeParse, m, *tree, *treeOK == 1)
	}
	if in.seed || o.err == nil {
		rep.Nontrivial(key)
	}
}

// run sends one input through its decoders: ParseClientMsg, its home decoder in both
// modes, one other decoder picked by the case RNG; every decoder in both modes when in.all.
func (c *c10Run) run(r *rand.Rand, in *c10Input) {
	var tree any
	treeOK := 0
	c.Eval(1)
	c.Count("inputs_by/"+in.mut, 1)
	c.parse(in, &tree, &treeOK)
	if in.all {
		for i := range c10Decoders {
			c.one(in, &c10Decoders[i], c10ModeUnmarshal, &tree, &treeOK)
			c.one(in, &c10Decoders[i], c10ModeMethod, &tree, &treeOK)
		}
		return
	}
	if d := c10DecoderByName(in.home); d != nil {
		c.one(in, d, c10ModeUnmarshal, &tree, &treeOK)
		c.one(in, d, c10ModeMethod, &tree, &treeOK)
	}
	for k := 0; k < 1; k++ {
		d := &c10Decoders[r.IntN(len(c10Decoders))]
		mode := c10ModeUnmarshal
		if r.IntN(2) == 0 {
			mode = c10ModeMethod
		}
		c.one(in, d, mode, &tree, &treeOK)
	}
}

// ---------------------------------------------------------------------------
// in-flight batch files: the inputs of a batch are on disk before the batch runs, so a
// process-fatal error (stack exhaustion, runtime throw) is attributable. The file is
// removed when the batch ends.

var c10InflightWritten atomic.Int64

func c10InflightPath(stream string, batch int) string {
	dir := os.Getenv("VERIF_OUT")
	if dir == "" {
		dir = os.TempDir()
	}
	tag := os.Getenv("VERIF_TAG")
	if tag == "" {
		tag = fmt.Sprintf("C10.%d", os.Getpid())
	}
	return filepath.Join(dir, fmt.Sprintf("%s.inflight.%s-%d.txt", tag, stream, batch))
}

func c10WriteInflight(stream string, batch int, ins []*c10Input) string {
	path := c10InflightPath(stream, batch)
	f, err := os.Create(path)
	if err != nil {
		return ""
	}
	w := bufio.NewWriter(f)
	fmt.Fprintf(w, "# property=C10 seed=%d tier=%s stream=%s batch=%d inputs=%d (one Go-quoted input per line, then producer and seed type)\n",
		vk.Seed(), vk.Tier(), stream, batch, len(ins))
	for _, in := range ins {
		w.WriteString(strconv.QuoteToASCII(string(in.text)))
		w.WriteByte('\t')
		w.WriteString(in.mut)
		w.WriteByte('\t')
		w.WriteString(in.home)
		w.WriteByte('\n')
	}
	w.Flush()
	f.Close()
	c10InflightWritten.Add(1)
	return path
}

func (c *c10Run) batch(stream string, bi int, r *rand.Rand, ins []*c10Input) {
	defer c.flush()
	path := c10WriteInflight(stream, bi, ins)
	for _, in := range ins {
		c.run(r, in)
	}
	if path != "" {
		os.Remove(path)
	}
}

// ---------------------------------------------------------------------------
// seeds from testdata

type c10Seed struct {
	text  []byte
	home  string
	valid bool
}

var c10TestdataHomes = map[string]string{
	"clientauthmsgs": "ClientAuthMsg", "clientclosemsgs": "ClientCloseMsg", "clientcountmsgs": "ClientCountMsg",
	"clienteventmsgs": "ClientEventMsg", "clientreqmsgs": "ClientReqMsg", "events": "Event", "reqfilter": "ReqFilter",
	"serverauthmsgs": "ServerAuthMsg", "serverclosedmsgs": "ServerClosedMsg", "servercountmsgs": "ServerCountMsg",
	"servereosemsgs": "ServerEOSEMsg", "servereventmsgs": "ServerEventMsg", "servernoticemsgs": "ServerNoticeMsg",
	"serverokmsgs": "ServerOKMsg",
}

func c10LoadTestdata() []c10Seed {
	repo := os.Getenv("VERIF_REPO")
	if repo == "" {
		repo = "/repo"
	}
	files, _ := filepath.Glob(filepath.Join(repo, "testdata", "*.jsonl"))
	sort.Strings(files)
	var out []c10Seed
	for _, fn := range files {
		base := strings.TrimSuffix(filepath.Base(fn), ".jsonl")
		i := strings.LastIndex(base, "_")
		if i < 0 {
			continue
		}
		home, ok := c10TestdataHomes[base[:i]]
		if !ok {
			continue
		}
		b, err := os.ReadFile(fn)
		if err != nil {
			continue
		}
		for _, line := range bytes.Split(b, []byte("\n")) {
			if len(bytes.TrimSpace(line)) == 0 {
				continue
			}
			out = append(out, c10Seed{append([]byte(nil), line...), home, base[i+1:] == "valid"})
		}
	}
	return out
}

// c10LongHistory: a decoder serves a process for its whole life. One goroutine decodes a long
// run of events and filters whose ids, keys and tag values are all distinct (more than any
// small table, ring or pool holds) and comes back to the first ones now and then: every value
// must still be the one its text supplies, however many others were decoded in between.
func c10LongHistory(rep *vk.Report) {
	n := vk.N(12000, 150000)
	text := func(i int) (ev []byte, e *mocrelay.Event) {
		e = &mocrelay.Event{ID: vk.HexOf(fmt.Sprint("c10 long id ", i)), Pubkey: vk.HexOf(fmt.Sprint("c10 long pk ", i)), CreatedAt: int64(i), Kind: int64(i % 40000),
			Content: fmt.Sprint("c10 long content ", i), Sig: strings.Repeat(fmt.Sprintf("%08x", i), 16),
			Tags: []mocrelay.Tag{{"e", vk.HexOf(fmt.Sprint("c10 long e ", i))}, {"p", vk.HexOf(fmt.Sprint("c10 long p ", i)), "wss://r" + fmt.Sprint(i) + ".example"}, {"t", fmt.Sprint("topic-", i)}}}
		b, _ := json.Marshal(e)
		return b, e
	}
	check := func(i int, when string) bool {
		b, want := text(i)
		var got mocrelay.Event
		rep.Eval(1)
		if err := json.Unmarshal(b, &got); err != nil || !vk.EventsEqual(&got, want) {
			rep.Violation("long-history/Event/value-changed", fmt.Sprintf("event %d of a long run of distinct events decodes to a value its text does not supply (%s): err=%v", i, when, err),
				map[string]any{"text": string(b), "decoded": c10Show(&got)})
			return false
		}
		frame := append(append([]byte(`["EVENT",`), b...), ']')
		m, err := mocrelay.ParseClientMsg(frame)
		em, is := m.(*mocrelay.ClientEventMsg)
		if err != nil || !is || !vk.EventsEqual(em.Event, want) {
			rep.Violation("long-history/ClientEventMsg/value-changed", fmt.Sprintf("EVENT %d of a long run of distinct messages decodes to a value its text does not supply (%s): err=%v", i, when, err),
				map[string]any{"text": string(frame)})
			return false
		}
		f := &mocrelay.ReqFilter{IDs: []string{want.ID}, Authors: []string{want.Pubkey}, Tags: map[string][]string{"e": {want.Tags[0][1]}, "t": {want.Tags[2][1]}}}
		fb, _ := json.Marshal(f)
		var gf mocrelay.ReqFilter
		if err := json.Unmarshal(fb, &gf); err != nil || !c10FilterEq(&gf, f) {
			rep.Violation("long-history/ReqFilter/value-changed", fmt.Sprintf("filter %d of a long run of distinct filters decodes to a value its text does not supply (%s): err=%v", i, when, err),
				map[string]any{"text": string(fb)})
			return false
		}
		rep.Count("long_history_decodes", 3)
		return true
	}
	for i := 0; i < n; i++ {
		if !check(i, "first time") {
			return
		}
		if i%1500 == 1499 {
			for _, j := range []int{0, 1, i - 1499, i / 2} {
				if !check(j, fmt.Sprintf("again after %d other distinct values", i-j)) {
					return
				}
			}
		}
	}
}

// ---------------------------------------------------------------------------
// the monitor

func TestVerif_C10(t *testing.T) {
	rep := vk.NewReport(t, "C10", "exploration")
	rep.Rule = "seeds: the lines of testdata/*.jsonl and seeded well-formed values of Event, ReqFilter and the 5 client + 7 server message types (hostile valid-UTF-8 strings, integers up to 2^63-1 / 2^64-1, every optional part present/absent/empty), written both by the repository's encoder and by the monitor's own JSON writer (random whitespace, member order, escape style). Inputs: each seed plus structural mutants (type swap, delete, duplicate key/element, renamed key incl. case/Kelvin variants, extra member, swapped values, number catalogue incl. 1e999/-0/2^63/400 digits, raw string literals with invalid UTF-8 / lone surrogates / NUL, deeper nesting, label swap) and byte/token mutants (bit flip, byte set, insert, delete, truncate at every offset for the testdata lines, duplicate, token delete/duplicate/swap/replace, splice of two seeds, BOM/garbage prefix and suffix, invalid UTF-8, NUL), random byte/token soup, nesting bombs (depth 100..1e5, thorough 1e6) and values with a 256 kB (thorough 1 MB) string. One evaluation = one input sent through ParseClientMsg, its home decoder by json.Unmarshal and by direct UnmarshalJSON, and one other decoder picked by the case RNG (every 32nd input: all 14 decoders in both modes) under recover(). Oracle: no panic; an accepted text yields non-nil parts, the type its label names and fields equal to the generic encoding/json reading of the text; decode(encode(decode(t))) == decode(t); decode(encode(v)) == v for generated values (OK/CLOSED by Message(), nil==empty only where the wire cannot differ). non-trivial = the input derives from a valid seed or was accepted; distinct = distinct (decoder, entry point, producing mutator, outcome class) where the outcome class is ok/panic/normalised error text; added later: a long history in one process (12 000/150 000 pairwise distinct events, EVENT messages and filters, the early ones re-read at intervals); OK values whose 64-byte id needs escaping; 'fields equal to the reading of the text' accepts the first or the last of several members with one name and exact or case-folded known member names, applied throughout"
	defer rep.Finish()

	if p := os.Getenv("VERIF_REPLAY"); p != "" {
		c10Replay(c10NewRun(rep), p)
		return
	}

	testdata := c10LoadTestdata()
	rep.Count("testdata_lines", int64(len(testdata)))
	fmt.Printf("VERIF-NOTE C10 in-flight batches are written to %s and removed when a batch completes; files left there after a crash hold the inputs that were running\n",
		c10InflightPath("<stream>", 0))

	// (1) generated values: round trip, own rendering, mutants ---------------------------
	nValueBatches := vk.N(100, 1000)
	const valuesPerBatch = 40
	mutantsPerValue := 18
	vk.Parallel(nValueBatches, func(bi int) {
		r := vk.RNG("C10/values", bi)
		run := c10NewRun(rep)
		var ins []*c10Input
		nIn := 0
		add := func(in *c10Input) {
			nIn++
			in.all = nIn%32 == 0
			ins = append(ins, in)
		}
		var prev []byte
		for k := 0; k < valuesPerBatch; k++ {
			d := &c10Decoders[(bi*valuesPerBatch+k)%len(c10Decoders)]
			v := c10Value(r, d.name)
			enc := c10ValueRoundTrip(run, d, v)
			tree := c10Tree(v)
			own := c10Render(r, tree, true)
			c10OwnRendering(run, r, d, v, own)
			if enc != nil {
				add(&c10Input{text: enc, home: d.name, mut: "seed/repo-encoding", seed: true})
			}
			add(&c10Input{text: own, home: d.name, mut: "seed/own-rendering", seed: true})
			for j := 0; j < mutantsPerValue; j++ {
				var text []byte
				var name string
				switch {
				case j%3 != 0:
					mt, n := c10MutateTree(r, tree)
					if r.IntN(5) == 0 {
						mt, _ = c10MutateTree(r, mt)
						n += "+tree"
					}
					text, name = c10Render(r, mt, false), n
					if r.IntN(6) == 0 {
						text, _ = c10MutateText(r, text, prev)
						name += "+text"
					}
				default:
					src := own
					if enc != nil && r.IntN(2) == 0 {
						src = enc
					}
					text, name = c10MutateText(r, src, prev)
					if r.IntN(5) == 0 {
						text, _ = c10MutateText(r, text, prev)
						name += "+text"
					}
				}
				add(&c10Input{text: text, home: d.name, mut: name, seed: true})
			}
			if k%4 == 0 {
				add(&c10Input{text: c10Soup(r), home: "", mut: "soup", seed: false})
			}
			prev = own
		}
		run.batch("values", bi, r, ins)
	})

	// (2) testdata lines: every prefix (truncation at every offset), then random mutants ---
	vk.Parallel(len(testdata), func(si int) {
		s := testdata[si]
		r := vk.RNG("C10/testdata", si)
		run := c10NewRun(rep)
		ins := []*c10Input{{text: s.text, home: s.home, mut: "seed/testdata", seed: true, all: true}}
		step := 1
		if vk.Tier() == "quick" && !s.valid {
			step = 7
		}
		for n := 0; n < len(s.text); n += step {
			ins = append(ins, &c10Input{text: s.text[:n], home: s.home, mut: "text/truncate-every-offset", seed: true})
		}
		other := testdata[r.IntN(len(testdata))].text
		for j := vk.N(150, 1500); j > 0; j-- {
			text, name := c10MutateText(r, s.text, other)
			if r.IntN(4) == 0 {
				text, _ = c10MutateText(r, text, other)
				name += "+text"
			}
			ins = append(ins, &c10Input{text: text, home: s.home, mut: name, seed: true, all: j%32 == 0})
		}
		run.batch("testdata", si, r, ins)
	})

	// (3) nesting bombs and huge strings: every decoder, both modes ------------------------
	depths := []int{100, 1000, 9990, 9999, 10000, 10001, 10050, 20000, 100000}
	if vk.Tier() == "thorough" {
		depths = append(depths, 300000, 1000000)
	}
	nBombs := vk.N(60, 600)
	vk.Parallel(nBombs, func(i int) {
		r := vk.RNG("C10/bombs", i)
		run := c10NewRun(rep)
		depth := depths[i%len(depths)]
		text, name := c10DepthBomb(r, depth)
		run.Count("bombs", 1)
		run.Seen("bomb_depths", fmt.Sprint(depth))
		run.batch("bombs", i, r, []*c10Input{{text: text, home: "", mut: name, seed: true, all: true}})
	})
	nBig := vk.N(4, 28)
	vk.Parallel(nBig, func(i int) {
		r := vk.RNG("C10/big", i)
		run := c10NewRun(rep)
		d := &c10Decoders[i%len(c10Decoders)]
		v := c10Value(r, d.name)
		huge := strings.Repeat(vk.Pick(r, []string{"a", "\\", "\"", " ", "\x00", "<", "\U0001f600", "é"}), vk.N(1<<18, 1<<20))
		switch m := v.(type) {
		case *mocrelay.Event:
			m.Content = huge
		case *mocrelay.ReqFilter:
			m.IDs = []string{huge}
		case *mocrelay.ClientEventMsg:
			m.Event.Tags = append(m.Event.Tags, mocrelay.Tag{"t", huge})
		case *mocrelay.ClientReqMsg:
			m.SubscriptionID = huge
		case *mocrelay.ClientCloseMsg:
			m.SubscriptionID = huge
		case *mocrelay.ClientAuthMsg:
			m.Event.Content = huge
		case *mocrelay.ClientCountMsg:
			m.ReqFilters[0].Tags = map[string][]string{"t": {huge}}
		case *mocrelay.ServerEOSEMsg:
			m.SubscriptionID = huge
		case *mocrelay.ServerEventMsg:
			m.Event.Content = huge
		case *mocrelay.ServerNoticeMsg:
			m.Message = huge
		case *mocrelay.ServerOKMsg:
			m.Msg = huge
		case *mocrelay.ServerAuthMsg:
			m.Challenge = huge
		case *mocrelay.ServerCountMsg:
			m.SubscriptionID = huge
		case *mocrelay.ServerClosedMsg:
			m.Msg = huge
		}
		run.Count("huge_string_values", 1)
		c10ValueRoundTrip(run, d, v)
		own := c10Render(r, c10Tree(v), true)
		cut, _ := c10MutateText(r, own, nil)
		if len(cut) > 4096 && i%2 == 0 {
			cut = own[:len(own)-1-r.IntN(4096)] // cut inside or just after the huge string
		}
		run.batch("big", i, r, []*c10Input{{text: cut, home: d.name, mut: "huge/mutant", seed: true}})
	})

	c10LongHistory(rep)

	// sanity gates -------------------------------------------------------------------------
	nValues := int64(nValueBatches * valuesPerBatch)
	rep.Require(len(testdata) >= 100, fmt.Sprintf("only %d testdata lines found under $VERIF_REPO/testdata", len(testdata)))
	rep.Require(rep.Counter("value_roundtrips") == nValues+int64(nBig), fmt.Sprintf("value round trips run: %d of %d", rep.Counter("value_roundtrips"), nValues+int64(nBig)))
	rep.Require(rep.Counter("own_renderings_accepted") >= rep.Counter("own_renderings")*99/100,
		fmt.Sprintf("the decoders accepted only %d of %d well-formed texts written by the monitor", rep.Counter("own_renderings_accepted"), rep.Counter("own_renderings")))
	rep.Require(rep.Counter("reencode_roundtrips") >= nValues, "too few decode-encode-decode round trips")
	for i := range c10Decoders {
		n := rep.Counter("accepted/" + c10Decoders[i].name)
		rep.Require(n >= 200, fmt.Sprintf("decoder %s accepted only %d inputs", c10Decoders[i].name, n))
	}
	rep.Require(rep.Counter("accepted/ParseClientMsg") >= 500, "ParseClientMsg accepted too few inputs")
	rep.Require(rep.Counter("rejected") >= nValues, "too few rejected inputs")
	rep.Require(rep.SetSize("error_classes") >= 60, fmt.Sprintf("only %d distinct error classes seen", rep.SetSize("error_classes")))
	for _, m := range append(append([]string{}, c10TreeMutators...), c10TextMutators...) {
		rep.Require(rep.Counter("inputs_by/"+m) > 0, "mutator never used: "+m)
	}
	rep.Require(rep.Counter("bombs") == int64(nBombs) && rep.SetSize("bomb_depths") == len(depths), "nesting bombs not run")
	rep.Require(c10InflightWritten.Load() > 0, "no in-flight batch file could be written (crash attribution lost)")
	rep.Set("inflight_batch_files_written", c10InflightWritten.Load())
}

// c10ValueRoundTrip: decode(encode(v)) == v for a generated well-formed value; returns
// the encoding.
func c10ValueRoundTrip(rep *c10Run, d *c10Decoder, v any) []byte {
	rep.Count("value_roundtrips", 1)
	rep.Count("value_roundtrips/"+d.name, 1)
	wit := func(extra map[string]any) map[string]any {
		w := map[string]any{"type": d.name, "value": c10Show(v), "value_go": c10Clip(fmt.Sprintf("%+v", reflect.ValueOf(v).Elem().Interface()))}
		for k, x := range extra {
			w[k] = x
		}
		return w
	}
	enc, mo := c10Marshal(v)
	if mo.pan != nil {
		rep.Violation("roundtrip/"+d.name+"/encode-panic", fmt.Sprintf("encoding a well-formed value panicked: %v", mo.pan), wit(map[string]any{"stack": mo.stack}))
		return nil
	}
	if mo.err != nil {
		rep.Violation("roundtrip/"+d.name+"/encode-error", "encoding a well-formed value failed: "+mo.err.Error(), wit(nil))
		return nil
	}
	// a text handed out by MarshalJSON stays what it was while other values of the same type
	// are encoded (it is not a view of a buffer that the next encode reuses)
	if mj, ok := v.(json.Marshaler); ok {
		if t1, err := mj.MarshalJSON(); err == nil {
			keep := append([]byte{}, t1...)
			if prev, ok := rep.prevValue[d.name]; ok {
				if pm, ok := prev.(json.Marshaler); ok {
					pm.MarshalJSON()
					pm.MarshalJSON()
				}
			}
			if !bytes.Equal(t1, keep) {
				rep.Violation("roundtrip/"+d.name+"/encoded-text-changed-later", "the bytes returned by MarshalJSON changed when another value of the type was encoded afterwards", wit(map[string]any{"returned": c10Clip(string(keep)), "now": c10Clip(string(t1))}))
			}
			rep.Count("encodings_checked_for_aliasing", 1)
		}
		if rep.prevValue == nil {
			rep.prevValue = map[string]any{}
		}
		rep.prevValue[d.name] = v
	}
	// the value form must encode like the pointer form (MarshalJSON has value receivers)
	if enc2, mo2 := c10Marshal(reflect.ValueOf(v).Elem().Interface()); mo2.pan != nil || mo2.err != nil {
		rep.Violation("roundtrip/"+d.name+"/encode-error", fmt.Sprintf("encoding the non-pointer value failed: %v %v", mo2.pan, mo2.err), wit(nil))
	} else if o := c10Decode(d, c10ModeUnmarshal, enc2); o.pan == nil && o.err == nil && !c10Equal(v, o.v) {
		rep.Violation("roundtrip/"+d.name+"/value-differs", "decode(encode(v)) differs from v (v passed by value)", wit(map[string]any{"encoded": c10Clip(string(enc2)), "decoded": c10Show(o.v)}))
	}
	for _, mode := range []string{c10ModeUnmarshal, c10ModeMethod} {
		o := c10Decode(d, mode, enc)
		switch {
		case o.pan != nil:
			rep.Violation("panic/"+d.name, fmt.Sprintf("decoding the encoding of a well-formed value panicked: %v", o.pan), wit(map[string]any{"encoded": c10Clip(string(enc)), "stack": o.stack}))
		case o.err != nil:
			rep.Violation("roundtrip/"+d.name+"/decode-rejects-encoding", fmt.Sprintf("%s rejects encode(v): %v", mode, o.err), wit(map[string]any{"encoded": c10Clip(string(enc))}))
		case !c10Equal(v, o.v):
			rep.Violation("roundtrip/"+d.name+"/value-differs", "decode(encode(v)) differs from v ("+mode+")", wit(map[string]any{"encoded": c10Clip(string(enc)), "decoded": c10Show(o.v)}))
		}
	}
	if d.client {
		m, o := c10Parse(enc)
		switch {
		case o.pan != nil:
			rep.Violation("panic/ParseClientMsg", fmt.Sprintf("parsing the encoding of a well-formed value panicked: %v", o.pan), wit(map[string]any{"encoded": c10Clip(string(enc)), "stack": o.stack}))
		case o.err != nil:
			rep.Violation("roundtrip/"+d.name+"/parse-rejects-encoding", "ParseClientMsg rejects encode(v): "+o.err.Error(), wit(map[string]any{"encoded": c10Clip(string(enc))}))
		case m == nil || reflect.TypeOf(m) != reflect.TypeOf(v) || !c10Equal(v, m):
			rep.Violation("roundtrip/"+d.name+"/parse-value-differs", fmt.Sprintf("ParseClientMsg(encode(v)) is a %T that differs from v", m), wit(map[string]any{"encoded": c10Clip(string(enc)), "decoded": c10Show(m)}))
		}
	}
	if rep.WantSample() {
		rep.Sample(map[string]any{"type": d.name, "encoded": c10Clip(string(enc)), "roundtrip": "equal"})
	}
	return enc
}

func c10Show(v any) string { return vk.JSON(c10Plain(v)) }

// c10Plain: a JSON-able view of a value for witnesses that does not go through the
// repository's MarshalJSON methods.
func c10Plain(v any) any {
	rv := reflect.ValueOf(v)
	if rv.Kind() == reflect.Pointer && !rv.IsNil() {
		rv = rv.Elem()
	}
	if rv.Kind() != reflect.Struct {
		return fmt.Sprintf("%+v", v)
	}
	out := map[string]any{}
	for i := 0; i < rv.NumField(); i++ {
		f := rv.Field(i)
		name := rv.Type().Field(i).Name
		switch x := f.Interface().(type) {
		case *mocrelay.Event:
			if x != nil {
				out[name] = c10Plain(x)
			} else {
				out[name] = nil
			}
		case []*mocrelay.ReqFilter:
			l := []any{}
			for _, fl := range x {
				l = append(l, c10Plain(fl))
			}
			out[name] = l
		default:
			out[name] = x
		}
	}
	return out
}

// c10OwnRendering: a well-formed text written by the monitor. Acceptance is not claimed
// by C10 (it is counted and gated); an accepted text must decode to the value it was
// written from.
func c10OwnRendering(c *c10Run, r *rand.Rand, d *c10Decoder, v any, text []byte) {
	rep := c
	rep.Count("own_renderings", 1)
	o := c10Decode(d, c10ModeUnmarshal, text)
	if o.pan != nil || o.err != nil {
		if o.err != nil {
			rep.Seen("own_rendering_rejections", d.name+": "+c10ErrClass(o.err))
		}
		return // panics are reported when the text runs as an input
	}
	rep.Count("own_renderings_accepted", 1)
	if !c10Equal(v, o.v) {
		rep.Violation("wellformed-text/"+d.name+"/decodes-to-different-value", "a well-formed text decodes to a value other than the one it was written from",
			map[string]any{"input_b64": base64.StdEncoding.EncodeToString(text), "input_quoted": c10Clip(strconv.QuoteToASCII(string(text))),
				"decoder": d.name, "written_from": c10Show(v), "decoded": c10Show(o.v)})
	}
}

// c10Replay re-runs the input of a replay file through every decoder.
func c10Replay(c *c10Run, path string) {
	b, err := os.ReadFile(path)
	if err != nil {
		c.rep.Inconclusive("replay file unreadable: " + err.Error())
		return
	}
	if bytes.HasPrefix(b, []byte("# property=C10")) {
		// an in-flight batch file left behind by a crashed run: run its inputs again
		n := 0
		for _, line := range bytes.Split(b, []byte("\n"))[1:] {
			q, _, _ := strings.Cut(string(line), "\t")
			text, err := strconv.Unquote(q)
			if err != nil {
				continue
			}
			n++
			c.run(vk.RNG("C10/replay", n), &c10Input{text: []byte(text), mut: "replay", seed: true, all: true})
		}
		c.flush()
		c.rep.Sample(map[string]any{"replayed_inflight_inputs": n})
		c.rep.Nontrivial("replay-a")
		c.rep.Nontrivial("replay-b")
		return
	}
	var doc struct {
		Witness struct {
			Input string `json:"input_b64"`
		} `json:"witness"`
	}
	if json.Unmarshal(b, &doc) != nil || doc.Witness.Input == "" {
		c.rep.Inconclusive("replay file has no witness.input_b64 (value round-trip witnesses are replayed by the normal run with the same seed)")
		return
	}
	text, err := base64.StdEncoding.DecodeString(doc.Witness.Input)
	if err != nil {
		c.rep.Inconclusive("replay input not base64")
		return
	}
	in := &c10Input{text: text, mut: "replay", seed: true, all: true}
	c.run(vk.RNG("C10/replay", 0), in)
	c.flush()
	c.rep.Sample(map[string]any{"replayed_input": c10Clip(strconv.QuoteToASCII(string(text)))})
	c.rep.Nontrivial("replay-a")
	c.rep.Nontrivial("replay-b")
}
