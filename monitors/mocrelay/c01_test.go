package mocrelay_test

import (
	"bytes"
	"crypto/sha256"
	"encoding/hex"
	"encoding/json"
	"fmt"
	"math"
	"math/rand/v2"
	"strconv"
	"strings"
	"testing"
	"unicode/utf8"

	"github.com/high-moctane/mocrelay"
	vk "github.com/high-moctane/mocrelay/internal/verifkit"
)

// C01 — event authenticity: Verify() == reference (canonical form, SHA-256, BIP-340).

func c01Reported(e *mocrelay.Event) bool {
	ok, err := e.Verify()
	return ok && err == nil
}

var c01Kinds = []int64{0, 1, 3, 4, 5, 7, 1000, 9999, 10000, 10002, 19999, 20000, 22242, 29999, 30000, 30023, 39999, 40000, 65535, 65536, 1<<53 + 1, math.MaxInt64, -1}
var c01Times = []int64{0, 1, 1 << 31, 1<<31 - 1, 1<<31 + 1, 1 << 32, 1 << 53, 1700000000, 1693157791, 1<<53 + 1, 1 << 62, math.MaxInt64 - 1, math.MaxInt64, -1, math.MinInt64, 1700000000123}

func c01Event(r *rand.Rand, content string) *mocrelay.Event {
	e := &mocrelay.Event{
		Kind:      vk.Pick(r, c01Kinds),
		CreatedAt: vk.Pick(r, c01Times),
		Content:   content,
		Tags:      []mocrelay.Tag{},
	}
	if r.IntN(4) == 0 {
		e.CreatedAt = r.Int64N(1 << 40)
	}
	nt := r.IntN(9)
	for i := 0; i < nt; i++ {
		n := 1 + r.IntN(5)
		if r.IntN(12) == 0 { // a tag without any element is a legal shape for the serialisation
			e.Tags = append(e.Tags, mocrelay.Tag{})
			continue
		}
		tag := make(mocrelay.Tag, n)
		tag[0] = vk.Pick(r, []string{"e", "p", "a", "d", "t", "client", "E", "-", "subject"})
		switch r.IntN(8) {
		case 0:
			// a tag name is a tag element like any other: one-byte names that need escaping,
			// and short names of arbitrary characters
			tag[0] = vk.Pick(r, []string{"\"", "\\", "\n", "\x00", "\x1f", "\x7f", "\t", "/", "\u00e9", "\u2028", ""})
		case 1:
			tag[0] = vk.HostileString(r, 3)
		}
		for j := 1; j < n; j++ {
			switch r.IntN(4) {
			case 0:
				tag[j] = ""
			case 1:
				tag[j] = vk.HexOf(fmt.Sprint(r.Uint32()))
			default:
				tag[j] = vk.HostileString(r, 12)
			}
		}
		e.Tags = append(e.Tags, tag)
	}
	return e
}

type c01Tamper struct {
	name string
	f    func(r *rand.Rand, e *mocrelay.Event, keys []vk.Key) bool // false: not applicable
}

func bumpNibble(s string, pos int) string {
	b := []byte(s)
	c := b[pos]
	const hexd = "0123456789abcdef"
	i := strings.IndexByte(hexd, c)
	b[pos] = hexd[(i+1)%16]
	return string(b)
}

func flipBit(s string, bit int) string {
	raw, _ := hex.DecodeString(s)
	raw[bit/8] ^= 1 << (bit % 8)
	return hex.EncodeToString(raw)
}

var c01Tampers = []c01Tamper{
	{"content-append", func(r *rand.Rand, e *mocrelay.Event, _ []vk.Key) bool { e.Content += "x"; return true }},
	{"content-drop-last", func(r *rand.Rand, e *mocrelay.Event, _ []vk.Key) bool {
		if e.Content == "" {
			return false
		}
		_, n := utf8.DecodeLastRuneInString(e.Content)
		e.Content = e.Content[:len(e.Content)-n]
		return true
	}},
	{"content-escape-confusion", func(r *rand.Rand, e *mocrelay.Event, _ []vk.Key) bool {
		// replace a special character by its escaped spelling (or the reverse)
		pairs := [][2]string{{"<", "\\u003c"}, {">", "\\u003e"}, {"&", "\\u0026"}, {"\u2028", "\\u2028"}, {"\u2029", "\\u2029"}, {"\n", "\\n"}, {"\x7f", "\\u007f"}}
		for _, p := range pairs {
			if strings.Contains(e.Content, p[0]) {
				e.Content = strings.Replace(e.Content, p[0], p[1], 1)
				return true
			}
		}
		return false
	}},
	{"created_at+1", func(r *rand.Rand, e *mocrelay.Event, _ []vk.Key) bool { e.CreatedAt++; return true }},
	{"created_at-1", func(r *rand.Rand, e *mocrelay.Event, _ []vk.Key) bool { e.CreatedAt--; return true }},
	{"kind+1", func(r *rand.Rand, e *mocrelay.Event, _ []vk.Key) bool { e.Kind++; return true }},
	{"kind-other", func(r *rand.Rand, e *mocrelay.Event, _ []vk.Key) bool {
		k := vk.Pick(r, c01Kinds)
		if k == e.Kind {
			return false
		}
		e.Kind = k
		return true
	}},
	{"tag-insert", func(r *rand.Rand, e *mocrelay.Event, _ []vk.Key) bool {
		i := r.IntN(len(e.Tags) + 1)
		e.Tags = append(e.Tags[:i:i], append([]mocrelay.Tag{{"t", "x"}}, e.Tags[i:]...)...)
		return true
	}},
	{"tag-remove", func(r *rand.Rand, e *mocrelay.Event, _ []vk.Key) bool {
		if len(e.Tags) == 0 {
			return false
		}
		i := r.IntN(len(e.Tags))
		e.Tags = append(e.Tags[:i:i], e.Tags[i+1:]...)
		return true
	}},
	{"tag-swap", func(r *rand.Rand, e *mocrelay.Event, _ []vk.Key) bool {
		if len(e.Tags) < 2 {
			return false
		}
		i := r.IntN(len(e.Tags) - 1)
		e.Tags[i], e.Tags[i+1] = e.Tags[i+1], e.Tags[i]
		return true
	}},
	{"tag-elem-change", func(r *rand.Rand, e *mocrelay.Event, _ []vk.Key) bool {
		if len(e.Tags) == 0 {
			return false
		}
		i := r.IntN(len(e.Tags))
		if len(e.Tags[i]) == 0 {
			return false
		}
		j := r.IntN(len(e.Tags[i]))
		e.Tags[i][j] += "'"
		return true
	}},
	{"tag-elem-append", func(r *rand.Rand, e *mocrelay.Event, _ []vk.Key) bool {
		if len(e.Tags) == 0 {
			return false
		}
		i := r.IntN(len(e.Tags))
		e.Tags[i] = append(e.Tags[i], "")
		return true
	}},
	{"tag-split-elem", func(r *rand.Rand, e *mocrelay.Event, _ []vk.Key) bool {
		// ["a","b,c"] vs ["a","b","c"]-style confusions
		if len(e.Tags) == 0 {
			return false
		}
		i := r.IntN(len(e.Tags))
		e.Tags[i] = mocrelay.Tag{strings.Join(e.Tags[i], "\",\"")}
		return true
	}},
	{"pubkey-other-key", func(r *rand.Rand, e *mocrelay.Event, keys []vk.Key) bool {
		k := vk.Pick(r, keys)
		if k.Pub == e.Pubkey {
			return false
		}
		e.Pubkey = k.Pub
		return true
	}},
	{"pubkey-other-spelling", func(r *rand.Rand, e *mocrelay.Event, _ []vk.Key) bool {
		// the same key bytes spelled with (some) upper-case hex digits: the serialisation
		// contains the pubkey as written, so the id no longer fits
		b := []byte(e.Pubkey)
		changed := false
		for i, c := range b {
			if c >= 'a' && c <= 'f' && (r.IntN(2) == 0 || !changed) {
				b[i] = c - 'a' + 'A'
				changed = true
			}
		}
		e.Pubkey = string(b)
		return changed
	}},
	{"pubkey-nibble", func(r *rand.Rand, e *mocrelay.Event, _ []vk.Key) bool {
		e.Pubkey = bumpNibble(e.Pubkey, r.IntN(64))
		return true
	}},
	{"pubkey-other-key-resealed", func(r *rand.Rand, e *mocrelay.Event, keys []vk.Key) bool {
		// id recomputed for the new pubkey, signature left from the old key
		k := vk.Pick(r, keys)
		if k.Pub == e.Pubkey {
			return false
		}
		e.Pubkey = k.Pub
		e.ID = vk.CanonID(e)
		return true
	}},
	{"hex-field-malformed", func(r *rand.Rand, e *mocrelay.Event, _ []vk.Key) bool {
		// id, pubkey or sig that is no hex string at all: a letter outside a-f, or an odd
		// number of digits (one dropped)
		f := []*string{&e.ID, &e.Pubkey, &e.Sig}[r.IntN(3)]
		if r.IntN(2) == 0 {
			b := []byte(*f)
			b[r.IntN(len(b))] = "ghzGZ -"[r.IntN(7)]
			*f = string(b)
		} else {
			i := r.IntN(len(*f))
			*f = (*f)[:i] + (*f)[i+1:]
		}
		return true
	}},
	{"hex-field-character-bit", func(r *rand.Rand, e *mocrelay.Event, _ []vk.Key) bool {
		// one bit of one character of id, pubkey or sig flipped (the character, not the nibble it
		// spells: '7' becomes a control character, 'a' becomes 'A' or '!')
		f := []*string{&e.ID, &e.ID, &e.Pubkey, &e.Sig}[r.IntN(4)]
		b := []byte(*f)
		i := r.IntN(len(b))
		b[i] ^= 1 << uint(r.IntN(7))
		if r.IntN(2) == 0 {
			b[i] = (*f)[i] ^ 0x20 // the ASCII letter-case bit, on digits too
		}
		if c := b[i]; (c >= 'A' && c <= 'F') || (c >= '0' && c <= '9') || (c >= 'a' && c <= 'f') {
			// still a hex digit: either another value (the nibble tampers do that) or the same
			// value spelled in upper case, which Verify alone is not claimed to refuse
			return false
		}
		*f = string(b)
		return true
	}},
	{"id-nibble", func(r *rand.Rand, e *mocrelay.Event, _ []vk.Key) bool {
		e.ID = bumpNibble(e.ID, r.IntN(64))
		return true
	}},
	{"id-bitflip", func(r *rand.Rand, e *mocrelay.Event, _ []vk.Key) bool { e.ID = flipBit(e.ID, r.IntN(256)); return true }},
	{"sig-nibble", func(r *rand.Rand, e *mocrelay.Event, _ []vk.Key) bool {
		e.Sig = bumpNibble(e.Sig, r.IntN(128))
		return true
	}},
	{"sig-bitflip-r", func(r *rand.Rand, e *mocrelay.Event, _ []vk.Key) bool {
		e.Sig = flipBit(e.Sig, r.IntN(256))
		return true
	}},
	{"sig-bitflip-s", func(r *rand.Rand, e *mocrelay.Event, _ []vk.Key) bool {
		e.Sig = flipBit(e.Sig, 256+r.IntN(256))
		return true
	}},
	{"sig-swap-halves", func(r *rand.Rand, e *mocrelay.Event, _ []vk.Key) bool { e.Sig = e.Sig[64:] + e.Sig[:64]; return true }},
	{"sig-zero", func(r *rand.Rand, e *mocrelay.Event, _ []vk.Key) bool { e.Sig = strings.Repeat("0", 128); return true }},
	{"sig-of-other-event", func(r *rand.Rand, e *mocrelay.Event, keys []vk.Key) bool {
		h := sha256.Sum256([]byte("some other message"))
		for _, k := range keys {
			if k.Pub == e.Pubkey {
				e.Sig = vk.SignHash(k, h[:])
				return true
			}
		}
		return false
	}},
	{"content+id-resealed-sig-stale", func(r *rand.Rand, e *mocrelay.Event, _ []vk.Key) bool {
		e.Content += "!"
		e.ID = vk.CanonID(e)
		return true
	}},
}

// wrong canonicalisations a sloppy implementation might hash instead of the NIP-01 form
func c01WrongForms(e *mocrelay.Event) map[string][]byte {
	out := map[string][]byte{}
	v := []any{0, e.Pubkey, e.CreatedAt, e.Kind, e.Tags, e.Content}
	if b, err := json.Marshal(v); err == nil {
		out["go-json-html-escaping"] = b
	}
	var buf bytes.Buffer
	enc := json.NewEncoder(&buf)
	enc.SetEscapeHTML(false)
	if err := enc.Encode(v); err == nil {
		out["go-json-nohtml"] = bytes.TrimRight(buf.Bytes(), "\n")
		out["go-json-trailing-newline"] = append([]byte{}, buf.Bytes()...)
	}
	c := vk.CanonEvent(e)
	out["spaces-after-commas"] = bytes.ReplaceAll(c, []byte(","), []byte(", "))
	out["slash-escaped"] = bytes.ReplaceAll(c, []byte("/"), []byte("\\/"))
	out["del-escaped"] = bytes.ReplaceAll(c, []byte("\x7f"), []byte("\\u007f"))
	out["upper-hex-escapes"] = []byte(strings.NewReplacer("\\u001f", "\\u001F", "\\u001b", "\\u001B", "\\u000b", "\\u000B", "\\u000e", "\\u000E").Replace(string(c)))
	out["b-f-as-u00"] = []byte(strings.NewReplacer("\\b", "\\u0008", "\\f", "\\u000c").Replace(string(c)))
	return out
}

func TestVerif_C01(t *testing.T) {
	rep := vk.NewReport(t, "C01", "exploration")
	rep.Rule = "freshly signed events (32 fixed + seeded keys, every kind class, boundary created_at, 0-8 tags of 0-5 elements, hostile content and tag values, a complete sweep of U+0000..U+FFFF minus surrogates and 4096 astral samples), 1300/4200 distinct authors in one process (re-checked afterwards, with cross-signed forgeries), each event with sampled tamperings from a 27-entry catalogue, ids/signatures with a 00 byte at either end cut off or padded and wrong-canonicalisation forgeries; oracle = reference canonical form + SHA-256 + independent BIP-340 verifier; added later: contents of 16-136 kB, among them runs of one 2-, 3- or 4-byte character at every byte alignment; tag names too are hostile now and then (one-byte names that need escaping, the empty name); altered copies include one flipped bit of one character of id, pubkey or sig (results that merely respell a hex digit in the other case are left out); non-trivial = the event contains a character some JSON encoder escapes or any non-ASCII character, or is a tampering/forgery; distinct = distinct (event id, tamper class)"
	rep.Assume("the independent BIP-340 verifier passed the official test vectors at start-up")
	defer rep.Finish()

	keys := make([]vk.Key, 32)
	for i := range keys {
		keys[i] = vk.KeyN(i)
	}
	nTamper := vk.N(6, 25)

	check := func(r *rand.Rand, k vk.Key, e *mocrelay.Event, label string) {
		vk.Sign(k, e)
		rep.Eval(1)
		// Serialize must be the canonical form
		ser, err := e.Serialize()
		if err != nil || !bytes.Equal(ser, vk.CanonEvent(e)) {
			rep.Violation("serialize/not-canonical", fmt.Sprintf("Serialize differs from the NIP-01 canonical form (classes %s)", vk.EscapeClass(e.Content)),
				map[string]any{"event": e, "got": string(ser), "want": string(vk.CanonEvent(e))})
		}
		// the independent verifier is slow under the race detector: it cross-checks every
		// signed event (and an eighth of their alterations) in the thorough tier and one
		// event in sixteen with all its alterations in the quick tier; the id
		// part of the reference (canonical form + SHA-256) is always checked
		fullRef := vk.Tier() == "thorough" || r.IntN(16) == 0
		tamperRef := fullRef && (vk.Tier() != "thorough" || r.IntN(8) == 0)
		if fullRef {
			rep.Count("bip340_reference_verifications", 1)
			if !vk.RefAuthentic(e) {
				rep.Violation("harness/generator", "generated event is not authentic under the reference", e)
				return
			}
		} else if e.ID != vk.CanonID(e) {
			rep.Violation("harness/generator", "generated event id is not the canonical hash", e)
			return
		}
		cls := vk.EscapeClass(e.Content)
		for _, tg := range e.Tags {
			for _, s := range tg {
				if c := vk.EscapeClass(s); c != "" {
					cls += "|t:" + c
				}
			}
		}
		if cls != "" {
			rep.Nontrivial(e.ID)
			rep.Seen("escape_classes", vk.EscapeClass(e.Content))
		}
		rep.Count("signed_events", 1)
		if !c01Reported(e) {
			rep.Violation("verify/rejects-authentic/"+classKey(e), "a correctly signed event is reported not authentic; character classes: "+cls,
				map[string]any{"event": e, "label": label})
		}
		if rep.WantSample() && cls != "" {
			rep.Sample(map[string]any{"event": vk.JSON(e), "authentic": true})
		}
		// tamperings
		perm := r.Perm(len(c01Tampers))
		done := 0
		for _, ti := range perm {
			if done >= nTamper {
				break
			}
			tm := c01Tampers[ti]
			c := vk.CloneEvent(e)
			if !tm.f(r, c, keys) {
				continue
			}
			done++
			rep.Eval(1)
			// by the statement: any change of a signed field, the id, the pubkey or the
			// signature makes the event not authentic; an alteration that leaves all of
			// them as they were (swapping two equal tags) leaves it authentic
			want := bytes.Equal(vk.CanonEvent(c), vk.CanonEvent(e)) && c.ID == e.ID && c.Pubkey == e.Pubkey && c.Sig == e.Sig
			if tamperRef {
				rep.Count("bip340_reference_verifications", 1)
				if ref := vk.RefAuthentic(c); ref != want {
					rep.Violation("harness/reference-disagrees", fmt.Sprintf("reference says %v for tamper %s", ref, tm.name), map[string]any{"original": e, "altered": c})
					continue
				}
			}
			got := c01Reported(c)
			rep.Nontrivial(e.ID + tm.name)
			rep.Seen("tamper_classes", tm.name)
			if want {
				rep.Count("tamperings_still_authentic", 1) // e.g. swapping two equal tags
			}
			if got != want {
				rep.Violation("verify/tamper/"+tm.name, fmt.Sprintf("altered event (%s): reported authentic=%v, reference=%v", tm.name, got, want),
					map[string]any{"original": e, "altered": c})
			}
		}
		// whatever was looked at in between, the genuine event is still authentic (no verdict
		// depends on what was checked before)
		if done > 0 && !c01Reported(e) {
			rep.Violation("verify/rejects-authentic/after-altered-copies", "a correctly signed event, authentic a moment ago, is reported not authentic after altered copies of it were checked", map[string]any{"event": e})
		}
		// forgeries over wrong canonical forms
		canon := vk.CanonEvent(e)
		for name, form := range c01WrongForms(e) {
			if bytes.Equal(form, canon) {
				continue
			}
			c := vk.CloneEvent(e)
			h := sha256.Sum256(form)
			c.ID = hex.EncodeToString(h[:])
			c.Sig = vk.SignHash(k, h[:])
			rep.Eval(1)
			rep.Nontrivial(e.ID + "forge" + name)
			rep.Seen("forgery_classes", name)
			if c01Reported(c) {
				rep.Violation("verify/accepts-forgery/"+name, "an event whose id is the hash of a non-canonical serialisation ("+name+") is reported authentic",
					map[string]any{"event": c, "hashed_form": string(form), "canonical": string(canon)})
			}
		}
	}

	// (1) random hostile events
	n := vk.N(3000, 15000)
	vk.Parallel(n, func(i int) {
		r := vk.RNG("C01/random", i)
		var k vk.Key
		if r.IntN(3) == 0 {
			k = vk.KeyFromRNG(r)
		} else {
			k = keys[r.IntN(len(keys))]
		}
		check(r, k, c01Event(r, vk.HostileString(r, 40)), "random")
	})

	// (1b) long contents (4-14 kB) made of multi-byte runes with escapable characters
	// sprinkled in, so that any block-wise or buffered serializer is crossed at many offsets
	nLong := vk.N(150, 1500)
	vk.Parallel(nLong, func(i int) {
		r := vk.RNG("C01/long", i)
		var b strings.Builder
		target := 4000 + r.IntN(10000)
		for b.Len() < target {
			switch r.IntN(40) {
			case 0:
				b.WriteByte(byte(r.IntN(0x20)))
			case 1:
				b.WriteString(vk.Pick(r, []string{"\"", "\\", "<", "&", "\u2028", "\x7f"}))
			case 2, 3, 4:
				b.WriteByte(byte('a' + r.IntN(26)))
			case 5, 6:
				b.WriteRune(rune(0x10000 + r.IntN(0xffff)))
			default:
				b.WriteRune(vk.Pick(r, []rune{0xe9, 0x3042, 0x4e2d, 0x20ac, 0x0416, 0x05d0}))
			}
		}
		e := c01Event(r, b.String())
		if i%3 == 0 {
			e.Tags = append(e.Tags, mocrelay.Tag{"t", b.String()[:utf8Cut(b.String(), 5000)]})
		}
		check(r, keys[i%len(keys)], e, "long content")
		rep.Count("long_contents", 1)
	})

	// (1c) very long contents (up to ~136 kB): runs of one 2-, 3- or 4-byte character at every
	// byte alignment, so that every boundary of a block-wise hasher or escaper (any multiple
	// of 4, 8, 16, 32, 64 KiB ...) is crossed with the character cut at each of its bytes,
	// plus mixed contents of 16-136 kB
	type c01Run struct {
		ch  string
		off int
	}
	var runs []c01Run
	for _, ch := range []string{"\u00e9", "\u3042", "\U0001F600", "\U00010348"} {
		for off := 0; off < len(ch); off++ {
			runs = append(runs, c01Run{ch, off})
		}
	}
	nHuge := len(runs) + vk.N(8, 60)
	vk.Parallel(nHuge, func(i int) {
		r := vk.RNG("C01/huge", i)
		var b strings.Builder
		if i < len(runs) {
			b.WriteString(strings.Repeat("a", runs[i].off))
			b.WriteString(strings.Repeat(runs[i].ch, (132000+r.IntN(4000))/len(runs[i].ch)))
		} else {
			target := 16000 + r.IntN(120000)
			for b.Len() < target {
				switch r.IntN(12) {
				case 0:
					b.WriteString(vk.Pick(r, []string{"\"", "\\", "<", "&", "\u2028", "\x7f", "\x01", "\n"}))
				case 1, 2:
					b.WriteString(strings.Repeat("x", 1+r.IntN(3)))
				case 3, 4, 5:
					b.WriteString(strings.Repeat(string(rune(0x10000+r.IntN(0xffff))), 1+r.IntN(6)))
				default:
					b.WriteString(strings.Repeat(string(vk.Pick(r, []rune{0xe9, 0x3042, 0x4e2d, 0x20ac, 0xfffd})), 1+r.IntN(9)))
				}
			}
		}
		e := c01Event(r, b.String())
		check(r, keys[i%len(keys)], e, "very long content")
		rep.Count("very_long_contents", 1)
	})

	// (2) code-point sweep: every scalar value of the BMP, 64 per event, and the
	// interesting ones alone; astral samples
	var blocks [][]rune
	var cur []rune
	for c := rune(0); c <= 0xffff; c++ {
		if c >= 0xd800 && c <= 0xdfff {
			continue
		}
		cur = append(cur, c)
		if len(cur) == 64 {
			blocks = append(blocks, cur)
			cur = nil
		}
	}
	if len(cur) > 0 {
		blocks = append(blocks, cur)
	}
	for _, c := range vk.InterestingRunes {
		blocks = append(blocks, []rune{c})
	}
	for c := rune(0); c < 0x20; c++ {
		blocks = append(blocks, []rune{c})
	}
	ar := vk.RNG("C01/astral", 0)
	for i := 0; i < 64; i++ {
		var b []rune
		for j := 0; j < 64; j++ {
			b = append(b, rune(0x10000+ar.IntN(0x100000)))
		}
		blocks = append(blocks, b)
	}
	var swept int64
	vk.Parallel(len(blocks), func(i int) {
		r := vk.RNG("C01/sweep", i)
		e := c01Event(r, string(blocks[i]))
		if i%2 == 0 { // also as a tag value
			e.Tags = append(e.Tags, mocrelay.Tag{"t", string(blocks[i])})
		}
		check(r, keys[i%len(keys)], e, fmt.Sprintf("sweep U+%04X..", blocks[i][0]))
		rep.Count("code_points_swept", int64(len(blocks[i])))
	})
	_ = swept

	// (2a) many authors in one process: more distinct signing keys than any table of parsed
	// keys is likely to hold; afterwards the first authors' events are checked again, and an
	// event carrying an early author's pubkey under a late author's signature is a forgery
	nAuthors := vk.N(1300, 4200)
	{
		r := vk.RNG("C01/authors", 0)
		authors := make([]vk.Key, nAuthors)
		evs := make([]*mocrelay.Event, nAuthors)
		for i := range authors {
			authors[i] = vk.KeyFromRNG(r)
			evs[i] = c01Event(r, fmt.Sprintf("author %d", i))
			vk.Sign(authors[i], evs[i])
			rep.Eval(1)
			if !c01Reported(evs[i]) {
				rep.Violation("verify/rejects-authentic/many-authors", fmt.Sprintf("a correctly signed event of the %d-th distinct author of this process is reported not authentic", i+1), map[string]any{"event": evs[i]})
				break
			}
		}
		for i := 0; i < nAuthors && rep.Violations() == 0; i += 1 + i/64 {
			rep.Eval(2)
			if !c01Reported(evs[i]) {
				rep.Violation("verify/rejects-authentic/many-authors", fmt.Sprintf("the event of author %d, authentic when first checked, is reported not authentic after %d distinct authors were seen", i, nAuthors), map[string]any{"event": evs[i]})
				break
			}
			// author i's pubkey, content and id, signed by a late author
			j := nAuthors - 1 - i%200
			f := vk.CloneEvent(evs[i])
			idb, _ := hex.DecodeString(f.ID)
			f.Sig = vk.SignHash(authors[j], idb)
			if j != i && c01Reported(f) {
				rep.Violation("verify/accepts-forgery/foreign-signature-after-many-authors", fmt.Sprintf("an event with author %d's pubkey and a signature made with author %d's key is reported authentic", i, j), map[string]any{"event": f})
				break
			}
		}
		rep.Count("distinct_authors_in_one_process", int64(nAuthors))
	}

	// (2b) hex strings of the wrong length: ids and signatures whose last (or first) byte is 00
	// are ground out, then that byte is cut off, or a 00 byte is added: never authentic
	nGrind := vk.N(4, 40)
	vk.Parallel(nGrind, func(i int) {
		r := vk.RNG("C01/hexlen", i)
		k := keys[r.IntN(len(keys))]
		field := []string{"id", "sig"}[i%2]
		end := []string{"last", "first"}[i/2%2]
		var e *mocrelay.Event
		for try := 0; try < 4000; try++ {
			c := c01Event(r, "grind "+strconv.Itoa(try))
			vk.Sign(k, c)
			h := c.ID
			if field == "sig" {
				h = c.Sig
			}
			if end == "last" && strings.HasSuffix(h, "00") || end == "first" && strings.HasPrefix(h, "00") {
				e = c
				break
			}
		}
		if e == nil {
			return // (1 - 1/256)^4000: does not happen
		}
		if !c01Reported(e) {
			rep.Violation("verify/rejects-authentic/plain", "a correctly signed event is reported not authentic", map[string]any{"event": e})
			return
		}
		for _, variant := range []string{"cut", "pad"} {
			g := vk.CloneEvent(e)
			h := &g.ID
			if field == "sig" {
				h = &g.Sig
			}
			switch {
			case variant == "cut" && end == "last":
				*h = (*h)[:len(*h)-2]
			case variant == "cut" && end == "first":
				*h = (*h)[2:]
			case variant == "pad" && end == "last":
				*h += "00"
			default:
				*h = "00" + *h
			}
			rep.Eval(1)
			rep.Count("hex_length_alterations", 1)
			rep.Nontrivial(e.ID + "/hexlen/" + field + "/" + variant + "/" + end)
			if c01Reported(g) {
				rep.Violation("verify/accepts-forgery/"+field+"-"+variant+"-"+end+"-00-byte", fmt.Sprintf("a signed event whose %s had its %s byte (00) %s is still reported authentic", field, end, map[string]string{"cut": "cut off", "pad": "duplicated by padding"}[variant]),
					map[string]any{"original": e, "altered": g})
			}
		}
	})

	// (3) end to end: EVENT frames over real WebSocket connections behind Relay.ServeHTTP
	// (the gate the property is anchored in): genuine hostile events must reach the
	// handler, unsigned / altered (also after the genuine one was admitted) /
	// wrong-canonicalisation / unparsable-key events must not
	nE2E := vk.N(40, 600)
	vk.ParallelW(8, nE2E, func(i int) {
		if rep.Violations() >= 3 {
			return
		}
		r := vk.RNG("C01/e2e", i)
		var frames []c12Frame
		for _, f := range c12Frames(r, 1_000_000+i, nil) {
			if strings.HasPrefix(f.class, "valid/EVENT") || strings.HasPrefix(f.class, "forged/") {
				frames = append(frames, f)
			}
		}
		if len(frames) < 4 {
			return
		}
		before := rep.Violations()
		c12Connection(rep, i, r, frames, "relay/")
		if rep.Violations() == before {
			rep.Count("e2e_connections", 1)
			rep.Count("e2e_event_frames", int64(len(frames)))
			rep.Eval(len(frames))
		}
	})
	rep.Require(rep.Counter("e2e_connections") >= int64(nE2E/2), "end-to-end connections")
	rep.Require(rep.Counter("signed_events") >= int64(n), "signed events")
	rep.Require(rep.Counter("code_points_swept") >= 63488, "BMP sweep incomplete")
	rep.Require(rep.SetSize("tamper_classes") >= 20, "tamper classes")
	rep.Require(rep.SetSize("forgery_classes") >= 3, "forgery classes")
}

// classKey names the escape classes of an event's content for violation signatures, so
// that a different kind of character is a different finding.
func classKey(e *mocrelay.Event) string {
	c := vk.EscapeClass(e.Content)
	for _, tg := range e.Tags {
		for _, s := range tg {
			if k := vk.EscapeClass(s); strings.Contains(k, "html") || strings.Contains(k, "ls") {
				if !strings.Contains(c, "html") && strings.Contains(k, "html") {
					c += "+html"
				}
				if !strings.Contains(c, "ls") && strings.Contains(k, "ls") {
					c += "+ls"
				}
			}
		}
	}
	if strings.Contains(c, "html") || strings.Contains(c, "ls") {
		out := ""
		if strings.Contains(c, "html") {
			out += "html"
		}
		if strings.Contains(c, "ls") {
			out += "ls"
		}
		return out
	}
	if c == "" {
		return "plain"
	}
	return "other"
}

// utf8Cut returns the largest rune boundary <= n.
func utf8Cut(s string, n int) int {
	if n >= len(s) {
		return len(s)
	}
	for n > 0 && !utf8.RuneStart(s[n]) {
		n--
	}
	return n
}
